"""Engine A ("symreal"): z3-Real-backed scalars carrying truncated multivariate power series
("jets") in named formal parameters; a numpy proxy that lets the REAL pyins numeric source run
on object arrays of such scalars; algebraic relaxation of sin/cos/sqrt/reciprocal (sound for
`unsat`); numeric evaluation of symbolic results with the true functions (translator validation
and triage of `sat` models).
"""
import fractions
import itertools
import math

import numpy as np
import z3

from . import paths

Fr = fractions.Fraction


# ------------------------------------------------------------------------------------------
# context
# ------------------------------------------------------------------------------------------
class Ctx:
    def __init__(self, formal=()):
        self.formal = list(formal)                  # [(name, maxdeg)]
        self.nv = len(self.formal)
        self.maxdeg = tuple(d for _, d in self.formal)
        self.total = None                           # optional bound on total degree
        self.cons = []                              # defining constraints of auxiliary vars
        self.dom = []                               # domain assumptions
        self.trig = {}                              # ast id -> (sin var, cos var, arg term)
        self.memo = {}
        self.cnt = 0
        self.zero = (0,) * self.nv
        self.defs = {}                              # aux var name -> ('sin'|'cos'|'sqrt'|'inv'|..., arg term)
        self.angles = {}                            # declared angle vars: name -> (lo, hi) degrees
        self.keep = []
        self.divs = []                              # (denominator term, path condition at the division): definedness obligations

    def fresh(self, p):
        self.cnt += 1
        return z3.Real('%s!%d' % (p, self.cnt))


C = Ctx()


def set_ctx(c):
    global C
    C = c
    return c


def new_ctx(formal=()):
    return set_ctx(Ctx(formal))


DEG = z3.Real('deg')           # one degree in radians: pi = 180*deg
ZERO = z3.RealVal(0)
ONE = z3.RealVal(1)
DEG_LO, DEG_HI = Fr(17453292, 10**9), Fr(17453293, 10**9)


class NarrowingStore(TypeError):
    """the code under test stored a real-valued quantity into an array of integer dtype (e.g. one
    whose dtype was inherited from an integer-typed argument)"""


class PoisonUse(Exception):
    """the code under test used an array after handing it to a library call with overwrite_*=True"""


class Poison:
    """content of an argument overwritten by a library call (overwrite_b=True): any use raises"""

    def _use(self, *a, **k):
        raise PoisonUse('use of an array after it was handed over with overwrite_b=True (its content is unspecified)')
    __add__ = __radd__ = __sub__ = __rsub__ = __mul__ = __rmul__ = __truediv__ = __rtruediv__ = _use
    __neg__ = __pos__ = __abs__ = __pow__ = __rpow__ = __float__ = __lt__ = __le__ = __gt__ = __ge__ = _use
    __matmul__ = __rmatmul__ = _use

    def __repr__(self):
        return '<poison>'


POISON = Poison()

def rat(x):
    if type(x) is Poison:
        x._use()
    if isinstance(x, bool):
        raise TypeError('bool in arithmetic')
    if isinstance(x, (int, np.integer)):
        return z3.RealVal(int(x))
    if isinstance(x, (float, np.floating)):
        if x != x or x in (float('inf'), float('-inf')):
            raise ValueError('non-finite float in symbolic arithmetic')
        fr = Fr(float(x))
        return z3.Q(fr.numerator, fr.denominator)
    if isinstance(x, Fr):
        return z3.Q(x.numerator, x.denominator)
    raise TypeError(type(x))


def is_val(t):
    return z3.is_rational_value(t)


def val(t):
    return Fr(t.numerator_as_long(), t.denominator_as_long())


def is0(t):
    return z3.is_rational_value(t) and t.numerator_as_long() == 0


def is1(t):
    return z3.is_rational_value(t) and t.numerator_as_long() == 1 and t.denominator_as_long() == 1


def zmul(a, b):
    if is0(a) or is0(b):
        return ZERO
    if is1(a):
        return b
    if is1(b):
        return a
    if is_val(a) and is_val(b):
        return rat(val(a) * val(b))
    return a * b


def zadd(a, b):
    if is0(a):
        return b
    if is0(b):
        return a
    if is_val(a) and is_val(b):
        return rat(val(a) + val(b))
    return a + b


def zneg(a):
    if is_val(a):
        return rat(-val(a))
    return -a


def J(x):
    if isinstance(x, Sym):
        return x
    return Sym({C.zero: rat(x)})


def const(term):
    return Sym({C.zero: term})


def var(name):
    return Sym({C.zero: z3.Real(name)})


def formal(i):
    if isinstance(i, str):
        i = [n for n, _ in C.formal].index(i)
    k = tuple(1 if j == i else 0 for j in range(C.nv))
    return Sym({k: ONE})


def declare_angle(name, lo, hi):
    """angle variable in degrees with range [lo, hi]; sign facts of its (sin, cos) pair are
    added when the pair is created"""
    C.angles[name] = (Fr(lo), Fr(hi))
    v = z3.Real(name)
    C.dom += [v >= rat(Fr(lo)), v <= rat(Fr(hi))]
    return Sym({C.zero: v})


def _ok_degree(k):
    if any(e > m for e, m in zip(k, C.maxdeg)):
        return False
    if C.total is not None and sum(k) > C.total:
        return False
    return True


class SymbolicBranch(Exception):
    pass


def _decide(cond):
    """a data-dependent decision: forked by the active path executor; without one it is still
    decided if the constraint set implies one outcome (e.g. a guard `sin(a) > 1`)"""
    ex = paths.CUR
    if ex is None or not getattr(ex, 'active', False):
        for outcome, neg in ((True, z3.Not(cond)), (False, cond)):
            sv = z3.Solver()
            sv.set('timeout', 3000)
            sv.add(C.dom)
            sv.add(C.cons)
            sv.add(neg)
            if sv.check() == z3.unsat:
                return outcome
        raise SymbolicBranch('comparison on a symbolic value outside a path executor: %s' % cond)
    return ex.decide(cond)


# ------------------------------------------------------------------------------------------
# the scalar
# ------------------------------------------------------------------------------------------
class Sym:
    shape = ()
    ndim = 0
    size = 1
    __slots__ = ('co', '_src')

    def __init__(self, co):
        self.co = {k: v for k, v in co.items() if not is0(v)}
        self._src = None

    # numpy sometimes asks
    @property
    def T(self):
        return self

    @property
    def real(self):
        return self

    def copy(self):
        return self

    def item(self):
        return self

    def __array_dummy__(self):
        pass

    @property
    def c0(self):
        return self.co.get(C.zero, ZERO)

    def nil(self):
        return Sym({k: v for k, v in self.co.items() if k != C.zero})

    def isconst(self):
        return all(k == C.zero for k in self.co)

    def coef(self, *k):
        if len(k) == 1 and isinstance(k[0], tuple):
            k = k[0]
        return self.co.get(tuple(k), ZERO)

    def part(self, *k):
        return Sym({C.zero: self.coef(*k)})

    # ---- ring ops ---------------------------------------------------------------------
    def __add__(s, o):
        if isinstance(o, np.ndarray):
            return NotImplemented
        try:
            o = J(o)
        except TypeError:
            return NotImplemented
        r = dict(s.co)
        for k, v in o.co.items():
            r[k] = zadd(r.get(k, ZERO), v)
        return Sym(r)
    __radd__ = __add__

    def __neg__(s):
        return Sym({k: zneg(v) for k, v in s.co.items()})

    def __pos__(s):
        return s

    def __sub__(s, o):
        if isinstance(o, np.ndarray):
            return NotImplemented
        try:
            return s + (-J(o))
        except TypeError:
            return NotImplemented

    def __rsub__(s, o):
        if isinstance(o, np.ndarray):
            return NotImplemented
        try:
            return J(o) + (-s)
        except TypeError:
            return NotImplemented

    def __mul__(s, o):
        if isinstance(o, np.ndarray):
            return NotImplemented
        try:
            o = J(o)
        except TypeError:
            return NotImplemented
        r = {}
        for ka, va in s.co.items():
            for kb, vb in o.co.items():
                k = tuple(a + b for a, b in zip(ka, kb))
                if not _ok_degree(k):
                    continue
                r[k] = zadd(r.get(k, ZERO), zmul(va, vb))
        return Sym(r)
    __rmul__ = __mul__

    def _apply_series(s, coeffs_fn):
        """f(c0+u) = sum_k coeffs_fn(k) * u^k, u nilpotent"""
        u = s.nil()
        n = sum(C.maxdeg) if C.total is None else min(sum(C.maxdeg), C.total)
        res = coeffs_fn(0)
        p = J(1)
        for k in range(1, n + 1):
            p = p * u
            if not p.co:
                break
            res = res + coeffs_fn(k) * p
        return res

    def inv(s):
        c0 = canon(s.c0)
        if is_val(c0):
            if val(c0) == 0:
                raise ZeroDivisionError('division by a series with zero constant term')
            r = rat(1 / val(c0))
        else:
            key = sem_key('inv', c0)
            ex_ = paths.CUR
            C.divs.append((c0, tuple(ex_.pc) if ex_ is not None and getattr(ex_, 'active', False) else (), key))
            if key not in C.memo:
                r = C.fresh('r')
                C.cons.append(r * c0 == 1)
                C.memo[key] = (r, c0)
                C.defs[str(r)] = ('inv', c0)
                C.keep.append(c0)
            r = C.memo[key][0]
        if not s.nil().co:
            return Sym({C.zero: r})
        R = Sym({C.zero: r})

        def cf(k):
            t = R
            for _ in range(k):
                t = t * R * (-1)
            return t
        return s._apply_series(cf)

    def __truediv__(s, o):
        if isinstance(o, np.ndarray):
            return NotImplemented
        if isinstance(o, (int, float, Fr, np.integer, np.floating)) and not isinstance(o, bool):
            return s * (1 / Fr(o) if not isinstance(o, (float, np.floating)) else 1 / Fr(float(o)))
        try:
            o = J(o)
        except TypeError:
            return NotImplemented
        c0 = z3.simplify(o.c0)
        if is_val(c0) and val(c0) == 0 and o.co:
            return s._div_common_monomial(o)
        return s * o.inv()

    def _div_common_monomial(s, o):
        """s / o for a divisor without constant term: the common monomial T^m of the divisor
        (and of the dividend, else ZeroDivisionError) is cancelled. Coefficients of the quotient
        above order maxdeg - m would need coefficients of the operands beyond the truncation, so
        the quotient is cut there: callers must run with |m| spare orders."""
        keys = [k for k, v in o.co.items() if not is0(z3.simplify(v))]
        m = tuple(min(k[i] for k in keys) for i in range(len(C.zero)))
        if m not in keys or sum(m) == 0:
            raise ZeroDivisionError('division by a series with zero constant term')
        if any(any(k[i] < m[i] for i in range(len(m))) for k, v in s.co.items() if not is0(z3.simplify(v))):
            raise ZeroDivisionError('division by a series with zero constant term (dividend not divisible by its leading monomial)')
        sh = lambda k: tuple(k[i] - m[i] for i in range(len(m)))
        cut = lambda k: all(k[i] <= C.maxdeg[i] - m[i] for i in range(len(m))) and (C.total is None or sum(k) <= C.total - sum(m))
        num = Sym({sh(k): v for k, v in s.co.items() if not is0(z3.simplify(v))})
        den = Sym({sh(k): v for k, v in o.co.items() if not is0(z3.simplify(v))})
        q = num * den.inv()
        return Sym({k: v for k, v in q.co.items() if cut(k)})

    def __rtruediv__(s, o):
        if isinstance(o, np.ndarray):
            return NotImplemented
        try:
            return J(o) * s.inv()
        except TypeError:
            return NotImplemented

    def sqrt(s):
        c0 = canon(s.c0)
        if is_val(c0) and val(c0) == 0:
            if s.nil().co:
                raise ArithmeticError('sqrt of an infinitesimal')
            return J(0)
        key = sem_key('sqrt', c0)
        if key not in C.memo:
            done = False
            if is_val(c0):
                fr = val(c0)
                if fr < 0:
                    raise ArithmeticError('sqrt of a negative constant')
                rn, rd = math.isqrt(fr.numerator), math.isqrt(fr.denominator)
                if rn * rn == fr.numerator and rd * rd == fr.denominator:
                    C.memo[key] = (rat(Fr(rn, rd)), c0)
                    done = True
            if not done and getattr(C, 'exact_sqrt', False):
                from . import poly
                ex_ = paths.CUR
                pc_ = list(ex_.pc) if ex_ is not None and getattr(ex_, 'active', False) else []
                t_ = poly.exact_sqrt(c0, C, pc_)
                if t_ is not None and not pc_:
                    C.memo[key] = (t_, c0)
                    done = True
                elif t_ is not None:
                    # the sign was decided under the current path condition: valid on this path
                    # only, so it is not memoised
                    y = Sym({C.zero: t_})
                    if not s.nil().co:
                        return y
                    return y * s._sqrt_series(c0)
            if not done:
                y = C.fresh('sq')
                C.cons += [y * y == c0, y >= 0]
                C.memo[key] = (y, c0)
                C.defs[str(y)] = ('sqrt', c0)
                C.keep.append(c0)
        y = Sym({C.zero: C.memo[key][0]})
        if not s.nil().co:
            return y
        return y * s._sqrt_series(c0)

    def _sqrt_series(s, c0):
        """sqrt(1 + nil/c0) as a series"""
        w = s.nil() * Sym({C.zero: c0}).inv()
        res = J(1)
        p = J(1)
        b = Fr(1)
        n = sum(C.maxdeg) if C.total is None else min(sum(C.maxdeg), C.total)
        for k in range(1, n + 1):
            b = b * (Fr(1, 2) - (k - 1)) / k
            p = p * w
            if not p.co:
                break
            res = res + p * b
        return res

    def __pow__(s, p):
        if isinstance(p, (int, np.integer)) and not isinstance(p, bool):
            if p >= 0:
                r = J(1)
                for _ in range(int(p)):
                    r = r * s
                return r
            return (s ** (-int(p))).inv()
        if isinstance(p, (float, Fr)):
            if p == 0.5:
                return s.sqrt()
            if p == -0.5:
                return s.sqrt().inv()
            if float(p) == int(p):
                return s ** int(p)
            if p == 1.5:
                return s * s.sqrt()
        raise NotImplementedError('power %r' % (p,))

    def __abs__(s):
        if getattr(C, 'abs_mode', 'branch') == 'sqrt' and s.isconst() and not is_val(z3.simplify(s.c0)):
            return (s * s).sqrt()       # |x| = the non-negative root of x^2: no fork
        return s if s >= 0 else -s

    # ---- trigonometry: relaxed to algebra ---------------------------------------------
    def _sc(s):
        """(sin, cos) of the constant term as z3 terms, with degree-angle canonicalisation"""
        c0 = z3.simplify(s.c0, som=True)
        if is0(c0):
            return ZERO, ONE
        X = z3.simplify(z3.substitute(c0, (DEG, ONE)), som=True)
        if not is0(z3.simplify(c0 - DEG * X, som=True)) or _mentions(X, DEG):
            return _pair(c0)
        terms = X.children() if z3.is_add(X) else [X]
        k = Fr(0)
        a, b = ZERO, ONE
        for t in terms:
            if is_val(t):
                k += val(t)
                continue
            neg = z3.is_mul(t) and is_val(t.children()[0]) and val(t.children()[0]) < 0
            R = z3.simplify(-t, som=True) if neg else t
            pa, pb = _pair(z3.simplify(DEG * R, som=True))
            if neg:
                pa = -pa
            a, b = zadd(zmul(a, pb), zmul(b, pa)), zadd(zmul(b, pb), zneg(zmul(a, pa)))
        k = k % 360
        if k % 90 == 0:
            for _ in range(int(k // 90)):
                a, b = b, zneg(a)
            return a, b
        ak, bk = _pair(z3.simplify(DEG * rat(k), som=True))
        return zadd(zmul(a, bk), zmul(b, ak)), zadd(zmul(b, bk), zneg(zmul(a, ak)))

    def sin(s):
        a, b = s._sc()
        A, B = Sym({C.zero: a}), Sym({C.zero: b})
        if not s.nil().co:
            return A

        def cf(k):
            return [A, B, -A, -B][k % 4] * Fr(1, math.factorial(k))
        return s._apply_series(cf)

    def cos(s):
        a, b = s._sc()
        A, B = Sym({C.zero: a}), Sym({C.zero: b})
        if not s.nil().co:
            return B

        def cf(k):
            return [B, -A, -B, A][k % 4] * Fr(1, math.factorial(k))
        return s._apply_series(cf)

    def tan(s):
        return s.sin() / s.cos()

    def deg2rad(s):
        return s * PI() / 180

    def rad2deg(s):
        out = {}
        for k, v in s.co.items():
            v = z3.simplify(v, som=True)
            X = z3.simplify(z3.substitute(v, (DEG, ONE)), som=True)
            if is0(z3.simplify(v - DEG * X, som=True)) and not _mentions(X, DEG):
                out[k] = X
            else:
                out[k] = v * _rdeg()
        return Sym(out)

    # ---- comparisons ------------------------------------------------------------------
    def _cmp(s, o, op):
        try:
            d = z3.simplify((s - J(o)).c0)
        except TypeError:
            return NotImplemented
        if is_val(d):
            f = val(d)
            return {'gt': f > 0, 'lt': f < 0, 'ge': f >= 0, 'le': f <= 0, 'eq': f == 0, 'ne': f != 0}[op]
        cond = {'gt': d > 0, 'lt': d < 0, 'ge': d >= 0, 'le': d <= 0, 'eq': d == 0, 'ne': d != 0}[op]
        return _decide(cond)

    def __bool__(s):
        # truth value of a jet = "is it non-zero": its first non-zero coefficient decides
        for k in sorted(s.co, key=lambda k_: (sum(k_), k_)):
            c = z3.simplify(s.co[k])
            if is_val(c):
                if val(c) != 0:
                    return True
                continue
            if _decide(c != 0):
                return True
        return False

    def __gt__(s, o): return s._cmp(o, 'gt')
    def __lt__(s, o): return s._cmp(o, 'lt')
    def __ge__(s, o): return s._cmp(o, 'ge')
    def __le__(s, o): return s._cmp(o, 'le')
    __hash__ = object.__hash__

    def __int__(s):
        # numpy calls int() when an element is stored into an INTEGER-typed array: for a real-valued
        # symbolic quantity that store truncates (value-losing), whatever the value
        c0 = z3.simplify(s.c0)
        if s.isconst() and is_val(c0) and val(c0).denominator == 1:
            return int(val(c0))
        raise NarrowingStore('a real-valued symbolic quantity is stored into an integer-typed array (its fractional part would be lost)')

    def __float__(s):
        c0 = z3.simplify(s.c0)
        if s.isconst() and is_val(c0):
            return float(val(c0))
        raise TypeError('symbolic value has no float')

    def __mod__(s, m):
        c0 = z3.simplify(s.c0, som=True)
        if is_val(c0):
            r = dict(s.co)
            r[C.zero] = rat(val(c0) % Fr(m))
            return Sym(r)
        mode = getattr(C, 'mod_mode', 'int')
        if mode == 'split':
            lim = getattr(C, 'mod_split', 2)
            for q in range(-lim, lim):
                lo = q * m
                if (s >= lo) and (s < lo + m):
                    return s - lo
            raise SymbolicBranch('mod argument outside the bounded case split')
        if mode == 'real':
            # the remainder as a fresh real in [0, m), one per distinct argument: that it is
            # congruent to the argument is the contract of `%` itself (no integer quotient in
            # the constraint set, which keeps every query linear real arithmetic)
            key = ('mod', c0.get_id(), m)
            if key not in C.memo:
                rr = C.fresh('mod')
                C.cons += [rr >= 0, rr < rat(m)]
                C.defs[str(rr)] = ('mod', c0, m)
                C.memo[key] = (rr, c0)
                C.keep.append(c0)
            r = dict(s.co)
            r[C.zero] = C.memo[key][0]
            return Sym(r)
        q = z3.Int('q!%d' % C.cnt)
        C.cnt += 1
        rr = C.fresh('mod')
        C.cons += [c0 == rat(m) * z3.ToReal(q) + rr, rr >= 0, rr < rat(m)]
        C.defs[str(rr)] = ('mod', c0, m)
        r = dict(s.co)
        r[C.zero] = rr
        return Sym(r)

    def fmod(s, m):
        """C remainder (numpy.fmod): sign of the dividend, magnitude below m; a fresh real per
        distinct argument constrained by exactly that contract"""
        c0 = z3.simplify(s.c0, som=True)
        if is_val(c0):
            f = val(c0)
            q = abs(f) // Fr(m)
            r = dict(s.co)
            r[C.zero] = rat((abs(f) - q * Fr(m)) * (1 if f >= 0 else -1))
            return Sym(r)
        key = ('mod', c0.get_id(), m, 'fmod')
        if key not in C.memo:
            rr = C.fresh('fmod')
            C.cons += [z3.Implies(c0 >= 0, z3.And(rr >= 0, rr < rat(m))),
                       z3.Implies(c0 <= 0, z3.And(rr <= 0, rr > -rat(m)))]
            C.defs[str(rr)] = ('fmod', c0, m)
            C.memo[key] = (rr, c0)
            C.keep.append(c0)
        r = dict(s.co)
        r[C.zero] = C.memo[key][0]
        return Sym(r)

    def d(s, i=0):
        """derivative w.r.t. formal variable i"""
        out = {}
        for k, v in s.co.items():
            if k[i] == 0:
                continue
            kk = tuple(e - 1 if j == i else e for j, e in enumerate(k))
            out[kk] = zmul(rat(k[i]), v)
        return Sym(out)

    def integ(s, i=0):
        """antiderivative w.r.t. formal variable i (zero at 0); truncation applies"""
        out = {}
        for k, v in s.co.items():
            kk = tuple(e + 1 if j == i else e for j, e in enumerate(k))
            if not _ok_degree(kk):
                continue
            out[kk] = zmul(rat(Fr(1, k[i] + 1)), v)
        return Sym(out)

    def subs_formal(s, i, value):
        """substitute formal variable i by a Sym (e.g. a concrete number or another series)"""
        res = J(0)
        for k, v in s.co.items():
            kk = tuple(0 if j == i else e for j, e in enumerate(k))
            res = res + Sym({kk: v}) * (J(value) ** k[i])
        return res

    def __repr__(s):
        return 'Sym(' + ', '.join('%s:%s' % (k, z3.simplify(v)) for k, v in sorted(s.co.items())) + ')'


def canon(t, limit=400):
    """canonical form used as memo key: sum-of-monomials normal form when the term is small"""
    t = z3.simplify(t)
    if _size(t, limit) < limit:
        t = z3.simplify(t, som=True)
    return t


def sem_key(kind, t):
    """memo key for auxiliary variables: the exact polynomial normal form of the argument modulo
    the sin/cos relations when it is cheap to compute (semantically equal arguments then share
    one auxiliary variable), else the AST id of its canonical form"""
    if _size(t, 1500) < 1500:
        try:
            from . import poly
            p = poly._reduce_trig(poly.from_z3(t), C)
            if len(p.t) < 2000:
                return (kind, 'poly', tuple(sorted(p.t.items())))
        except Exception:       # noqa: BLE001 - any failure falls back to the syntactic key
            pass
    return (kind, t.get_id())


def _size(t, limit):
    n = 0
    stack = [t]
    seen = set()
    while stack and n < limit:
        u = stack.pop()
        if u.get_id() in seen:
            continue
        seen.add(u.get_id())
        n += 1
        stack += u.children()
    return n


def _mentions(t, v):
    if t.get_id() == v.get_id():
        return True
    return any(_mentions(c, v) for c in t.children())


def _pair(c0):
    key = c0.get_id()
    if key not in C.trig:
        a = C.fresh('sin')
        b = C.fresh('cos')
        C.cons.append(a * a + b * b == 1)
        C.trig[key] = (a, b, c0)
        C.defs[str(a)] = ('sin', c0)
        C.defs[str(b)] = ('cos', c0)
        C.keep.append(c0)
        _sign_facts(a, b, c0)
    return C.trig[key][:2]


def _sign_facts(a, b, c0):
    """if c0 == deg * <declared angle var>, add the sign facts implied by its range"""
    for name, (lo, hi) in C.angles.items():
        v = z3.Real(name)
        if is0(z3.simplify(c0 - DEG * v, som=True)):
            if lo > -90 and hi < 90:
                C.cons.append(b > 0)
            elif lo >= -90 and hi <= 90:
                C.cons.append(b >= 0)
            if lo > 0 and hi < 180:
                C.cons.append(a > 0)
            if lo > -180 and hi < 0:
                C.cons.append(a < 0)


def _rdeg():
    key = ('rdeg',)
    if key not in C.memo:
        r = C.fresh('rdeg')
        C.cons.append(r * DEG == 1)
        C.memo[key] = (r, DEG)
        C.defs[str(r)] = ('inv', DEG)
    return C.memo[key][0]


def PI():
    return Sym({C.zero: 180 * DEG})


def deg_domain():
    return [DEG > rat(DEG_LO), DEG < rat(DEG_HI)]


# ------------------------------------------------------------------------------------------
# atan2 with angle recovery
# ------------------------------------------------------------------------------------------
def _vars_of(t, acc=None, seen=None):
    acc = set() if acc is None else acc
    seen = set() if seen is None else seen
    stack = [t]
    while stack:
        u = stack.pop()
        i = u.get_id()
        if i in seen:
            continue
        seen.add(i)
        if z3.is_const(u) and u.decl().kind() == z3.Z3_OP_UNINTERPRETED:
            acc.add(str(u))
        else:
            stack += u.children()
    return acc


def cone(terms, constraints):
    """constraints transitively sharing variables with `terms` (cone of influence)"""
    vs = set()
    for t in terms:
        _vars_of(t, vs)
    cv = [(c, _vars_of(c)) for c in constraints]
    picked = [False] * len(cv)
    changed = True
    while changed:
        changed = False
        for k, (c, v) in enumerate(cv):
            if not picked[k] and v & vs:
                picked[k] = True
                vs |= v
                changed = True
    return [c for k, (c, v) in enumerate(cv) if picked[k]]


def _match_angle(y0, x0, timeout=3000):
    """find a known angle whose (sin,cos) is a positive multiple of (y0,x0)"""
    if is0(z3.simplify(y0)) and is0(z3.simplify(x0)):
        return None
    ex = paths.CUR
    pc = list(ex.pc) if ex is not None and getattr(ex, 'active', False) else []
    allc = C.cons + C.dom + pc
    for mirror in (False, True):
        for (a, b, arg) in list(C.trig.values()):
            if mirror:
                a = -a              # atan2(-y, x) = -atan2(y, x) away from the cut (y = 0, x < 0)
            cross = z3.simplify(y0 * b - x0 * a, som=True)
            syntactic = is0(cross)
            if not syntactic and len(C.cons) > 40:
                continue            # large contexts: only syntactic parallelism is tried
            bad = [x0 * b + y0 * a <= 0] + ([] if syntactic else [cross != 0]) + ([z3.And(y0 == 0, x0 < 0)] if mirror else [])
            q = [z3.Or(bad)] if len(bad) > 1 else bad
            qv = set()
            for t in q:
                _vars_of(t, qv)
            direct = [c for c in allc if _vars_of(c) <= qv | {'deg'}]
            for cs in (direct, cone(q, allc)):
                s = z3.Solver()
                s.set('timeout', timeout)
                s.add(cs)
                s.add(q)
                if s.check() == z3.unsat:
                    return -arg if mirror else arg
    return None


def _sign_known(e):
    """+1 / -1 if the constraint set decides the sign of e, else None"""
    for sg, neg in ((1, e <= 0), (-1, e >= 0)):
        sv = z3.Solver()
        sv.set('timeout', 3000)
        sv.add(C.dom)
        sv.add(C.cons)
        ex = paths.CUR
        if ex is not None and getattr(ex, 'active', False):
            sv.add(list(ex.pc))
        sv.add(neg)
        if sv.check() == z3.unsat:
            return sg
    return None


def atan2(y, x, match=True):
    y = J(y)
    x = J(x)
    y0, x0 = canon(y.c0), canon(x.c0)
    key = ('atan2', y0.get_id(), x0.get_id())
    if key in C.memo:
        ang0 = C.memo[key][0]
    else:
        if is0(z3.simplify(y0)) and is_val(z3.simplify(x0)) and val(z3.simplify(x0)) >= 0:
            ang0 = ZERO                 # atan2(0, x > 0) = 0; numpy: atan2(0, 0) = 0 as well
        elif is0(z3.simplify(y0)) and _sign_known(x0) is not None:
            # atan2(+0, x < 0) = pi (a negative zero would give -pi: the same direction)
            ang0 = ZERO if _sign_known(x0) > 0 else z3.simplify(180 * DEG)
        else:
            ang0 = _match_angle(y0, x0) if match else None
            if ang0 is None:
                al = C.fresh('ang')
                rho = Sym({C.zero: x0 * x0 + y0 * y0}).sqrt().c0
                a = C.fresh('sin')
                b = C.fresh('cos')
                C.cons += [a * a + b * b == 1, a * rho == y0, b * rho == x0, al > -180 * DEG, al <= 180 * DEG]
                C.trig[al.get_id()] = (a, b, al)
                C.defs[str(al)] = ('atan2', y0, x0)
                C.defs[str(a)] = ('a2sin', y0, x0)
                C.defs[str(b)] = ('a2cos', y0, x0)
                C.keep += [y0, x0, al]
                ang0 = al
        C.memo[key] = (ang0, y0, x0)
    res = Sym({C.zero: ang0})
    X0, Y0 = Sym({C.zero: x0}), Sym({C.zero: y0})
    u = (y * X0 - x * Y0).nil()
    if u.co:
        v = x * X0 + y * Y0
        w = u / v
        # atan(w) = w - w^3/3 + w^5/5 ...
        n = sum(C.maxdeg) if C.total is None else min(sum(C.maxdeg), C.total)
        term = w
        w2 = w * w
        k = 1
        sgn = 1
        while term.co and k <= n:
            res = res + term * Fr(sgn, k)
            term = term * w2
            k += 2
            sgn = -sgn
    return res


def exp_(x):
    """exponential of a series whose constant term is exactly zero (a quantity that vanishes with
    the formal parameter): its power series; of an exact 0: 1. exp of a non-vanishing symbolic
    value is not algebraic and is not modelled."""
    x = J(x)
    c0 = z3.simplify(x.c0)
    if not (is_val(c0) and val(c0) == 0):
        raise NotImplementedError('exp of a symbolic value with non-zero constant term is not algebraic')
    u = x.nil()
    if not u.co:
        return J(1)
    n = sum(C.maxdeg) if C.total is None else min(sum(C.maxdeg), C.total)
    res, p, fact = J(1), J(1), 1
    for k in range(1, n + 1):
        p = p * u
        fact *= k
        if not p.co:
            break
        res = res + p * Fr(1, fact)
    return res


def arcsin(x, match=False):
    x = J(x)
    return atan2(x, (1 - x * x).sqrt(), match=match)


def arccos(x, match=False):
    x = J(x)
    return atan2((1 - x * x).sqrt(), x, match=match)


# ------------------------------------------------------------------------------------------
# numpy proxy
# ------------------------------------------------------------------------------------------
def O(a):
    return np.array(a, dtype=object)


def _isnum(x):
    return isinstance(x, (int, float, np.integer, np.floating, Fr)) and not isinstance(x, bool)


class _Linalg:
    def __getattr__(self, name):
        return getattr(np.linalg, name)

    def inv(self, a):
        from . import symlinalg
        return symlinalg.inv(SymNP.asarray(symnp, a))

    def solve(self, a, b):
        from . import symlinalg
        return symlinalg.solve(SymNP.asarray(symnp, a), SymNP.asarray(symnp, b))

    def norm(self, a, ord=None, axis=None):
        a = symnp.asarray(a)
        if a.ndim == 1 and ord in (None, 2):
            return J(sum(x * x for x in a)).sqrt()
        if a.ndim == 2 and ord in (1, np.inf):
            # maximum absolute column (row) sum; comparisons go to the path executor
            b = a if ord == 1 else a.T
            best = None
            for j in range(b.shape[1]):
                tot = J(0)
                for i in range(b.shape[0]):
                    tot = tot + abs(J(b[i, j]))
                best = tot if best is None or tot > best else best
            return best
        if a.ndim == 2 and ord in (None, 'fro'):
            return J(sum(J(x) * J(x) for x in a.flat)).sqrt()
        raise NotImplementedError('norm of ndim %d, ord %r' % (a.ndim, ord))

    def det(self, a):
        from . import symlinalg
        return symlinalg.det(symnp.asarray(a))


class SymNP:
    """falls through to numpy; overrides what cannot work on object arrays of Sym"""
    linalg = _Linalg()

    def __getattr__(self, name):
        return getattr(np, name)

    @property
    def pi(self):
        return PI()

    def empty(self, shape, dtype=None):
        if dtype is object:
            return np.empty(shape, dtype=object)
        return np.full(shape, None, dtype=object)

    def zeros(self, shape, dtype=None):
        a = np.empty(shape, dtype=object)
        a.fill(0)
        return a

    def ones(self, shape, dtype=None):
        a = np.empty(shape, dtype=object)
        a.fill(1)
        return a

    def zeros_like(self, a, dtype=None):
        return self.zeros(np.shape(a))

    def empty_like(self, a, dtype=None):
        return self.empty(np.shape(a))

    def eye(self, n, dtype=None):
        a = self.zeros((n, n))
        for i in range(n):
            a[i, i] = 1
        return a
    identity = eye

    def diag(self, v):
        v = self.asarray(v)
        if v.ndim == 1:
            a = self.zeros((len(v), len(v)))
            for i in range(len(v)):
                a[i, i] = v[i]
            return a
        return np.diag(v)

    def asarray(self, a, dtype=None):
        if isinstance(a, Sym):
            return a
        if hasattr(a, 'values') and not isinstance(a, np.ndarray) and not isinstance(a, dict):
            a = a.values
        if isinstance(a, np.ndarray):
            return a if a.dtype == object else a.astype(object)
        arr = np.array(a, dtype=object)
        return arr
    array = asarray
    ascontiguousarray = asarray

    def atleast_2d(self, a):
        a = self.asarray(a)
        if isinstance(a, Sym):
            return O([[a]])
        return np.atleast_2d(a)

    def atleast_1d(self, a):
        a = self.asarray(a)
        if isinstance(a, Sym):
            return O([a])
        return np.atleast_1d(a)

    def _u(self, name, a):
        if isinstance(a, Sym):
            return getattr(a, name)()
        if _isnum(a):
            if name in ('deg2rad', 'rad2deg'):
                return getattr(J(a), name)()
            return getattr(J(a), name)() if name in ('sin', 'cos', 'tan') and a != 0 else (
                getattr(J(a), name)() if name == 'sqrt' else J(getattr(np, name)(a)))
        a = self.asarray(a)
        out = np.empty(a.shape, dtype=object)
        for idx in np.ndindex(a.shape):
            out[idx] = getattr(J(a[idx]), name)()
        return out

    def sin(self, a): return self._u('sin', a)
    def cos(self, a): return self._u('cos', a)
    def tan(self, a): return self._u('tan', a)
    def sqrt(self, a): return self._u('sqrt', a)
    def deg2rad(self, a): return self._u('deg2rad', a)
    def rad2deg(self, a): return self._u('rad2deg', a)
    radians = deg2rad
    degrees = rad2deg

    def fmod(self, a, m):
        if isinstance(a, Sym):
            return a.fmod(m)
        if hasattr(a, 'values') and hasattr(a, 'index') and not isinstance(a, np.ndarray):
            import pandas as pd
            vals = self.fmod(np.asarray(a.values, dtype=object), m)
            if isinstance(a, pd.DataFrame):
                return pd.DataFrame(vals, index=a.index, columns=a.columns, dtype=object)
            return pd.Series(vals, index=a.index, dtype=object)
        a = self.asarray(a)
        if a.dtype != object:
            return np.fmod(a, m)
        out = np.empty(a.shape, dtype=object)
        for idx in np.ndindex(a.shape):
            out[idx] = J(a[idx]).fmod(m)
        return out if out.ndim else out[()]

    def abs(self, a):
        if isinstance(a, Sym):
            return abs(a)
        a = self.asarray(a)
        out = np.empty(a.shape, dtype=object)
        for idx in np.ndindex(a.shape):
            out[idx] = abs(J(a[idx]))
        return out
    absolute = abs

    def _b(self, fn, a, b):
        a, b = self.asarray(a), self.asarray(b)
        if isinstance(a, Sym) and isinstance(b, Sym):
            return fn(a, b)
        a, b = np.broadcast_arrays(np.asarray(a, dtype=object), np.asarray(b, dtype=object))
        if a.ndim == 0:
            return fn(a[()], b[()])
        out = np.empty(a.shape, dtype=object)
        for idx in np.ndindex(a.shape):
            out[idx] = fn(a[idx], b[idx])
        return out

    def arctan2(self, y, x): return self._b(atan2, y, x)
    def hypot(self, x, y):
        return self._b(lambda p, q: abs(J(p)) if (J(q).isconst() and is0(z3.simplify(J(q).c0))) else (J(p) * J(p) + J(q) * J(q)).sqrt(), x, y)

    def _u1(self, fn, a):
        if isinstance(a, Sym) or _isnum(a):
            return fn(a)
        a = np.asarray(self.asarray(a), dtype=object)
        if a.ndim == 0:
            return fn(a[()])
        out = np.empty(a.shape, dtype=object)
        for idx in np.ndindex(a.shape):
            out[idx] = fn(a[idx])
        return out

    def round(self, a, decimals=0, out=None):
        """rounding by its contract: the result differs from the argument by at most half a unit
        of the last kept decimal - a fresh bounded real per element (NOT infinitesimal: rounding a
        formal step does not vanish with it)"""
        a_ = self.asarray(a)
        if not isinstance(a_, Sym) and getattr(a_, 'dtype', None) != object:
            return np.round(a_, decimals)
        half = Fr(1, 2) / (Fr(10) ** decimals)

        def one(v):
            v = J(v)
            if v.isconst() and is_val(z3.simplify(v.c0)):
                f = val(z3.simplify(v.c0)) / (2 * half)
                return J(Fr(math.floor(f + Fr(1, 2))) * 2 * half)
            d = C.fresh('rnd')
            C.dom += [d >= -rat(half), d <= rat(half)]
            C.defs[str(d)] = ('value', lambda ev: 0.0)
            return v + Sym({C.zero: d})
        return self._u1(one, a_)
    around = round

    def arctan(self, a):
        return self._u1(lambda v: atan2(v, 1), a)

    def clip(self, a, lo, hi, **kw):
        def one(v):
            v = J(v)
            if lo is not None and v < lo:
                return J(lo)
            if hi is not None and v > hi:
                return J(hi)
            return v
        return self._u1(one, a)

    def arcsin(self, a):
        return self._u1(lambda v: arcsin(v, match=getattr(C, 'match_inverse_trig', False)), a)

    def arccos(self, a):
        return self._u1(lambda v: arccos(v, match=getattr(C, 'match_inverse_trig', False)), a)

    def dot(self, a, b, out=None):
        r = np.dot(np.asarray(a, dtype=object), np.asarray(b, dtype=object))
        if out is not None:
            out[...] = r
            return out
        return r

    def cross(self, a, b, **kw):
        return np.cross(self.asarray(a), self.asarray(b), **kw)

    def sum(self, a, axis=None, **kw):
        a = self.asarray(a)
        if isinstance(a, Sym):
            return a
        return np.sum(a, axis=axis, **kw)

    def cumsum(self, a, axis=None):
        return np.cumsum(self.asarray(a), axis=axis)

    def diff(self, a, axis=-1, **kw):
        return np.diff(self.asarray(a), axis=axis, **kw)

    def hstack(self, parts):
        return np.hstack([self.asarray(p) if not isinstance(p, Sym) else O([p]) for p in parts])

    def vstack(self, parts):
        return np.vstack([self.asarray(p) for p in parts])

    def insert(self, arr, obj, values, axis=None):
        return np.insert(self.asarray(arr), obj, self.asarray(values), axis=axis)

    def resize(self, a, shape):
        return np.resize(self.asarray(a), shape)

    def einsum(self, spec, a, b):
        a = self.asarray(a)
        b = self.asarray(b)
        if spec == "...ij,...j->...i":
            if a.ndim == 2 and b.ndim == 1:
                return np.dot(a, b)
            n = max(a.shape[0] if a.ndim == 3 else 1, b.shape[0] if b.ndim == 2 else 1)
            return O([np.dot(a[k] if a.ndim == 3 else a, b[k] if b.ndim == 2 else b) for k in range(n)])
        if spec == "...ij,...jk->...ik":
            if a.ndim == 2 and b.ndim == 2:
                return np.dot(a, b)
            n = max(a.shape[0] if a.ndim == 3 else 1, b.shape[0] if b.ndim == 3 else 1)
            return O([np.dot(a[m] if a.ndim == 3 else a, b[m] if b.ndim == 3 else b) for m in range(n)])
        if spec == '...i,...j->...ij':
            if a.ndim == 1:
                return np.outer(a, b)
            return O([np.outer(a[k], b[k]) for k in range(len(a))])
        raise NotImplementedError('einsum %s' % spec)

    def any(self, a, **kw):
        if isinstance(a, np.ndarray) and a.dtype == object:
            return any(bool(x) for x in a.flat)
        return np.any(a, **kw)

    def all(self, a, **kw):
        if isinstance(a, np.ndarray) and a.dtype == object:
            return all(bool(x) for x in a.flat)
        return np.all(a, **kw)

    def isscalar(self, a):
        return isinstance(a, Sym) or np.isscalar(a)

    # tolerance comparisons by their numpy definition |a - b| <= atol + rtol |b| (each element is a
    # comparison of symbolic values: decided / forked by the path executor)
    def isclose(self, a, b, rtol=1e-05, atol=1e-08, equal_nan=False):
        a, b = self.asarray(a), self.asarray(b)
        if not ((isinstance(a, Sym) or a.dtype == object) or (isinstance(b, Sym) or b.dtype == object)):
            return np.isclose(a, b, rtol=rtol, atol=atol, equal_nan=equal_nan)
        if isinstance(a, Sym) and isinstance(b, Sym):
            return bool(abs(a - b) <= Fr(atol) + Fr(rtol) * abs(b))
        a2, b2 = np.broadcast_arrays(np.asarray(a, dtype=object), np.asarray(b, dtype=object))
        out = np.empty(a2.shape, dtype=bool)
        for idx in np.ndindex(a2.shape):
            out[idx] = bool(abs(J(a2[idx]) - J(b2[idx])) <= Fr(atol) + Fr(rtol) * abs(J(b2[idx])))
        return out

    def allclose(self, a, b, rtol=1e-05, atol=1e-08, equal_nan=False):
        return bool(np.all(self.isclose(a, b, rtol=rtol, atol=atol, equal_nan=equal_nan)))

    def gradient(self, f, *varargs, axis=None, edge_order=1):
        f = self.asarray(f)
        if isinstance(f, Sym) or f.dtype != object:
            return np.gradient(f, *varargs, axis=axis, edge_order=edge_order)
        if varargs or f.ndim != 1 or edge_order != 1 or len(f) < 2:
            raise NotImplementedError('np.gradient on symbolic values: only 1-D, unit spacing, edge_order 1')
        # numpy's definition for unit spacing: central differences inside, one-sided at the ends
        out = np.empty(len(f), dtype=object)
        out[0] = J(f[1]) - J(f[0])
        out[-1] = J(f[-1]) - J(f[-2])
        for k in range(1, len(f) - 1):
            out[k] = (J(f[k + 1]) - J(f[k - 1])) * Fr(1, 2)
        return out

    def exp(self, a):
        return self._u1(exp_, a)

    def expm1(self, a):
        return self._u1(lambda x: exp_(x) - 1, a)

    def full(self, shape, fill_value, dtype=None):
        if isinstance(fill_value, Sym) or (isinstance(fill_value, np.ndarray) and fill_value.dtype == object):
            out = np.empty(shape, dtype=object)
            out[...] = fill_value
            return out
        return np.full(shape, fill_value, dtype=dtype)

    def mean(self, a, axis=None, **kw):
        a = self.asarray(a)
        if isinstance(a, Sym):
            return a
        if a.dtype != object:
            return np.mean(a, axis=axis, **kw)
        n = a.size if axis is None else a.shape[axis]
        return np.sum(a, axis=axis) * Fr(1, n)


symnp = SymNP()


# ------------------------------------------------------------------------------------------
# numeric evaluation with the TRUE functions (translator validation / model triage)
# ------------------------------------------------------------------------------------------
class Evaluator:
    """evaluates z3 real terms built by this module at a concrete assignment of the base
    variables; auxiliary variables are computed from their definitions with true sin/cos/
    sqrt/reciprocal"""

    def __init__(self, ctx, assignment):
        self.ctx = ctx
        self.env = dict(assignment)
        self.env.setdefault('deg', math.pi / 180)
        self.cache = {}

    def name_value(self, name):
        if name in self.env:
            return self.env[name]
        d = self.ctx.defs.get(name)
        if d is None:
            raise KeyError('no value for variable %s' % name)
        kind = d[0]
        if kind == 'sin':
            v = math.sin(self.ev(d[1]))
        elif kind == 'cos':
            v = math.cos(self.ev(d[1]))
        elif kind == 'sqrt':
            v = math.sqrt(max(self.ev(d[1]), 0.0))
        elif kind == 'inv':
            v = 1.0 / self.ev(d[1])
        elif kind == 'atan2':
            v = math.atan2(self.ev(d[1]), self.ev(d[2]))
        elif kind == 'a2sin':
            v = self.ev(d[1]) / math.hypot(self.ev(d[1]), self.ev(d[2]))
        elif kind == 'a2cos':
            v = self.ev(d[2]) / math.hypot(self.ev(d[1]), self.ev(d[2]))
        elif kind == 'mod':
            v = math.fmod(self.ev(d[1]), d[2])
            if v < 0:
                v += d[2]
        elif kind == 'fmod':
            v = math.fmod(self.ev(d[1]), d[2])
        elif kind == 'value':
            v = d[1](self)
        else:
            raise KeyError('unknown definition kind %s' % kind)
        self.env[name] = v
        return v

    def ev(self, t):
        i = t.get_id()
        if i in self.cache:
            return self.cache[i]
        if z3.is_rational_value(t):
            r = t.numerator_as_long() / t.denominator_as_long()
        elif z3.is_const(t) and t.decl().kind() == z3.Z3_OP_UNINTERPRETED:
            r = self.name_value(str(t))
        else:
            k = t.decl().kind()
            ch = [self.ev(c) for c in t.children()]
            if k == z3.Z3_OP_ADD:
                r = math.fsum(ch)
            elif k == z3.Z3_OP_MUL:
                r = 1.0
                for c in ch:
                    r *= c
            elif k == z3.Z3_OP_SUB:
                r = ch[0] - sum(ch[1:])
            elif k == z3.Z3_OP_UMINUS:
                r = -ch[0]
            elif k == z3.Z3_OP_DIV:
                r = ch[0] / ch[1]
            elif k == z3.Z3_OP_POWER:
                r = ch[0] ** ch[1]
            elif k == z3.Z3_OP_TO_REAL:
                r = ch[0]
            else:
                raise NotImplementedError('evaluator: %s' % t.decl().name())
        self.cache[i] = r
        return r

    def holds(self, c, slack=0.0):
        """truth value of a z3 Bool built from comparisons of arithmetic terms"""
        k = c.decl().kind()
        ch = c.children()
        if z3.is_true(c):
            return True
        if z3.is_false(c):
            return False
        if k == z3.Z3_OP_AND:
            return all(self.holds(x, slack) for x in ch)
        if k == z3.Z3_OP_OR:
            return any(self.holds(x, slack) for x in ch)
        if k == z3.Z3_OP_NOT:
            return not self.holds(ch[0], -slack)
        if k == z3.Z3_OP_IMPLIES:
            return (not self.holds(ch[0], -slack)) or self.holds(ch[1], slack)
        if k in (z3.Z3_OP_EQ, z3.Z3_OP_IFF, z3.Z3_OP_DISTINCT) and z3.is_bool(ch[0]):
            same = self.holds(ch[0], slack) == self.holds(ch[1], slack)
            return same if k != z3.Z3_OP_DISTINCT else not same
        a, b = self.ev(ch[0]), self.ev(ch[1])
        if k == z3.Z3_OP_LE:
            return a <= b + slack
        if k == z3.Z3_OP_LT:
            return a < b + slack
        if k == z3.Z3_OP_GE:
            return a >= b - slack
        if k == z3.Z3_OP_GT:
            return a > b - slack
        if k == z3.Z3_OP_EQ:
            return abs(a - b) <= abs(slack)
        if k == z3.Z3_OP_DISTINCT:
            return a != b
        raise NotImplementedError('holds: %s' % c.decl().name())

    def sym(self, s, *k):
        """value of coefficient k (default: constant term) of a Sym / number"""
        if isinstance(s, Sym):
            return self.ev(s.coef(*k) if k else s.c0)
        return float(s) if (not k or all(e == 0 for e in k)) else 0.0

    def arr(self, a, *k):
        a = np.asarray(a, dtype=object)
        out = np.empty(a.shape, dtype=float)
        for idx in np.ndindex(a.shape):
            out[idx] = self.sym(a[idx], *k)
        return out


def base_vars(terms, ctx=None):
    """names of non-auxiliary real variables occurring in the given z3 terms (following the
    definitions of auxiliary variables)"""
    ctx = ctx or C
    seen, names = set(), set()
    stack = list(terms)
    while stack:
        t = stack.pop()
        i = t.get_id()
        if i in seen:
            continue
        seen.add(i)
        if z3.is_const(t) and t.decl().kind() == z3.Z3_OP_UNINTERPRETED:
            n = str(t)
            d = ctx.defs.get(n)
            if d is None:
                names.add(n)
            else:
                stack += [x for x in d[1:] if isinstance(x, z3.ExprRef)]
        else:
            stack += t.children()
    return names
