"""Explicit closed-form stubs of the linear-algebra library calls pyins makes (numpy.linalg.inv /
solve, scipy.linalg.cholesky / cho_solve / solve_triangular / expm), over Sym entries.
Rule from the design probes: inverses are adjugate x ONE reciprocal of the determinant;
compound arguments are named at the boundary; factor objects remember what they factor.
"""
import fractions
import itertools

import numpy as np
import z3

from . import symreal as S
from .symreal import Sym, J, O

Fr = fractions.Fraction


def _minor(a, i, j):
    n = a.shape[0]
    rows = [r for r in range(n) if r != i]
    cols = [c for c in range(n) if c != j]
    return a[np.ix_(rows, cols)]


def det(a):
    a = np.asarray(a, dtype=object)
    n = a.shape[0]
    if n == 0:
        return J(1)
    if n == 1:
        return J(a[0, 0])
    if n == 2:
        return J(a[0, 0]) * a[1, 1] - J(a[0, 1]) * a[1, 0]
    # Laplace along the row with most structural zeros
    def nz(x):
        return not (isinstance(x, (int, float)) and x == 0) and not (isinstance(x, Sym) and not x.co)
    i = min(range(n), key=lambda r: sum(nz(x) for x in a[r]))
    tot = J(0)
    for j in range(n):
        if not nz(a[i, j]):
            continue
        tot = tot + J(a[i, j]) * ((-1) ** (i + j)) * det(_minor(a, i, j))
    return tot


def adjugate(a):
    a = np.asarray(a, dtype=object)
    n = a.shape[0]
    adj = np.empty((n, n), dtype=object)
    for i in range(n):
        for j in range(n):
            adj[j, i] = det(_minor(a, i, j)) * ((-1) ** (i + j)) if n > 1 else J(1)
    return adj


def inv(a):
    a = np.asarray(a, dtype=object)
    if a.ndim == 3:
        return O([inv(m) for m in a])
    d = J(det(a))
    r = d.inv()
    adj = adjugate(a)
    out = np.empty(a.shape, dtype=object)
    for idx in np.ndindex(a.shape):
        out[idx] = J(adj[idx]) * r
    return out


def solve(a, b):
    a = np.asarray(a, dtype=object)
    b = np.asarray(b, dtype=object)
    ai = inv(a)
    return np.dot(ai, b)


# ---- Cholesky family ----------------------------------------------------------------------
class Factor(np.ndarray):
    """ndarray subclass so that the factor returned by `cholesky` remembers what it factors"""
    pass


def name_matrix(a, prefix, symmetric=False):
    """name compound entries at the library boundary: fresh symbols with defining equalities"""
    a = np.asarray(a, dtype=object)
    out = np.empty(a.shape, dtype=object)
    for idx in np.ndindex(a.shape):
        if symmetric and len(idx) == 2 and idx[0] > idx[1]:
            out[idx] = out[idx[1], idx[0]]
            continue
        e = J(a[idx])
        if not e.isconst():
            raise NotImplementedError('naming of series-valued entries')
        c0 = z3.simplify(e.c0)
        if S.is_val(c0) or (z3.is_const(c0) and c0.decl().kind() == z3.Z3_OP_UNINTERPRETED):
            out[idx] = e
            continue
        v = S.C.fresh(prefix)
        S.C.cons.append(v == c0)
        S.C.defs[str(v)] = ('value', (lambda ev, t=c0: ev.ev(t)), c0)
        S.C.keep.append(c0)
        out[idx] = S.const(v)
    return out


def cholesky(a, lower=False, **kw):
    a = np.asarray(a, dtype=object)
    n = a.shape[0]
    if n > 3:
        raise NotImplementedError('cholesky stub: n <= 3')
    A = name_matrix(a, 'S', symmetric=False)
    # reference triangle actually read by LAPACK potrf: lower -> lower triangle, else upper
    def rd(i, j):
        if lower:
            return J(A[max(i, j), min(i, j)])
        return J(A[min(i, j), max(i, j)])
    L = np.empty((n, n), dtype=object)
    L.fill(0)
    for j in range(n):
        s = rd(j, j)
        for k in range(j):
            s = s - J(L[j, k]) * L[j, k]
        d = s.sqrt()
        # positive definiteness is a precondition: pivot > 0
        S.C.cons.append(d.c0 > 0)
        L[j, j] = d
        for i in range(j + 1, n):
            s = rd(i, j)
            for k in range(j):
                s = s - J(L[i, k]) * L[j, k]
            L[i, j] = s / d
    res = L if lower else L.T.copy()
    out = res.view(Factor)
    out._of = A
    out._sym = lambda i, j: rd(i, j)
    out._lower = lower
    return out


def _sym_matrix(f):
    n = f.shape[0]
    M = np.empty((n, n), dtype=object)
    for i in range(n):
        for j in range(n):
            M[i, j] = f._sym(i, j)
    return M


from .symreal import PoisonUse, Poison, POISON      # noqa: E402,F401


def cho_solve(c_and_lower, b, overwrite_b=False, **kw):
    c, lower = c_and_lower
    b_in = b
    b = np.array(b, dtype=object)
    if overwrite_b and isinstance(b_in, np.ndarray) and b_in.dtype == object and b_in.flags.writeable:
        # LAPACK may or may not reuse the buffer: afterwards its content is unspecified
        b_in[...] = POISON
    if isinstance(c, Factor) and getattr(c, '_lower', None) == bool(lower):
        M = _sym_matrix(c)
        x = np.dot(inv(M), b)
    else:
        # explicit reconstruction from the triangle actually read
        c = np.asarray(c, dtype=object)
        n = c.shape[0]
        T = np.empty((n, n), dtype=object)
        T.fill(0)
        for i in range(n):
            for j in range(n):
                if (lower and i >= j) or (not lower and i <= j):
                    T[i, j] = c[i, j]
        M = np.dot(T, T.T) if lower else np.dot(T.T, T)
        x = np.dot(inv(M), b)
    return x


def solve_triangular(a, b, lower=False, trans=0, **kw):
    a = np.asarray(a, dtype=object)
    b = np.asarray(b, dtype=object)
    n = a.shape[0]
    if trans not in (0, 'N'):
        raise NotImplementedError('solve_triangular trans')
    x = np.empty(b.shape, dtype=object)
    rng = range(n) if lower else range(n - 1, -1, -1)
    for i in rng:
        s = b[i]
        ks = range(i) if lower else range(i + 1, n)
        for k in ks:
            s = s - a[i, k] * x[k]
        x[i] = s / a[i, i]
    return x


def expm(a):
    """matrix exponential: the defining power series. For a matrix whose entries are O(formal
    parameter) the series is exact in the truncated algebra; for a NILPOTENT matrix with
    ordinary symbolic entries (strictly triangular pattern) the series terminates and is exact."""
    a = np.asarray(a, dtype=object)
    n = a.shape[0]
    formal = all(S.is0(z3.simplify(J(a[idx]).c0)) for idx in np.ndindex(a.shape))
    M = S.symnp.eye(n)
    P = S.symnp.eye(n)
    if formal:
        order = sum(S.C.maxdeg) if S.C.total is None else min(sum(S.C.maxdeg), S.C.total)
        for k in range(1, order + 1):
            P = np.dot(P, a)
            for idx in np.ndindex(P.shape):
                P[idx] = J(P[idx]) * Fr(1, k)
            M = M + P
        return M
    zero = lambda e: all(S.is0(z3.simplify(v, som=True)) for v in J(e).co.values())
    for k in range(1, n + 2):
        P = np.dot(P, a)
        for idx in np.ndindex(P.shape):
            P[idx] = J(P[idx]) * Fr(1, k)
        if all(zero(P[idx]) for idx in np.ndindex(P.shape)):
            return M
        M = M + P
    raise NotImplementedError('expm stub needs a formal-parameter or a nilpotent argument')
