"""Engine B harness for the two filter loops: runs the REAL bodies of
pyins.filters.run_feedback_filter / run_feedforward_filter on symbolic time stamps, with the
numeric payload replaced by recording tokens and the collaborators replaced by stand-ins of
their contracts.  Used by C09, C10, C11 (dataflow), C12 (transparency), C13 (filter part).
"""
import fractions
import z3

from . import paths
from . import symtime
from .paths import Abort
from .symtime import T, B, TArr, BArr, Tok, NPShim, After, INF, asT, _key, mk, K

THETA = ('theta_x', 'theta_y', 'theta_z')
DV = ('dv_x', 'dv_y', 'dv_z')


class Fuel:
    def __init__(self, limit):
        self.limit = limit
        self.n = 0

    def tick(self, what='loop'):
        self.n += 1
        if self.n > self.limit:
            raise Abort('FUEL')


# ------------------------------------------------------------------------------------------
# increments stand-ins
# ------------------------------------------------------------------------------------------
class IncData:
    """content of one increments row: token per column group, functional updates"""

    def __init__(self, i, stamp, dt, cols=None, scale=None):
        self.i = i
        self.stamp = stamp
        self.dt = dt
        self.cols = cols or {'theta': Tok('inc', i, 'theta', n=3), 'dv': Tok('inc', i, 'dv', n=3)}
        self.scale = scale

    def key(self):
        return mk('incrow', self.i, _key(self.scale), _key(self.cols['theta']), _key(self.cols['dv']))


def _colkind(cols):
    if isinstance(cols, str):
        return cols
    c = tuple(cols)
    if c == THETA:
        return 'theta'
    if c == DV:
        return 'dv'
    raise KeyError('columns %r are not modelled by the increments stand-in' % (cols,))


class IncRow:
    """pandas Series stand-in: one row of the increments table"""

    def __init__(self, data):
        self.d = data

    @property
    def name(self):
        return self.d.stamp

    def __getitem__(self, cols):
        k = _colkind(cols)
        if k == 'dt':
            return self.d.dt if self.d.scale is None else self.d.dt * self.d.scale
        t = self.d.cols[k]
        if self.d.scale is not None:
            t = Tok('scale', self.d.scale, t, n=3)
        return t

    def __setitem__(self, cols, val):
        k = _colkind(cols)
        if k == 'dt':
            raise NotImplementedError('assignment to dt')
        if _key(val) is _key(self[cols]):
            return          # assigning a column group to itself: the row is unchanged
        self.d.cols = dict(self.d.cols)
        if self.d.scale is not None:
            raise NotImplementedError('assignment to scaled row')
        self.d.cols[k] = val

    def copy(self):
        return IncRow(IncData(self.d.i, self.d.stamp, self.d.dt, dict(self.d.cols), self.d.scale))

    def _scaled(self, s):
        if isinstance(s, (int, float)):
            s = asT(s)
        if not isinstance(s, T):
            return NotImplemented
        sc = s if self.d.scale is None else self.d.scale * s
        return IncRow(IncData(self.d.i, self.d.stamp, self.d.dt, dict(self.d.cols), sc))

    __mul__ = _scaled
    __rmul__ = _scaled

    def to_frame(self):
        return _OneRowFrame(self)

    def key(self):
        return self.d.key()

    @property
    def dt(self):
        return self['dt']

    @property
    def index(self):
        return ['dt'] + list(THETA) + list(DV)


class _OneRowFrame:
    def __init__(self, row):
        self.row = row

    def transpose(self, copy=False):
        return IncFrame([self.row.d])


class _ILoc:
    def __init__(self, f):
        self.f = f

    def __getitem__(self, k):
        rows = self.f.rows
        if isinstance(k, slice):
            if any(isinstance(x, (T, B, Tok)) for x in (k.start, k.stop, k.step)):
                raise TypeError('symbolic slice bound')
            return IncFrame(rows[k])
        if isinstance(k, bool) or not hasattr(k, '__index__'):
            raise TypeError('iloc index %r' % (k,))
        k = k.__index__()
        if k < 0:
            k += len(rows)
        if not 0 <= k < len(rows):
            raise IndexError('single positional indexer is out-of-bounds')
        return IncRow(IncData(rows[k].i, rows[k].stamp, rows[k].dt, dict(rows[k].cols), rows[k].scale))


class _IncLoc:
    def __init__(self, f):
        self.f = f

    def __getitem__(self, k):
        if not isinstance(k, slice):
            raise NotImplementedError('increments.loc[%r]' % (k,))
        lo, hi = k.start, k.stop
        sel = []
        for r in self.f.rows:
            if lo is None:
                ok = True
            elif isinstance(lo, After):
                # nextafter(a, b) with b > a: label >= nextafter(a) <=> label > a (exact-real tier)
                up = bool(lo.b > lo.a)
                ok = bool(r.stamp > lo.a) if up else bool(r.stamp >= lo.a)
            else:
                ok = bool(r.stamp >= lo)
            if ok and hi is not None:
                ok = bool(r.stamp <= hi)
            if ok:
                sel.append(r)
        return IncFrame(sel)


class IncFrame:
    """pandas DataFrame stand-in for an increments table (rows = IncData)"""

    def __init__(self, rows):
        self.rows = list(rows)

    @property
    def index(self):
        return TArr([r.stamp for r in self.rows], name='time')

    def __len__(self):
        return len(self.rows)

    @property
    def iloc(self):
        return _ILoc(self)

    @property
    def loc(self):
        return _IncLoc(self)

    @property
    def dt(self):
        return self['dt']

    def __getitem__(self, cols):
        k = _colkind(cols)
        if k == 'dt':
            return Tok('col_dt', tuple(r.i for r in self.rows), n=len(self.rows))
        return Tok('cols', k, [r.cols[k] for r in self.rows], n=len(self.rows))

    def __setitem__(self, cols, val):
        k = _colkind(cols)
        if k != 'dt' and _key(val) is self[cols].key():
            return          # assigning a column group to itself: the table is unchanged
        new = []
        for j, r in enumerate(self.rows):
            c = dict(r.cols)
            c[k] = Tok('rowof', val, j, n=3)
            new.append(IncData(r.i, r.stamp, r.dt, c, r.scale))
        self.rows = new

    def copy(self):
        return IncFrame([IncData(r.i, r.stamp, r.dt, dict(r.cols), r.scale) for r in self.rows])

    def key(self):
        return mk('incframe', *[r.key() for r in self.rows])


# ------------------------------------------------------------------------------------------
# trajectory tables (feedforward input) and integrator contract model (feedback)
# ------------------------------------------------------------------------------------------
class PvaTok(Tok):
    def __init__(self, op, *args, name=None):
        Tok.__init__(self, op, *args, n=9)
        self.name = name

    def __getitem__(self, cols):
        return Tok('pvacols', self, tuple(cols) if isinstance(cols, list) else cols, n=3)

    def copy(self):
        return self


class TrajTable:
    """time-indexed trajectory table stand-in; rows are PvaTok"""

    def __init__(self, name, times, rows=None):
        self.tname = name
        self.times = list(times)
        self.rows = rows if rows is not None else [PvaTok('row', name, i, name=t) for i, t in enumerate(times)]

    @property
    def index(self):
        return TArr(self.times, name='time')

    def __len__(self):
        return len(self.times)

    @property
    def iloc(self):
        return _TrajILoc(self)

    @property
    def loc(self):
        return _TrajLoc(self)

    def copy(self):
        return TrajTable(self.tname, self.times, list(self.rows))

    def key(self):
        return mk('traj', self.tname, *[_key(r) for r in self.rows])


class _TrajILoc:
    def __init__(self, t):
        self.t = t

    def __getitem__(self, k):
        if isinstance(k, slice):
            return TrajTable(self.t.tname, self.t.times[k], self.t.rows[k])
        if isinstance(k, bool) or not hasattr(k, '__index__'):
            raise TypeError('iloc index %r' % (k,))
        k = k.__index__()
        n = len(self.t.times)
        if k < 0:
            k += n
        if not 0 <= k < n:
            raise IndexError('single positional indexer is out-of-bounds')
        return self.t.rows[k]

    def __setitem__(self, k, v):
        if k != -1:
            raise NotImplementedError
        self.t.rows[-1] = v


class _TrajLoc:
    def __init__(self, t):
        self.t = t

    def __getitem__(self, key):
        if isinstance(key, (TArr, list, tuple)):
            times, rows = [], []
            for q in key:
                hit = False
                for s, r in zip(self.t.times, self.t.rows):
                    if q is s or bool(q == s):
                        times.append(s)
                        rows.append(r)
                        hit = True
                if not hit:
                    raise KeyError('%r not in index' % (q,))
            return TrajTable(self.t.tname, times, rows)
        raise NotImplementedError('trajectory.loc[%r]' % (key,))


class IntegratorModel:
    """Contract-level model of strapdown.Integrator (its conformance is what C02/C13 decide):
    rows are terms over step(state, increment row)."""

    def __init__(self, h, pva, with_altitude=True):
        self.h = h
        self.with_altitude = with_altitude
        self.times = [pva.name]
        self.states = [PvaTok('init', _key(pva), with_altitude, name=pva.name)]
        h.log.append(('init', pva.name, with_altitude))

    def get_time(self):
        return self.times[-1]

    def get_pva(self):
        return self.states[-1]

    def set_pva(self, p):
        self.h.log.append(('set_pva', self.times[-1], _key(p), _key(self.states[-1])))
        self.states[-1] = PvaTok('given', _key(p), name=self.times[-1])

    def predict(self, inc):
        if not isinstance(inc, IncRow):
            raise TypeError('predict expects an increments row')
        self.h.log.append(('predict', self.times[-1], inc.d.i, inc.d.scale, inc.key()))
        return PvaTok('step', _key(self.states[-1]), inc.key(), name=inc.name)

    def integrate(self, batch):
        if not isinstance(batch, IncFrame):
            raise TypeError('integrate expects an increments table')
        self.h.log.append(('integrate', [r.i for r in batch.rows], batch.key()))
        for r in batch.rows:
            self.states.append(PvaTok('step', _key(self.states[-1]), r.key(), name=r.stamp))
            self.times.append(r.stamp)
        return None

    @property
    def trajectory(self):
        return TrajTable('result', self.times, self.states)


# ------------------------------------------------------------------------------------------
# measurements, models, pandas
# ------------------------------------------------------------------------------------------
class MeasData:
    def __init__(self, times, columns):
        self.index = TArr(times, name='time')
        self.columns = ColIndex(columns)


class ColIndex(list):
    def __getitem__(self, k):
        r = list.__getitem__(self, k)
        return ColIndex(r) if isinstance(k, slice) else r


class MeasBase:
    """contract stand-in of a pyins Measurement: (z, H, R) iff `time` is a stamp of its data
    (decided for the real classes in C06), else None"""
    n_rows_3d = 3
    n_rows_2d = 3

    def __init__(self, h, times):
        self.h = h
        self.sname = type(self).__name__
        self.data = MeasData(times, ['c0', 'c1', 'c2'])

    def compute_matrices(self, time, pva, error_model):
        self.h.fuel_calls.tick('compute_matrices')
        for j, t in enumerate(self.data.index.items):
            if bool(t == time):
                n = self.n_rows_3d if error_model.with_altitude else self.n_rows_2d
                self.h.log.append(('meas', self.sname, j, time, _key(pva)))
                return (Tok('z', self.sname, j, _key(pva), n=n), Tok('H', self.sname, j, _key(pva), n=n),
                        Tok('R', self.sname, n=n))
        return None


def make_sensor_class(name, rows2d):
    return type(name, (MeasBase,), {'n_rows_2d': rows2d})


class ErrorModelStandIn:
    def __init__(self, with_altitude=True):
        self.with_altitude = with_altitude
        self.n_states = 9 if with_altitude else 7

    def correct_pva(self, pva, x):
        return PvaTok('correct_pva', _key(pva), _key(x), self.with_altitude, name=getattr(pva, 'name', None))


class SensorModel:
    """stand-in of inertial_sensor.EstimationModel: estimate state = version term"""

    def __init__(self, h, tag, n_states=0, garbage=False):
        self.h = h
        self.tag = tag
        self.n_states = n_states
        self.scale_misal_modelled = False
        self.states = ['s%d' % i for i in range(n_states)]
        self.est = mk('garbage', tag) if garbage else mk('reset', tag)

    def reset_estimates(self):
        self.h.log.append(('reset', self.tag))
        self.est = mk('reset', self.tag)

    def update_estimates(self, x):
        self.h.log.append(('update', self.tag, _key(x)))
        self.est = mk('upd', self.est, _key(x))

    def get_estimates(self):
        return Tok('est', self.tag, self.est)

    def correct_increments(self, dt, inc):
        if self.est is mk('reset', self.tag):
            # contract: with estimates at reset values the correction is the identity
            # (bit-exactness of that identity is the FP lemma of C12)
            self.h.log.append(('corr_identity', self.tag))
            return inc
        return Tok('corrected', self.tag, self.est, _key(dt), _key(inc), n=getattr(inc, 'n', None))


class DFStandIn:
    def __init__(self, data, index, columns):
        self.data = data
        self.index = index
        self.columns = columns


class PDShim:
    def __init__(self, h):
        self.h = h

    def DataFrame(self, data=None, index=None, columns=None):
        idx = list(index) if index is not None else None
        return DFStandIn(list(data) if isinstance(data, list) else data, idx, columns)

    def concat(self, items, axis=0):
        items = list(items)
        return PvaTok('concat', *[_key(i) for i in items], name=getattr(items[0], 'name', None))

    def Series(self, data=None, index=None, name=None):
        return Tok('series', _key(data), _key(index))


class _Namespace:
    def __init__(self, **kw):
        self.__dict__.update(kw)


# ------------------------------------------------------------------------------------------
# the harness
# ------------------------------------------------------------------------------------------
class FilterHarness:
    """kind: 'feedback' | 'feedforward'.
    n_rows: number of increments (feedback) / trajectory rows (feedforward).
    sensors: list of (class name, number of data rows, rows in 2D mode)."""

    def __init__(self, kind, n_rows, sensors, meas_mode='list', with_altitude=True,
                 with_increments=False, model_states=(0, 0), garbage_models=False,
                 t_max=1000, rounded=False, default_step=False, patch=None, default_models=False, havoc_add=False):
        self.kind = kind
        self.n_rows = n_rows
        self.sensors = sensors
        self.meas_mode = meas_mode
        self.with_altitude = with_altitude
        self.with_increments = with_increments
        self.model_states = model_states
        self.garbage_models = garbage_models
        self.rounded = rounded
        self.default_step = default_step
        self.havoc_add = havoc_add
        self.default_models = default_models
        self.log = []
        n_stamps = n_rows + 1 if kind == 'feedback' else n_rows
        self.ts = [T(z3.Real('t%d' % i)) for i in range(n_stamps)]
        self.step = T(z3.Real('step'))
        pre = [self.ts[i].v < self.ts[i + 1].v for i in range(n_stamps - 1)]
        pre += [self.ts[0].v >= 0, self.ts[-1].v <= t_max, self.step.v > 0, self.step.v <= 2 * t_max]
        self.mts = {}
        for name, k, _r2 in sensors:
            m = [T(z3.Real('m_%s%d' % (name, j))) for j in range(k)]
            pre += [m[j].v < m[j + 1].v for j in range(k - 1)]
            pre += [x.v >= -t_max for x in m] + [x.v <= 2 * t_max for x in m]
            self.mts[name] = m
        self.pre = pre
        self.t_max = t_max
        n_epochs = sum(k for _n, k, _r in sensors)
        self.loop_fuel = n_stamps + n_epochs + 2
        self.patch = patch
        self._install()

    # -- module patching (in this process only) ------------------------------------------
    def _install(self):
        import pyins.filters as F
        self.F = F
        h = self
        if not hasattr(F, '_pvf_orig'):
            F._pvf_orig = {'run_feedback_filter': F.run_feedback_filter,
                           'run_feedforward_filter': F.run_feedforward_filter,
                           '_correct_increments': F._correct_increments}
        for k, v in F._pvf_orig.items():
            setattr(F, k, v)
        self.np = NPShim()
        F.np = self.np
        F.pd = PDShim(self)
        F.InsErrorModel = ErrorModelStandIn
        F.inertial_sensor = _Namespace(EstimationModel=lambda *a, **k: SensorModel(h, 'default%d' % len(h.log)))
        F.kalman = _Namespace(correct=self._correct, compute_process_matrices=None)
        F.strapdown = _Namespace(Integrator=lambda pva, wa=True: IntegratorModel(h, pva, wa))
        F._interpolate_pva = self._interp
        F._initialize_covariance = lambda pva, *a: Tok('P0', _key(pva), n=self._nstates())
        F._compute_error_propagation_matrices = self._prop
        F._compute_sd = self._compute_sd
        F._compute_feedforward_result = self._ff_result
        if self.patch:
            self.patch(F)

    def _nstates(self):
        return (9 if self.with_altitude else 7) + sum(self.model_states)

    def _correct(self, x, P, z, H, R):
        self.log.append(('correct', _key(x), _key(P), _key(z), _key(H), _key(R)))
        a = (_key(x), _key(P), _key(z), _key(H), _key(R))
        return (Tok('x+', *a, n=getattr(x, 'n', None)), Tok('P+', *a, n=getattr(P, 'n', None)),
                Tok('innov', *a, n=len(z)))

    def _interp(self, first, second, alpha):
        self.log.append(('interp', _key(first), _key(second), alpha))
        return PvaTok('interp', _key(first), _key(second), _key(alpha))

    def _prop(self, pva, gyro, accel, time_delta, error_model, gyro_model, accel_model):
        self.fuel.tick('loop')
        self.log.append(('prop', time_delta, _key(pva), _key(gyro), _key(accel), gyro, accel))
        a = (_key(pva), _key(gyro), _key(accel), _key(time_delta))
        n = self._nstates()
        return Tok('Phi', *a, n=n), Tok('Qd', *a, n=n)

    def _compute_sd(self, P, trajectory, error_model, gyro_model, accel_model):
        idx = list(trajectory.times)
        self.log.append(('sd', idx, _key(P)))
        return (DFStandIn(Tok('traj_sd', _key(P)), idx, 'traj'), DFStandIn(Tok('gyro_sd', _key(P)), idx, 'g'),
                DFStandIn(Tok('accel_sd', _key(P)), idx, 'a'))

    def _ff_result(self, x, P, trajectory_nominal, trajectory, error_model, gyro_model, accel_model):
        idx = list(trajectory.times)
        self.log.append(('ff_result', list(trajectory_nominal.times), idx, _key(x), _key(P)))
        mk = lambda n: DFStandIn(Tok(n, _key(x), _key(P)), idx, n)
        return mk('trajectory'), mk('trajectory_sd'), mk('gyro'), mk('gyro_sd'), mk('accel'), mk('accel_sd')

    # -- one execution -------------------------------------------------------------------
    def build_inputs(self):
        self.log = []
        symtime.DIV_SINK[0] = self.log
        self.fuel = Fuel(self.loop_fuel)
        self.fuel_calls = Fuel(60 * (self.loop_fuel + 1) * (len(self.sensors) + 1))
        ex = paths.CUR
        ex.rounded = self.rounded
        ex.havoc_add = self.havoc_add
        if self.rounded:
            ex.round_bound = z3.Q(3 * self.t_max, 2 ** 53)
        meas = []
        for name, k, r2 in self.sensors:
            cls = make_sensor_class(name, r2)
            meas.append(cls(self, self.mts[name]))
        if self.meas_mode == 'none':
            meas = None
        elif self.meas_mode == 'empty':
            meas = []
        gm = SensorModel(self, 'gyro', self.model_states[0], self.garbage_models)
        am = SensorModel(self, 'accel', self.model_states[1], self.garbage_models)
        if self.default_models:
            gm = am = None
        return meas, gm, am

    def inc_rows(self, stamps, first_prev):
        rows = []
        prev = first_prev
        for i, s in enumerate(stamps):
            rows.append(IncData(i, s, T(z3.simplify(s.v - prev.v))))
            prev = s
        return rows

    def run(self):
        meas, gm, am = self.build_inputs()
        kw = {}
        if not self.default_step:
            kw['time_step'] = self.step
        if self.kind == 'feedback':
            pva0 = PvaTok('pva0', name=self.ts[0])
            inc = IncFrame(self.inc_rows(self.ts[1:], self.ts[0]))
            res = self.F.run_feedback_filter(pva0, 1.0, 1.0, 1.0, 1.0, inc, gyro_model=gm, accel_model=am,
                                             measurements=meas, with_altitude=self.with_altitude, **kw)
        else:
            nom = TrajTable('nominal', self.ts)
            comp = TrajTable('computed', self.ts)
            inc = IncFrame(self.inc_rows(self.ts[1:], self.ts[0])) if self.with_increments else None
            res = self.F.run_feedforward_filter(nom, comp, 1.0, 1.0, 1.0, 1.0, gyro_model=gm, accel_model=am,
                                                measurements=meas, increments=inc,
                                                with_altitude=self.with_altitude, **kw)
        return res, list(self.log)

    # -- witness extraction ----------------------------------------------------------------
    def all_vars(self):
        v = [t.v for t in self.ts] + [self.step.v]
        for name in self.mts:
            v += [m.v for m in self.mts[name]]
        return v

    def witness(self, ex, extra=None):
        """A concrete schedule on the current path (plus `extra`); dyadic rationals (exact in
        binary64, also under the additions the loop performs) whenever one is found."""
        cons = [extra] if extra is not None else []
        vs = self.all_vars()

        def vals(m):
            out = []
            for v in vs:
                x = m.eval(v, model_completion=True)
                out.append(fractions.Fraction(x.numerator_as_long(), x.denominator_as_long()))
            return out

        def dyadic(fr):
            d = fr.denominator
            return d & (d - 1) == 0 and d <= 2 ** 20
        if ex.solver.check(*cons) != z3.sat:
            return None
        m = ex.solver.model()
        xs = vals(m)
        exact = all(dyadic(x) for x in xs)
        if not exact:
            # nudge: same order type usually has a solution on the 1/1024 grid
            ks = [z3.Int('k!%d' % i) for i in range(len(vs))]
            dy = [v * 1024 == z3.ToReal(k) for v, k in zip(vs, ks)]
            ex.solver.set('timeout', 1500)
            try:
                if ex.solver.check(*(cons + dy)) == z3.sat:
                    xs = vals(ex.solver.model())
                    exact = True
            finally:
                ex.solver.set('timeout', ex.timeout_ms)
        n = len(self.ts)
        w = {'stamps': xs[:n], 'step': xs[n], 'sensors': {}, 'exact': exact}
        p = n + 1
        for name in self.mts:
            k = len(self.mts[name])
            w['sensors'][name] = xs[p:p + k]
            p += k
        return w
