"""./check <ID> [--tier quick|thorough]"""
import argparse
import importlib
import os
import resource
import sys
import traceback

from . import common


def main():
    ap = argparse.ArgumentParser()
    ap.add_argument('prop')
    ap.add_argument('--tier', default=os.environ.get('VERIF_TIER') or 'quick', choices=['quick', 'thorough'])
    ap.add_argument('--seed', type=int, default=int(os.environ.get('VERIF_SEED') or 0))
    ap.add_argument('--only', default=None, help='run only the named obligation family (debugging)')
    args = ap.parse_args()
    common.setup_symbolic_env()
    if os.environ.get('PVF_TRACE_AFTER'):
        import faulthandler
        faulthandler.dump_traceback_later(int(os.environ['PVF_TRACE_AFTER']), repeat=True)
    # address-space cap per process: a runaway solver must die as "unknown", not thrash
    try:
        lim = 24 * 2**30
        resource.setrlimit(resource.RLIMIT_AS, (lim, lim))
    except (ValueError, OSError):
        pass
    prop = args.prop.upper()
    try:
        mod = importlib.import_module('pvf.props.%s' % prop.lower())
    except ImportError as e:
        print('HARNESS-ERROR no check for %s (%s)' % (prop, e))
        return common.EXIT_ERROR
    run = common.Run(prop, mod.LEVEL, args.tier, args.seed)
    run.only = args.only
    try:
        mod.run(run)
    except common.HarnessError as e:
        run.error('harness error: %s' % e)
    except Exception as e:      # noqa: BLE001
        run.error('unexpected %s: %s\n%s' % (type(e).__name__, e, traceback.format_exc(limit=12)))
    if run.errors and not run.violations and hasattr(mod, 'FALLBACK') and not run.only:
        # the symbolic check is inconclusive (it crashed, met something unmodelled, or a failed
        # obligation did not replay): the numeric oracles of the property are put to the COMPILED code
        # of the tree being checked. A failure there is a concrete failing run of the real code and is
        # reported as the violation (found by the oracle, not by the solver); otherwise exit 2 stands.
        try:
            specs = [dict(sp, property=prop, kind=sp.get('kind', 'numeric')) for sp in mod.FALLBACK(args.tier)]
            res = common.run_replays(specs, timeout=1200) if specs else []
            for sp, r in zip(specs, res):
                if r.get('violated'):
                    sp = dict(sp)
                    sp['observed'] = r.get('detail') or r.get('failed')
                    path = common.write_replay(prop, sp)
                    run.violation('symbolic check inconclusive (%s); numeric oracle "%s" on the compiled code of this tree: %s' % (
                        str(run.errors[0]).splitlines()[0][:160], sp.get('check') or sp.get('kind'), str(sp['observed'])[:400]), path)
                    break
        except Exception as e:      # noqa: BLE001
            run.error('fallback oracle run failed: %s: %s' % (type(e).__name__, e))
    return run.finish()


if __name__ == '__main__':
    sys.exit(main())
