"""./check <ID> [--tier quick|thorough]"""
import argparse
import importlib
import os
import resource
import sys
import traceback

from . import common


def main():
    ap = argparse.ArgumentParser()
    ap.add_argument('prop')
    ap.add_argument('--tier', default=os.environ.get('VERIF_TIER') or 'quick', choices=['quick', 'thorough'])
    ap.add_argument('--seed', type=int, default=int(os.environ.get('VERIF_SEED') or 0))
    ap.add_argument('--only', default=None, help='run only the named obligation family (debugging)')
    args = ap.parse_args()
    common.setup_symbolic_env()
    if os.environ.get('PVF_TRACE_AFTER'):
        import faulthandler
        faulthandler.dump_traceback_later(int(os.environ['PVF_TRACE_AFTER']), repeat=True)
    # address-space cap per process: a runaway solver must die as "unknown", not thrash
    try:
        lim = 24 * 2**30
        resource.setrlimit(resource.RLIMIT_AS, (lim, lim))
    except (ValueError, OSError):
        pass
    prop = args.prop.upper()
    try:
        mod = importlib.import_module('pvf.props.%s' % prop.lower())
    except ImportError as e:
        print('HARNESS-ERROR no check for %s (%s)' % (prop, e))
        return common.EXIT_ERROR
    run = common.Run(prop, mod.LEVEL, args.tier, args.seed)
    run.only = args.only
    try:
        mod.run(run)
    except common.HarnessError as e:
        run.error('harness error: %s' % e)
    except Exception as e:      # noqa: BLE001
        run.error('unexpected %s: %s\n%s' % (type(e).__name__, e, traceback.format_exc(limit=12)))
    return run.finish()


if __name__ == '__main__':
    sys.exit(main())
