"""Known findings: genuine defects recorded (not repaired) in /verif/known_findings.json.
Each is identified by a predicate over the failing input so that a *different* violation of
the same property is still reported.  `fixed` entries suppress nothing."""
from . import common


def for_property(prop):
    kf = common.load_known_findings()
    return [f for f in kf.get('findings', []) if f.get('property') == prop]


# predicates over replay specs ---------------------------------------------------------------
def _epochs(spec):
    s = set()
    for v in spec.get('sensors', {}).values():
        s.update(v)
    return sorted(s)


def pred_no_measurements(spec):
    return spec.get('meas_mode') in ('none', 'empty') or not _epochs(spec)


def pred_two_epochs_in_one_interval(spec):
    st = spec['stamps']
    ep = [e for e in _epochs(spec) if st[0] <= e <= st[-1]]
    for a, b in zip(st, st[1:]):
        if sum(1 for e in ep if a <= e < b) >= 2:
            return True
    return False


def pred_step_below_gap(spec):
    st = spec['stamps']
    return any(b - a > spec['step'] for a, b in zip(st, st[1:]))


def pred_c18_equal_rate_offset(spec):
    """two tables with the same median sampling interval whose stamps differ (a tie of the
    'which one is denser' test): C18 layout index with that shape"""
    import statistics
    from .props import c18
    li = (spec.get('params') or {}).get('layout')
    if li is None:
        return False
    _name, ta, tb, _c = c18.LAYOUTS[li]
    med = lambda t: statistics.median([b - a for a, b in zip(t, t[1:])])
    return med(ta) == med(tb) and list(ta) != list(tb) and not set(tb) <= set(ta) and not set(ta) <= set(tb)


PREDICATES = {
    'c18_equal_rate_offset': pred_c18_equal_rate_offset,
    'no_measurements': pred_no_measurements,
    'two_epochs_in_one_interval': pred_two_epochs_in_one_interval,
    'step_below_gap': pred_step_below_gap,
    'always': lambda spec: True,
}


def match(kf, spec, code, res):
    for f in kf:
        m = f.get('match', {})
        if m.get('code') and not code.startswith(m['code']):
            continue
        p = PREDICATES.get(m.get('predicate', 'always'))
        if p is None:
            continue
        try:
            if p(spec):
                return f
        except Exception:       # noqa: BLE001
            continue
    return None
