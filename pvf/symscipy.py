"""Symbolic stubs of the scipy objects pyins uses: Rotation (from_euler / from_matrix /
from_rotvec / as_matrix / as_euler / composition), each modelling the documented contract."""
import fractions

import numpy as np
import z3

from . import symreal as S
from .symreal import Sym, J, O

Fr = fractions.Fraction


def _elem(axis, ang):
    s, c = ang.sin(), ang.cos()
    if axis == 'x':
        return O([[1, 0, 0], [0, c, -s], [0, s, c]])
    if axis == 'y':
        return O([[c, 0, s], [0, 1, 0], [-s, 0, c]])
    if axis == 'z':
        return O([[c, -s, 0], [s, c, 0], [0, 0, 1]])
    raise ValueError('axis %r' % axis)


def _tolist(a):
    if hasattr(a, 'values') and not isinstance(a, np.ndarray):
        a = a.values
    return a


class Rot:
    def __init__(self, m):
        self.m = m

    @property
    def single(self):
        return self.m.ndim == 2

    def __len__(self):
        if self.m.ndim == 2:
            raise TypeError('Single rotation has no len().')
        return len(self.m)

    @staticmethod
    def from_euler(seq, angles, degrees=False):
        angles = _tolist(angles)
        if isinstance(angles, Sym) or S._isnum(angles):
            angles = O([angles])
        ang = np.asarray(angles, dtype=object) if not isinstance(angles, np.ndarray) else angles
        if ang.dtype != object:
            ang = ang.astype(object)
        if len(seq) == 1 and ang.ndim == 1 and len(ang) != 1:
            return Rot(O([Rot.from_euler(seq, O([a]), degrees).m for a in ang]))
        if ang.ndim == 2:
            return Rot(O([Rot.from_euler(seq, a, degrees).m for a in ang]))
        if len(seq) != len(ang):
            raise ValueError('Expected `angles` to match the number of axes in `seq`')
        if len(set(seq.lower())) == 1 and len(seq) > 1 or not all(ch in 'xyzXYZ' for ch in seq):
            raise ValueError('invalid axis sequence %r' % seq)
        if not (seq.islower() or seq.isupper()):
            raise ValueError('Expected axes from `seq` to be from one of the two sets')
        srcs = [getattr(a, '_src', None) if isinstance(a, Sym) else None for a in ang]
        if seq == 'xyz' and all(x is not None for x in srcs) and all(
                x[0] is srcs[0][0] and x[1] == i and x[2] == bool(degrees) for i, x in enumerate(srcs)):
            return Rot(srcs[0][0])                 # from_euler(as_euler(M)) = M
        m = S.symnp.eye(3)
        for ax, a in zip(seq, ang):
            a = J(a).deg2rad() if degrees else J(a)
            e = _elem(ax.lower(), a)
            m = np.dot(e, m) if ax.islower() else np.dot(m, e)      # extrinsic: pre-multiply
        if seq == 'xyz':
            # as_euler('xyz') of exactly this matrix returns these angles (contract
            # as_euler(from_euler(a)) = a for |pitch| < 90 deg and angles in the principal range,
            # which the harness domains assume)
            for i in range(3):
                for j in range(3):
                    m[i, j] = J(m[i, j])
            S.C.memo[('euler',) + tuple(id(x) for x in m.flat)] = ([J(a) for a in ang], bool(degrees), m)
        return Rot(m)

    @staticmethod
    def from_matrix(M):
        M = S.symnp.asarray(M)
        return Rot(M)

    @staticmethod
    def from_rotvec(v, degrees=False):
        v = S.symnp.asarray(v)
        if v.ndim == 2:
            return Rot(O([Rot.from_rotvec(x, degrees).m for x in v]))
        if degrees:
            v = O([J(x).deg2rad() for x in v])
        return Rot(_rotvec_matrix(v))

    @staticmethod
    def identity():
        return Rot(S.symnp.eye(3))

    def as_matrix(self):
        return self.m

    def as_euler(self, seq, degrees=False):
        if seq != 'xyz':
            raise NotImplementedError('as_euler(%r)' % seq)
        if self.m.ndim == 3:
            return O([_as_euler_xyz(m, degrees) for m in self.m])
        return _as_euler_xyz(self.m, degrees)

    def __mul__(self, o):
        a, b = self.m, o.m
        if a.ndim == 2 and b.ndim == 2:
            return Rot(np.dot(a, b))
        return Rot(S.symnp.einsum('...ij,...jk->...ik', a, b))

    def inv(self):
        if self.m.ndim == 2:
            return Rot(self.m.T.copy())
        return Rot(np.transpose(self.m, (0, 2, 1)).copy())

    def apply(self, v, inverse=False):
        m = self.inv().m if inverse else self.m
        return S.symnp.einsum('...ij,...j->...i', m, S.symnp.asarray(v))

    def __getitem__(self, k):
        return Rot(self.m[k])


def _as_euler_xyz(M, degrees):
    tag = S.C.memo.get(('euler',) + tuple(id(x) for x in np.asarray(M, dtype=object).flat))
    if tag is not None:
        angs, deg_in, _keep = tag
        out = []
        for a in angs:
            if deg_in and not degrees:
                a = a.deg2rad()
            elif degrees and not deg_in:
                a = a.rad2deg()
            out.append(a)
        return O(out)
    r = S.atan2(M[2, 1], M[2, 2])
    p = S.atan2(-J(M[2, 0]), (J(M[2, 1]) * J(M[2, 1]) + J(M[2, 2]) * J(M[2, 2])).sqrt())
    h = S.atan2(M[1, 0], M[0, 0])
    out = [r, p, h]
    if degrees:
        out = [a.rad2deg() for a in out]
    res = []
    for i, a in enumerate(out):
        a = Sym(dict(a.co))
        a._src = (M, i, bool(degrees))
        res.append(a)
    return O(res)


def skew(v):
    return O([[0, -v[2], v[1]], [v[2], 0, -v[0]], [-v[1], v[0], 0]])


def _rotvec_matrix(v):
    v = [J(a) for a in v]
    Kx = skew(v)
    if all(S.is0(z3.simplify(a.c0)) for a in v):
        n = sum(S.C.maxdeg) if S.C.total is None else min(sum(S.C.maxdeg), S.C.total)
        M = S.symnp.eye(3)
        P = S.symnp.eye(3)
        for k in range(1, n + 1):
            P = np.dot(P, Kx)
            for idx in np.ndindex(P.shape):
                P[idx] = J(P[idx]) * Fr(1, k)
            M = M + P
        return M
    n2 = v[0] * v[0] + v[1] * v[1] + v[2] * v[2]
    n = n2.sqrt()
    k1 = n.sin() / n
    k2 = (1 - n.cos()) / n2
    K2 = np.dot(Kx, Kx)
    M = S.symnp.eye(3)
    for idx in np.ndindex((3, 3)):
        M[idx] = J(M[idx]) + k1 * Kx[idx] + k2 * K2[idx]
    return M
