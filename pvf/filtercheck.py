"""Obligations over explored paths of the filter loops (engine B) + concrete replay of
schedules on the real filters.  Shared by C09 / C10 (and reused by C11-C13)."""
import fractions
import json
import random
import time as _time

import z3

from . import common, paths
from .symtime import T, Tok, _key
from . import sched

HARNESS_EXC = ('NotImplementedError', 'HarnessError')


def _is_harness_exception(out):
    name, msg, tb = out
    if name in HARNESS_EXC:
        return True
    if 'not modelled' in msg or 'stand-in' in msg or 'payload token' in msg:
        return True
    if 'pvf/' in tb.split('\n')[-3] if len(tb.split('\n')) >= 3 else False:
        # raised inside a stand-in: only a harness problem if it is not one of the
        # exceptions the stand-ins raise on behalf of the library
        return name in ('AttributeError', 'TypeError') and 'symbolic' not in msg
    return False


def _fr(x):
    return [x.numerator, x.denominator]


def _wj(w):
    if w is None:
        return None
    return {'stamps': [_fr(x) for x in w['stamps']], 'step': _fr(w['step']), 'exact': w.get('exact', False),
            'sensors': {k: [_fr(x) for x in v] for k, v in w['sensors'].items()}}


class Checker:
    """wraps a FilterHarness config; on_path evaluates the property's obligations under the
    path condition and reduces the path to plain data"""

    def __init__(self, prop, cfg, sample_mod=1):
        self.prop = prop
        self.cfg = dict(cfg)
        self.h = sched.FilterHarness(**cfg)
        self.pre = self.h.pre
        self.sample_mod = sample_mod

    def fn(self):
        return self.h.run()

    # ---- helpers ----------------------------------------------------------------------
    def _pos(self, ex, t):
        """index of stamp t among the input stamps (identity first, then solver), or None"""
        for i, s in enumerate(self.h.ts):
            if t is s:
                return i
        if not isinstance(t, T) or t.inf:
            return None
        for i, s in enumerate(self.h.ts):
            if ex.valid(t.v == s.v):
                return i
        return None

    def _strictly_increasing(self, ex, seq):
        for a, b in zip(seq, seq[1:]):
            if a is b:
                return z3.BoolVal(True)
            if ex.feasible(z3.Not(a.v < b.v)):
                return z3.Not(a.v < b.v)
        return None

    # ---- obligations ------------------------------------------------------------------
    def on_path(self, ex, pr):
        h = self.h
        out = {'status': pr.status, 'viol': [], 'nobl': 0, 'info': []}
        viol = out['viol']

        def add(code, desc, cond=None):
            w = h.witness(ex, cond)
            viol.append({'code': code, 'desc': desc, 'witness': _wj(w)})

        if pr.status == 'abort':
            if pr.out == 'FUEL':
                out['nobl'] += 1
                add('nonterm', 'loop did not finish within fuel (%d iterations)' % h.loop_fuel)
            elif pr.out == 'UNKNOWN':
                out['unknown'] = True
            elif pr.out == 'INFEASIBLE':
                out['infeasible'] = True
            else:
                out['harness_error'] = 'abort: %s' % pr.out
            return out
        if pr.status == 'exception':
            if _is_harness_exception(pr.out):
                out['harness_error'] = '%s: %s | %s' % (pr.out[0], pr.out[1], pr.out[2][-400:])
            else:
                out['nobl'] += 1
                add('exception:%s' % pr.out[0], '%s: %s' % (pr.out[0], pr.out[1][:200]))
                out['exc_tb'] = pr.out[2][-600:]
            return out
        res, log = pr.out
        ts = h.ts
        start, end = ts[0], ts[-1]
        # --- (1) measurement usage ----------------------------------------------------
        used = {}
        order = []
        for e in log:
            if e[0] == 'meas':
                used[(e[1], e[2])] = used.get((e[1], e[2]), 0) + 1
                order.append((e[1], e[2], e[3]))
        if h.meas_mode == 'list':
            for name, k, _r in h.sensors:
                for j, m in enumerate(h.mts[name]):
                    inspan = z3.And(m.v >= start.v, m.v < end.v)
                    c = used.get((name, j), 0)
                    out['nobl'] += 2
                    if c != 1 and ex.feasible(inspan):
                        add('inspan_used_%d' % c, 'sample %s[%d] with time in [start,end) used %d times' % (name, j, c), inspan)
                    if c != 0 and ex.feasible(z3.Not(inspan)):
                        add('outspan_used', 'sample %s[%d] outside [start,end) used %d times' % (name, j, c), z3.Not(inspan))
            # processing order = time order
            for (n1, j1, t1), (n2, j2, t2) in zip(order, order[1:]):
                out['nobl'] += 1
                if t1 is not t2 and ex.feasible(t1.v > t2.v):
                    add('meas_order', 'samples %s[%d], %s[%d] processed out of time order' % (n1, j1, n2, j2), t1.v > t2.v)
            # innovation tables
            for name, k, _r in h.sensors:
                df = res['innovations'].get(name)
                rows = []
                if df is None or not isinstance(df, sched.DFStandIn):
                    out['nobl'] += 1
                    add('innov_missing', 'no innovations table for %s' % name)
                    continue
                data = df.data or []
                idx = df.index or []
                if len(data) != len(idx):
                    add('innov_shape', 'innovations[%s]: %d rows, %d stamps' % (name, len(data), len(idx)))
                    continue
                for tok, stamp in zip(data, idx):
                    zk = tok.args[2] if isinstance(tok, Tok) and tok.op == 'innov' else None
                    if not zk or zk[0] != 'z' or zk[1] != name:
                        add('innov_row', 'innovations[%s] row is not an innovation of that sensor' % name)
                        continue
                    j = zk[2]
                    rows.append((j, stamp))
                    out['nobl'] += 1
                    if h.kind == 'feedback':
                        # feedback filter: the row carries the sample's own time
                        m = h.mts[name][j]
                        if stamp is not m and (not isinstance(stamp, T) or ex.feasible(stamp.v != m.v)):
                            add('innov_stamp', 'innovations[%s] row of sample %d not stamped with its time' % (name, j),
                                stamp.v != m.v if isinstance(stamp, T) else None)
                cnt = {}
                for j, _s in rows:
                    cnt[j] = cnt.get(j, 0) + 1
                for j in range(k):
                    if cnt.get(j, 0) != used.get((name, j), 0):
                        add('innov_count', 'innovations[%s]: sample %d has %d rows but was processed %d times' % (
                            name, j, cnt.get(j, 0), used.get((name, j), 0)))
                out['nobl'] += 1
                js = [j for j, _s in rows]
                if js != sorted(js):
                    add('innov_order', 'innovations[%s] rows not in time order' % name)
        # --- (1b) no division by a time quantity that can be zero on this path ------------
        seen_den = set()
        for e in log:
            if e[0] != 'div':
                continue
            den = e[1]
            k = den.v.get_id()
            if k in seen_den:
                continue
            seen_den.add(k)
            if z3.is_rational_value(den.v) and den.v.numerator_as_long() != 0:
                continue
            out['nobl'] += 1
            if ex.feasible(den.v == 0):
                add('division_by_zero', 'a time quantity that can be exactly zero on this schedule is used as a divisor (%s)' % z3.simplify(den.v), den.v == 0)
        # --- (2) kind-specific ---------------------------------------------------------
        if h.kind == 'feedback':
            self._feedback_obligations(ex, res, log, out, add)
        else:
            self._feedforward_obligations(ex, res, log, out, add)
        # --- trace for validation against the implementation ----------------------------
        out['trace'] = self.trace(ex, res, log)
        if not viol and self.sample_mod and (hash(tuple(pr.decisions)) % self.sample_mod == 0):
            out['witness'] = _wj(h.witness(ex))
        self.extra_obligations(ex, res, log, out, add)
        return out

    def extra_obligations(self, ex, res, log, out, add):
        pass

    def _feedback_obligations(self, ex, res, log, out, add):
        h = self.h
        ts = h.ts
        traj = res['trajectory']
        out['nobl'] += 1
        if len(traj.times) != len(ts) or any(a is not b for a, b in zip(traj.times, ts)):
            pos = [self._pos(ex, t) for t in traj.times]
            if pos != list(range(len(ts))):
                add('traj_index', 'trajectory index is not start + every increment time once: positions %s' % pos)
        batches = [e[1] for e in log if e[0] == 'integrate']
        flat = [i for b in batches for i in b]
        out['nobl'] += 1
        if flat != list(range(h.n_rows)):
            add('bad_partition', 'integrate batches %s do not partition the increments in order' % batches)
        for e in log:
            if e[0] == 'prop':
                td = e[1]
                out['nobl'] += 1
                if not isinstance(td, T):
                    add('time_delta', 'time_delta is not a time difference: %r' % (td,))
                elif ex.feasible(td.v <= 0):
                    add('time_delta_nonpositive', 'covariance propagation interval <= 0 (division by zero / empty batch)', td.v <= 0)
        # result tables: strictly increasing subset of the trajectory times
        tr = None
        for e in log:
            if e[0] == 'sd':
                tr = e[1]
        tables = [('gyro', res['gyro'].index), ('accel', res['accel'].index)]
        if tr is not None:
            tables.append(('sd', tr))
        for name, idx in tables:
            out['nobl'] += 2
            idx = list(idx or [])
            bad = self._strictly_increasing(ex, idx)
            if bad is not None:
                add('table_index_order', '%s table index not strictly increasing' % name, bad if not z3.is_true(bad) else None)
            pos = [self._pos(ex, t) for t in idx]
            if any(p is None for p in pos):
                add('table_index_subset', '%s table index not a subset of trajectory times' % name)
        if tr is not None:
            out['nobl'] += 1
            if len(tr) != len(res['gyro'].index or []):
                add('sd_rows', 'sd tables have %d rows for %d result times' % (len(tr), len(res['gyro'].index or [])))

    def _feedforward_obligations(self, ex, res, log, out, add):
        h = self.h
        ts = h.ts
        ff = [e for e in log if e[0] == 'ff_result']
        out['nobl'] += 1
        if len(ff) != 1:
            add('no_result', 'result assembly not reached exactly once')
            return
        idx = ff[0][2]
        pos = [self._pos(ex, t) for t in idx]
        out['nobl'] += 4
        if any(p is None for p in pos):
            add('index_subset', 'result index not a subset of the input times')
            return
        if not pos or pos[0] != 0:
            add('index_start', 'result index does not start at the first input time: %s' % pos)
        if any(b <= a for a, b in zip(pos, pos[1:])):
            add('index_order', 'result index not strictly increasing: positions %s' % pos)
        # step bound
        nxt = [p for p in pos[1:]]
        props = [e for e in log if e[0] == 'prop']
        for a, b in zip(pos, nxt):
            out['nobl'] += 1
            if b > a + 1:
                c = ts[b].v - ts[a].v > h.step.v
                if (not h.default_step) and (not h.havoc_add) and ex.feasible(c):
                    add('step_bound', 'step from row %d to row %d exceeds max(time_step, local gap)' % (a, b), c)
        if len(props) != len(idx):
            add('prop_count', '%d propagation steps for %d result rows' % (len(props), len(idx)))
        for e in props:
            td = e[1]
            out['nobl'] += 1
            if isinstance(td, T) and h.with_increments and ex.feasible(td.v <= 0):
                add('time_delta_nonpositive', 'propagation interval <= 0 used as a divisor', td.v <= 0)
            if isinstance(td, T) and ex.feasible(td.v < 0):
                add('time_delta_negative', 'propagation interval < 0', td.v < 0)

    def trace(self, ex, res, log):
        h = self.h
        tr = {'meas': [(e[1], e[2]) for e in log if e[0] == 'meas']}
        if h.kind == 'feedback':
            tr['batches'] = [len(e[1]) for e in log if e[0] == 'integrate']
            tr['n_results'] = len(res['gyro'].index or [])
        else:
            ff = [e for e in log if e[0] == 'ff_result']
            tr['result_pos'] = [self._pos(ex, t) for t in ff[0][2]] if ff else None
        return tr


# ------------------------------------------------------------------------------------------
# exploration driver
# ------------------------------------------------------------------------------------------
def explore(run, checker_factory, label, pool=16, time_budget=None, seed_paths=160):
    """Explore one configuration. Returns dict with plain results."""
    t0 = _time.time()
    h, results, stats = paths.explore_parallel(checker_factory, 'fn', pool, 'on_path',
                                               seed_paths=seed_paths, time_budget=time_budget)
    n_paths = len(results)
    outs = [r[3] for r in results]
    agg = {'label': label, 'paths': n_paths, 'queries': stats['queries'], 'query_s': round(stats['query_s'], 2),
           'wall_s': round(_time.time() - t0, 2), 'decisions': sum(len(r[2]) for r in results),
           'incomplete': stats.get('incomplete', False)}
    return h, outs, agg


def frac(x):
    return fractions.Fraction(x[0], x[1])


def witness_to_spec(kind, cfg, w, **extra):
    spec = {'kind': kind,
            'stamps': [float(frac(x)) for x in w['stamps']],
            'stamps_exact': [str(frac(x)) for x in w['stamps']],
            'step': float(frac(w['step'])), 'step_exact': str(frac(w['step'])),
            'sensors': {k: [float(frac(x)) for x in v] for k, v in w['sensors'].items()},
            'exact_in_binary64': bool(w.get('exact', False)),
            'meas_mode': cfg.get('meas_mode', 'list'),
            'with_altitude': cfg.get('with_altitude', True),
            'with_increments': cfg.get('with_increments', False),
            'default_step': cfg.get('default_step', False),
            'default_models': cfg.get('default_models', False),
            'havoc_add': cfg.get('havoc_add', False),
            'model_states': list(cfg.get('model_states', (0, 0))),
            'time_limit': 20, 'timeout_is_violation': True}
    spec.update(extra)
    return spec


# ------------------------------------------------------------------------------------------
# concrete replay on the real filters (runs in the clean replay subprocess)
# ------------------------------------------------------------------------------------------
def replay_schedule(spec):
    import numpy as np
    import pandas as pd
    from pyins import filters, measurements, inertial_sensor, strapdown
    from pyins.util import TRAJECTORY_COLS
    stamps = np.array(spec['stamps'], dtype=float)
    wa = spec['with_altitude']
    pva0 = pd.Series([50.0, 30.0, 100.0, 1.0, -2.0, 0.0 if not wa else 0.5, 1.0, -2.0, 40.0],
                     index=TRAJECTORY_COLS, name=stamps[0])
    trace = {'meas': [], 'batches': []}
    cls = {'Position': measurements.Position, 'NedVelocity': measurements.NedVelocity,
           'BodyVelocity': measurements.BodyVelocity}
    meas = []
    for name, times in spec['sensors'].items():
        times = np.array(times, dtype=float)
        if name == 'Position':
            data = pd.DataFrame({'hdop': 1.0, 'alt': 100.0, 'lat': 50.0 + 1e-6 * np.arange(len(times)), 'lon': 30.0}, index=times)
            # lever arms make the measurement models read the attitude and the body rates of the predicted state
            m = measurements.Position(data, 5.0, imu_to_antenna_b=np.array([1.0, 0.5, -0.3]))
        elif name == 'NedVelocity':
            data = pd.DataFrame({'VD': 0.1 * np.arange(len(times)), 'VN': 1.0, 'VE': -2.0}, index=times)
            m = measurements.NedVelocity(data, 0.5, imu_to_antenna_b=np.array([1.0, 0.5, -0.3]))
        else:
            data = pd.DataFrame({'VX': 1.0, 'VY': 0.0, 'VZ': 0.1}, index=times)
            m = measurements.BodyVelocity(data, 0.5)
        # the rows of a measurement table need not be in time order (logs concatenated out of
        # order, newest first): the table is looked up by time stamp
        m.data = m.data.iloc[::-1]
        orig = m.compute_matrices

        def rec(time, pva, em, _orig=orig, _name=name, _times=times):
            r = _orig(time, pva, em)
            if r is not None:
                trace['meas'].append([_name, int(np.nonzero(_times == time)[0][0])])
            return r
        m.compute_matrices = rec
        meas.append(m)
    if spec['meas_mode'] == 'none':
        meas = None
    elif spec['meas_mode'] == 'empty':
        meas = []
    ms = spec.get('model_states', [0, 0])
    # with increments the models carry scale/misalignment states, so that the averaged readings
    # (increments / step length) actually enter the system matrix: a zero or negative step length
    # then shows as non-finite output instead of passing silently
    sm = {'scale_misal_sd': 1e-3} if (spec.get('with_increments') or spec['kind'] == 'feedback') and (ms[0] or ms[1]) else {}
    gm = inertial_sensor.EstimationModel(bias_sd=1e-5, noise=1e-6, **sm) if ms[0] else inertial_sensor.EstimationModel()
    am = inertial_sensor.EstimationModel(bias_sd=1e-2, noise=1e-3, **sm) if ms[1] else inertial_sensor.EstimationModel()
    if spec.get('default_models'):
        gm = am = None
    kw = {} if spec.get('default_step') else {'time_step': spec['step']}
    failed = []
    result = None
    detail = {}

    def finite_table(name, t, index_pool):
        ok = True
        v = np.asarray(t.values, dtype=float)
        if v.size and not np.all(np.isfinite(v)):
            failed.append('%s not finite' % name)
            ok = False
        ix = np.asarray(t.index, dtype=float)
        if len(ix) > 1 and not np.all(np.diff(ix) > 0):
            failed.append('%s index not strictly increasing' % name)
            ok = False
        if not np.all(np.isin(ix, index_pool)):
            failed.append('%s index not a subset of the input/trajectory times' % name)
            ok = False
        return ok

    if spec['kind'] == 'feedback':
        dt = np.diff(stamps)
        inc = pd.DataFrame({'dt': dt}, index=pd.Index(stamps[1:], name='time'))
        for j, c in enumerate(['theta_x', 'theta_y', 'theta_z']):
            inc[c] = [1e-5, 2e-5, -1e-5][j] * dt
        for j, c in enumerate(['dv_x', 'dv_y', 'dv_z']):
            inc[c] = [0.01, -0.02, -9.81][j] * dt

        # tables are identified by column NAMES, the altitude flag by its truth value: the replays use a
        # non-canonical column order (and a foreign column in the measurement tables) and a numpy boolean
        inc = inc[['dv_z', 'theta_y', 'dt', 'dv_x', 'theta_x', 'theta_z', 'dv_y']]
        wa = np.bool_(wa)
        orig_int = filters.strapdown.Integrator

        class RecIntegrator(orig_int):
            # a small initial capacity: the few rows of a replay cross buffer-growth boundaries, and a
            # prediction to a measurement epoch happens with the buffer exactly full
            INITIAL_SIZE = 2

            def integrate(self, increments):
                trace['batches'].append(len(increments))
                last_batch['theta'] = np.asarray(increments[['theta_x', 'theta_y', 'theta_z']].values, dtype=float).sum(axis=0)
                last_batch['dv'] = np.asarray(increments[['dv_x', 'dv_y', 'dv_z']].values, dtype=float).sum(axis=0)
                last_batch['dt'] = float(np.asarray(increments['dt'].values, dtype=float).sum())
                return orig_int.integrate(self, increments)
        filters.strapdown.Integrator = RecIntegrator
        # the averaged readings handed to the covariance propagation are the sums of the batch just
        # integrated divided by the LENGTH of that batch (they scale the scale/misalignment columns)
        last_batch = {}
        orig_prop = filters._compute_error_propagation_matrices

        def rec_prop(pva, gyro, accel, time_delta, *a, **k):
            if gyro is not None and last_batch:
                for nm_, got_, sum_ in (('gyro', gyro, last_batch['theta']), ('accel', accel, last_batch['dv'])):
                    want_ = sum_ / last_batch['dt']
                    if got_ is not None and not np.allclose(np.asarray(got_, dtype=float), want_, rtol=1e-9, atol=1e-15):
                        failed.append('averaged %s readings of a propagation step (%s) are not the sum of the integrated batch divided by its length %.6g (%s)' % (
                            nm_, np.asarray(got_, dtype=float).tolist(), last_batch['dt'], want_.tolist()))
                if abs(float(time_delta) - last_batch['dt']) > 1e-12 * max(1.0, abs(last_batch['dt'])):
                    failed.append('propagation interval %.17g differs from the length of the integrated batch %.17g' % (float(time_delta), last_batch['dt']))
            return orig_prop(pva, gyro, accel, time_delta, *a, **k)
        filters._compute_error_propagation_matrices = rec_prop
        try:
            result = filters.run_feedback_filter(pva0, 10.0, 1.0, 1.0, 1.0, inc, gyro_model=gm, accel_model=am,
                                                 measurements=meas, with_altitude=wa, **kw)
        except Exception as e:      # noqa: BLE001
            failed.append('exception %s: %s' % (type(e).__name__, str(e)[:200]))
        finally:
            filters.strapdown.Integrator = orig_int
            filters._compute_error_propagation_matrices = orig_prop
        if result is not None:
            ti = np.asarray(result.trajectory.index, dtype=float)
            if len(ti) != len(stamps) or not np.array_equal(ti, stamps):
                failed.append('trajectory index != start + every increment time once (%d rows for %d stamps)' % (len(ti), len(stamps)))
            if not np.all(np.isfinite(np.asarray(result.trajectory.values, dtype=float))):
                failed.append('trajectory not finite')
            for name in ('trajectory_sd', 'gyro', 'gyro_sd', 'accel', 'accel_sd'):
                finite_table(name, result[name], ti)
            trace['n_results'] = len(result.gyro)
            lo, hi = stamps[0], stamps[-1]
            if not wa:
                # no-altitude mode: vertical velocity exactly zero, altitude frozen at the initial
                # one (a 2D correction changes neither), reported vertical sd exactly zero
                tr = result.trajectory
                if np.any(np.asarray(tr['VD'].values, dtype=float) != 0.0):
                    failed.append('2D: a trajectory row has VD != 0 (max |VD| %.3g)' % np.abs(tr['VD'].values).max())
                if np.any(np.asarray(tr['alt'].values, dtype=float) != float(pva0['alt'])):
                    failed.append('2D: altitude of a trajectory row differs from the initial altitude (max diff %.3g)' % np.abs(tr['alt'].values - pva0['alt']).max())
                sd = result.trajectory_sd
                for c in ('down', 'VD'):
                    if c in sd.columns and np.any(np.asarray(sd[c].values, dtype=float) != 0.0):
                        failed.append('2D: reported sd of %s is not exactly zero' % c)
    else:
        n = len(stamps)
        rows = np.tile(pva0.values, (n, 1))
        rows[:, 0] += 1e-6 * np.arange(n)
        nominal = pd.DataFrame(rows, index=pd.Index(stamps, name='time'), columns=TRAJECTORY_COLS)
        computed = nominal.copy()
        computed['lat'] += 1e-6
        inc = None
        if spec.get('with_increments'):
            dt = np.diff(stamps)
            inc = pd.DataFrame({'dt': dt}, index=pd.Index(stamps[1:], name='time'))
            for j, c in enumerate(['theta_x', 'theta_y', 'theta_z']):
                inc[c] = [1e-5, 2e-5, -1e-5][j] * dt
            for j, c in enumerate(['dv_x', 'dv_y', 'dv_z']):
                inc[c] = [0.01, -0.02, -9.81][j] * dt
            inc = inc[['dv_z', 'theta_y', 'dt', 'dv_x', 'theta_x', 'theta_z', 'dv_y']]
        wa = np.bool_(wa)
        try:
            result = filters.run_feedforward_filter(nominal, computed, 10.0, 1.0, 1.0, 1.0, gyro_model=gm,
                                                    accel_model=am, measurements=meas, increments=inc,
                                                    with_altitude=wa, **kw)
        except Exception as e:      # noqa: BLE001
            failed.append('exception %s: %s' % (type(e).__name__, str(e)[:200]))
        if result is not None:
            ri = np.asarray(result.trajectory.index, dtype=float)
            for name in ('trajectory', 'trajectory_sd', 'gyro', 'gyro_sd', 'accel', 'accel_sd'):
                finite_table(name, result[name], stamps)
            if len(ri) == 0 or ri[0] != stamps[0]:
                failed.append('result index does not start at the first input time')
            pos = [int(np.nonzero(stamps == t)[0][0]) for t in ri if t in stamps]
            trace['result_pos'] = pos
            if not spec.get('default_step'):
                for a, b in zip(pos, pos[1:]):
                    if b > a + 1 and stamps[b] - stamps[a] > spec['step'] * (1 + 1e-12):
                        failed.append('step from row %d to %d exceeds max(time_step, local gap)' % (a, b))
            lo, hi = stamps[0], stamps[-1]
    if result is not None and spec['meas_mode'] == 'list':
        for name, times in spec['sensors'].items():
            times = np.array(times, dtype=float)
            expected = times[(times >= lo) & (times < hi)]
            df = result.innovations.get(name)
            if df is None:
                failed.append('no innovations table for %s' % name)
                continue
            got = np.asarray(df.index, dtype=float)
            if spec['kind'] == 'feedback':
                if len(got) != len(expected) or not np.array_equal(got, expected):
                    failed.append('innovations[%s] stamps %s != in-span sample times %s' % (name, got.tolist(), expected.tolist()))
            else:
                if len(got) != len(expected):
                    failed.append('innovations[%s] has %d rows for %d in-span samples' % (name, len(got), len(expected)))
            if df.values.size and not np.all(np.isfinite(np.asarray(df.values, dtype=float))):
                failed.append('innovations[%s] not finite' % name)
            used = [j for n_, j in trace['meas'] if n_ == name]
            exp_j = [int(j) for j in np.nonzero((times >= lo) & (times < hi))[0]]
            if used != exp_j:
                failed.append('%s samples processed %s, expected each in-span sample once in order %s' % (name, used, exp_j))
    return {'violated': bool(failed), 'failed': failed, 'trace': trace}
