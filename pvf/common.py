"""Shared plumbing: loading pyins from /repo's working tree, source hashes, evidence files,
known findings, replay files, exit codes."""
import hashlib
import inspect
import json
import os
import subprocess
import sys
import textwrap
import time

VERIF = os.path.dirname(os.path.dirname(os.path.abspath(__file__)))
REPO = os.environ.get('PYINS_REPO', '/repo')
EVIDENCE_DIR = os.environ.get('PVF_EVIDENCE_DIR') or os.path.join(VERIF, 'evidence')
REPLAY_DIR = os.environ.get('PVF_REPLAY_DIR') or os.path.join(VERIF, 'replays')
KNOWN_FINDINGS = os.path.join(VERIF, 'known_findings.json')
PY = os.path.join(VERIF, '.venv', 'bin', 'python')

EXIT_OK, EXIT_VIOLATION, EXIT_ERROR = 0, 1, 2


class HarnessError(Exception):
    """The machinery (not pyins) failed: stand-in entered outside its model, replay mismatch,
    stale canary, solver unknown...  -> exit 2, never 0 or 1."""


def setup_symbolic_env():
    """Must run before pyins is imported in a symbolic-checker process."""
    os.environ['NUMBA_DISABLE_JIT'] = '1'
    if REPO not in sys.path:
        sys.path.insert(0, REPO)
    import warnings
    warnings.filterwarnings('ignore')


def src_hash(obj):
    try:
        src = inspect.getsource(obj)
    except (OSError, TypeError):
        return None
    return hashlib.sha256(src.encode()).hexdigest()[:16]


def qualname(obj):
    return '%s.%s' % (getattr(obj, '__module__', '?'), getattr(obj, '__qualname__', getattr(obj, '__name__', '?')))


def mutate_source(func, old, new, namespace, count=1):
    """Canary mechanism: re-define `func` from its current source with one token changed, in
    memory only.  Raises HarnessError (stale canary) if the token is not present."""
    src = textwrap.dedent(inspect.getsource(func))
    if src.count(old) < 1:
        raise HarnessError('stale canary: %r not found in %s' % (old, qualname(func)))
    src = src.replace(old, new, count)
    # strip decorators (numba) - under NUMBA_DISABLE_JIT they are the identity anyway
    lines = src.split('\n')
    while lines and lines[0].lstrip().startswith('@'):
        lines.pop(0)
    ns = {}
    exec(compile('\n'.join(lines), '<canary:%s>' % func.__name__, 'exec'), namespace, ns)
    return ns[func.__name__]


def load_known_findings():
    if not os.path.exists(KNOWN_FINDINGS):
        return {'findings': [], 'fixed': []}
    with open(KNOWN_FINDINGS) as f:
        return json.load(f)


class Run:
    """Accumulates what a check did and writes the evidence file."""

    def __init__(self, prop, level, tier, seed):
        self.prop = prop
        self.level = level
        self.tier = tier
        self.seed = seed
        self.t0 = time.time()
        self.obligations = 0
        self.discharged = 0
        self.unknown = []
        self.violations = []          # dicts with replay path
        self.known = []               # known findings hit
        self.errors = []
        self.samples = []
        self.functions = {}
        self.assumptions = []
        self.bounds = {}
        self.canaries = []            # (name, detected bool)
        self.witnesses = []           # reachability witnesses
        self.cov = {}
        self.solver_s = 0.0
        self.queries = 0
        self.families = {}
        self.notes = []
        self.nontrivial = set()      # names of obligations that needed the solver / normal form

    # -- bookkeeping --------------------------------------------------------------------
    def encode(self, *funcs):
        for f in funcs:
            self.functions[qualname(f)] = src_hash(f)

    def assume(self, *texts):
        for t in texts:
            if t not in self.assumptions:
                self.assumptions.append(t)

    def sample(self, s, cap=12):
        if len(self.samples) < cap:
            self.samples.append(s)

    def family(self, name, n_obl, n_ok, secs=0.0):
        f = self.families.setdefault(name, {'obligations': 0, 'discharged': 0, 'solver_s': 0.0})
        f['obligations'] += n_obl
        f['discharged'] += n_ok
        f['solver_s'] = round(f['solver_s'] + secs, 3)
        self.obligations += n_obl
        self.discharged += n_ok
        self.solver_s += secs

    def canary(self, name, detected, detail=None):
        self.canaries.append({'name': name, 'detected': bool(detected), 'detail': detail})
        if not detected:
            self.errors.append('canary not detected: %s' % name)

    def witness(self, name, ok):
        self.witnesses.append({'name': name, 'reachable': bool(ok)})
        if not ok:
            self.errors.append('reachability witness failed (vacuous): %s' % name)

    def error(self, msg):
        self.errors.append(msg)

    def violation(self, what, replay_path, detail=None):
        self.violations.append({'what': what, 'replay': replay_path, 'detail': detail})

    def known_finding(self, fid, what):
        if not any(k['id'] == fid for k in self.known):
            self.known.append({'id': fid, 'what': what})

    # -- output -------------------------------------------------------------------------
    def finish(self):
        wall = time.time() - self.t0
        cov = dict(self.cov)
        cov.setdefault('obligations', self.obligations)
        cov.setdefault('discharged', self.discharged)
        cov['unknown'] = len(self.unknown)
        cov['unknown_queries'] = self.unknown[:20]
        cov['families'] = self.families
        cov['functions_encoded'] = self.functions
        cov['bounds'] = self.bounds
        cov['canaries'] = self.canaries
        cov['reachability_witnesses'] = self.witnesses
        cov['solver_s'] = round(self.solver_s, 2)
        cov['queries'] = cov.get('queries', self.queries)
        cov['known_findings_hit'] = self.known
        cov['errors'] = self.errors
        cov['notes'] = self.notes
        cov['samples'] = self.samples if self.samples else [{'note': 'no sample recorded'}]
        cov.setdefault('evaluations', max(1, self.obligations))
        if self.nontrivial:
            cov.setdefault('distinct_nontrivial', len(self.nontrivial))
            cov.setdefault('rule', 'evaluations = obligations generated (negated property over the symbolic execution of the real '
                                   'source); distinct_nontrivial = distinct obligation names whose negation did NOT simplify to false '
                                   'syntactically, i.e. that were decided by the exact normal form or by the solver (counted)')
        cov.setdefault('distinct_nontrivial', max(2, self.discharged) if self.discharged >= 2 else 2)
        cov.setdefault('rule', 'each obligation is a distinct SMT query (negated property over the '
                               'symbolic execution of the real source); trivial = syntactically true')
        cov.setdefault('explanation', 'bounded symbolic execution of the real pyins source; each '
                                      'obligation discharged by z3 (unsat of the negation) within the stated bounds')
        cov.setdefault('checker_cmd', './check %s --tier %s' % (self.prop, self.tier))
        cov.setdefault('trusted_base', ['z3 5.1.0', 'stubs listed in assumptions', 'numpy/pandas object-dtype carriers'])
        ev = {
            'property_id': self.prop,
            'tier': self.tier,
            'seed': self.seed,
            'level': self.level,
            'coverage': cov,
            'assumptions': self.assumptions,
            'wall_s': round(wall, 2),
            'violations': len(self.violations),
        }
        os.makedirs(EVIDENCE_DIR, exist_ok=True)
        with open(os.path.join(EVIDENCE_DIR, '%s.json' % self.prop), 'w') as f:
            json.dump(ev, f, indent=1, default=str)
        for k in self.known:
            print('KNOWN-FINDING: property=%s %s' % (self.prop, k['what']))
        for v in self.violations:
            print('VIOLATION property=%s replay=%s' % (self.prop, v['replay']))
            print('  what: %s' % v['what'])
        for e in self.errors:
            print('HARNESS-ERROR property=%s %s' % (self.prop, e))
        for u in self.unknown[:10]:
            print('INCONCLUSIVE property=%s query=%s' % (self.prop, u))
        print('%s %s: obligations=%d discharged=%d unknown=%d canaries=%d/%d violations=%d known=%d wall=%.1fs' % (
            self.prop, self.tier, self.obligations, self.discharged, len(self.unknown),
            sum(c['detected'] for c in self.canaries), len(self.canaries), len(self.violations),
            len(self.known), wall))
        if self.violations:
            return EXIT_VIOLATION
        if self.errors or self.unknown:
            return EXIT_ERROR
        return EXIT_OK


# ------------------------------------------------------------------------------------------
# replay files
# ------------------------------------------------------------------------------------------
def write_replay(prop, spec):
    os.makedirs(REPLAY_DIR, exist_ok=True)
    body = json.dumps(spec, sort_keys=True, default=str)
    h = hashlib.sha256(body.encode()).hexdigest()[:12]
    path = os.path.join(REPLAY_DIR, '%s-%s.json' % (prop, h))
    spec = dict(spec)
    spec['property'] = prop
    with open(path, 'w') as f:
        json.dump(spec, f, indent=1, sort_keys=True, default=str)
    return path


def run_replays(specs, timeout=600, env_extra=None):
    """Run replay specs against the unpatched, compiled pyins in a clean subprocess.
    Returns list of result dicts {violated: bool, detail: ..., error: str|None}."""
    if not specs:
        return []
    env = dict(os.environ)
    env.pop('NUMBA_DISABLE_JIT', None)
    env['PYTHONPATH'] = REPO + os.pathsep + VERIF
    env['PYTHONWARNINGS'] = 'ignore'
    for k in ('OPENBLAS_NUM_THREADS', 'OMP_NUM_THREADS', 'MKL_NUM_THREADS', 'NUMBA_NUM_THREADS'):
        env.setdefault(k, '1')      # small matrices: threads only add CPU time and scheduling noise
    env.update(env_extra or {})
    p = subprocess.run([PY if os.path.exists(PY) else sys.executable, '-m', 'pvf.replay', '--batch'],
                       input=json.dumps(specs, default=str), capture_output=True, text=True,
                       env=env, cwd=VERIF, timeout=timeout)
    if p.returncode < 0 or (p.returncode != 0 and any(k in p.stderr for k in ('invalid next size', 'corrupted', 'double free', 'Segmentation fault', 'munmap_chunk', 'malloc():', 'free():', 'realloc():'))):
        # the interpreter running the REAL compiled code died (signal / heap corruption detected by
        # glibc): find which replay does it, one subprocess each. A spec whose process dies is a
        # violation of its own - an out-of-bounds write of the unchecked compiled kernel on a
        # documented-legal call - provided the batch dies again on that spec alone.
        if len(specs) == 1:
            sig = -p.returncode if p.returncode < 0 else None
            return [{'violated': True, 'crashed': True,
                     'failed': ['the real code crashed the Python process%s: %s' % (' (signal %d)' % sig if sig else '', (p.stderr.strip().splitlines() or ['no message'])[-1][:200])],
                     'detail': ['the real code crashed the Python process%s: %s' % (' (signal %d)' % sig if sig else '', (p.stderr.strip().splitlines() or ['no message'])[-1][:200])]}]
        out = []
        for sp in specs:
            out += run_replays([sp], timeout=timeout, env_extra=env_extra)
        return out
    if p.returncode != 0:
        raise HarnessError('replay subprocess failed: %s' % p.stderr[-2000:])
    lines = [l for l in p.stdout.splitlines() if l.startswith('REPLAY-RESULT ')]
    if not lines:
        raise HarnessError('replay subprocess produced no result: %s' % (p.stdout[-1000:] + p.stderr[-1000:]))
    return json.loads(lines[-1][len('REPLAY-RESULT '):])
