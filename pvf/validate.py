"""Generic translator validation / numeric replay helpers that run in the clean replay
subprocess against the unpatched, compiled pyins."""
import importlib

import numpy as np


def resolve(dotted):
    mod, _, name = dotted.rpartition('.')
    parts = mod.split('.')
    # allow Class.method
    try:
        m = importlib.import_module(mod)
        return getattr(m, name)
    except ImportError:
        m = importlib.import_module('.'.join(parts[:-1]))
        return getattr(getattr(m, parts[-1]), name)


def to_arg(a):
    import pandas as pd
    if isinstance(a, dict) and a.get('__kind__') == 'series':
        return pd.Series(a['data'], index=a['index'], name=a.get('name'), dtype=float)
    if isinstance(a, dict) and a.get('__kind__') == 'frame':
        return pd.DataFrame(a['data'], index=a['index'], columns=a['columns'], dtype=float)
    if isinstance(a, dict) and a.get('__kind__') == 'array':
        return np.array(a['data'], dtype=float)
    if isinstance(a, list):
        return np.array(a, dtype=float)
    return a


def run_validate(spec):
    """spec: {cases: [{func, args, kwargs, expected, rtol, atol}]}"""
    bad = []
    for c in spec['cases']:
        f = resolve(c['func'])
        args = [to_arg(a) for a in c.get('args', [])]
        kwargs = {k: to_arg(v) for k, v in c.get('kwargs', {}).items()}
        got = f(*args, **kwargs)
        if isinstance(got, tuple):
            got = [np.asarray(g, dtype=float).tolist() for g in got]
            exp = c['expected']
            ok = all(np.allclose(np.asarray(g, dtype=float), np.asarray(e, dtype=float), rtol=c.get('rtol', 1e-9), atol=c.get('atol', 1e-12))
                     for g, e in zip(got, exp))
        else:
            got = np.asarray(got, dtype=float)
            exp = np.asarray(c['expected'], dtype=float)
            ok = got.shape == exp.shape and np.allclose(got, exp, rtol=c.get('rtol', 1e-9), atol=c.get('atol', 1e-12))
            got = got.tolist()
        if not ok:
            bad.append({'func': c['func'], 'args': c.get('args'), 'expected': c['expected'], 'got': got})
    return {'violated': False, 'mismatch': bad, 'n': len(spec['cases'])}
