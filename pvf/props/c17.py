"""C17 - attitude representations and rotation primitives are consistent (engine A)."""
import math

LEVEL = 'other'
PROP = 'C17'


def _textbook_dcm(sr, cr, sp, cp, sh, ch):
    """body->NED DCM for roll/pitch/heading, aerospace convention (Groves 2.22 transposed)"""
    return [[cp * ch, -cr * sh + sr * sp * ch, sr * sh + cr * sp * ch],
            [cp * sh, cr * ch + sr * sp * sh, -sr * ch + cr * sp * sh],
            [-sp, sr * cp, cr * cp]]


# ------------------------------------------------------------------------------------------
def section_euler(rep, mutate=None):
    """mat_from_rph = Rz(h)Ry(p)Rx(r), proper rotation; mat_to_rph inverts it"""
    import numpy as np
    import z3
    from .. import symreal as S, enga
    S.new_ctx()
    S.C.match_inverse_trig = True
    m = enga.install()
    T = m['T']
    if mutate:
        mutate(m)
    r = S.declare_angle('roll', -360, 360)
    p = S.declare_angle('pitch', -89, 89)
    h = S.declare_angle('heading', -360, 360)
    sr, cr = r.deg2rad().sin(), r.deg2rad().cos()
    sp, cp = p.deg2rad().sin(), p.deg2rad().cos()
    sh, ch = h.deg2rad().sin(), h.deg2rad().cos()
    M = T.mat_from_rph(S.O([r, p, h]))
    ref = _textbook_dcm(sr, cr, sp, cp, sh, ch)
    obls = []
    for i in range(3):
        for j in range(3):
            obls.append(enga.zero('mat_from_rph[%d,%d] = textbook body->NED DCM' % (i, j), S.J(M[i, j]) - ref[i][j],
                                  'euler convention', meta={'check': 'rph_matrix'}))
    MMt = np.dot(M, M.T)
    for i in range(3):
        for j in range(i, 3):
            obls.append(enga.zero('(C C^T)[%d,%d] = I' % (i, j), S.J(MMt[i, j]) - (1 if i == j else 0), 'proper rotation',
                                  meta={'check': 'proper'}))
    from ..symlinalg import det
    obls.append(enga.zero('det C = 1', det(M) - 1, 'proper rotation', meta={'check': 'proper'}))
    # images of the body axes: nose (x) points along heading/pitch, right wing (y) goes down with positive roll
    ex = np.dot(M, S.O([1, 0, 0]))
    obls.append(enga.zero('nose north component = cos p cos h', S.J(ex[0]) - cp * ch, 'axis images', meta={'check': 'rph_matrix'}))
    obls.append(enga.zero('nose east component = cos p sin h (heading from north towards east)', S.J(ex[1]) - cp * sh, 'axis images', meta={'check': 'rph_matrix'}))
    obls.append(enga.zero('nose down component = -sin p (pitch positive nose-up)', S.J(ex[2]) + sp, 'axis images', meta={'check': 'rph_matrix'}))
    ey = np.dot(M, S.O([0, 1, 0]))
    obls.append(enga.zero('right wing down component = sin r cos p (roll positive right-wing-down)', S.J(ey[2]) - sr * cp, 'axis images', meta={'check': 'rph_matrix'}))
    # round trip through the real mat_to_rph
    back = T.mat_to_rph(M)
    for k, (nm, a) in enumerate((('roll', r), ('pitch', p), ('heading', h))):
        obls.append(enga.zero('mat_to_rph(mat_from_rph(a)).%s = %s' % (nm, nm), S.J(back[k]) - a, 'round trip', meta={'check': 'roundtrip'}))
    # stacked = single
    M2 = T.mat_from_rph(S.O([[r, p, h], [h, p, r]]))
    Mb = T.mat_from_rph(S.O([h, p, r]))
    for i in range(3):
        for j in range(3):
            obls.append(enga.zero('stacked mat_from_rph row0 [%d,%d] = single' % (i, j), S.J(M2[0][i, j]) - S.J(M[i, j]), 'stacked = single', meta={'check': 'stacked'}))
            obls.append(enga.zero('stacked mat_from_rph row1 [%d,%d] = single' % (i, j), S.J(M2[1][i, j]) - S.J(Mb[i, j]), 'stacked = single', meta={'check': 'stacked'}))
    rep.run.encode(T.mat_from_rph, T.mat_to_rph)
    return obls, {'M': M, 'vars': ['roll', 'pitch', 'heading']}


def section_rotvec_trig(rep, mutate=None):
    """trig branch of the kernel's mat_from_rotvec: characterisation of exp([v x])"""
    import numpy as np
    import z3
    from .. import symreal as S, enga, paths
    from ..symlinalg import det
    S.new_ctx()
    m = enga.install()
    K = m['K']
    if mutate:
        mutate(m)
    v = S.O([S.var('v0'), S.var('v1'), S.var('v2')])
    n2z = z3.Real('v0') * z3.Real('v0') + z3.Real('v1') * z3.Real('v1') + z3.Real('v2') * z3.Real('v2')
    S.C.dom += [z3.Real(n) >= -4 for n in ('v0', 'v1', 'v2')] + [z3.Real(n) <= 4 for n in ('v0', 'v1', 'v2')]
    results = {}
    since = len(S.C.divs)

    def body():
        R = S.symnp.empty((3, 3))
        K.mat_from_rotvec(v, R)
        return R
    ex = paths.Exec(S.C.dom)
    res, _ = ex.run(body)
    section_rotvec_trig.defined = enga.definedness(S.C, since, 'rotvec: every divisor is non-zero on its branch', {'check': 'rotvec'}, 'mat_from_rotvec: ')
    out = []
    for pr in res:
        if pr.status != 'ok':
            raise RuntimeError('mat_from_rotvec path failed: %s' % (pr.out,))
        out.append((pr.decisions, pr.pc, pr.out))
    rep.run.encode(K.mat_from_rotvec)
    return out, v, n2z


def obligations_trig(R, v, pc):
    import numpy as np
    import z3
    from .. import symreal as S, enga
    from ..symlinalg import det
    n2 = v[0] * v[0] + v[1] * v[1] + v[2] * v[2]
    n = n2.sqrt()
    s, c = n.sin(), n.cos()
    extra = list(pc)
    obls = []
    RRt = np.dot(R, R.T)
    for i in range(3):
        for j in range(i, 3):
            obls.append(enga.zero('trig branch: (R R^T)[%d,%d] = I' % (i, j), S.J(RRt[i, j]) - (1 if i == j else 0), 'rotvec trig branch', extra, {'check': 'rotvec'}))
    obls.append(enga.zero('trig branch: det R = 1', det(R) - 1, 'rotvec trig branch', extra, {'check': 'rotvec'}))
    Rv = np.dot(R, v)
    for i in range(3):
        obls.append(enga.zero('trig branch: (R v)[%d] = v (axis invariant)' % i, S.J(Rv[i]) - v[i], 'rotvec trig branch', extra, {'check': 'rotvec'}))
    obls.append(enga.zero('trig branch: trace R = 1 + 2 cos|v|', S.J(R[0, 0]) + R[1, 1] + R[2, 2] - 1 - 2 * c, 'rotvec trig branch', extra, {'check': 'rotvec'}))
    sk = [(2, 1, 0), (0, 2, 1), (1, 0, 2)]
    for (i, j, k) in sk:
        # R - R^T = 2 (sin n / n) [v x]   ->  (R[i,j]-R[j,i]) * n = 2 s v_k
        obls.append(enga.zero('trig branch: (R-R^T)[%d,%d] |v| = 2 sin|v| v[%d] (rotation sense)' % (i, j, k),
                              (S.J(R[i, j]) - R[j, i]) * n - 2 * s * v[k], 'rotvec trig branch', extra, {'check': 'rotvec'}))
    return obls


def obligations_taylor(R, v, pc):
    """Taylor branch (|v|^2 <= 1e-6): each entry within 1e-18 of exp([v x]) written with the true
    cos n, sin(n)/n, (1-cos n)/n^2, which lie within their alternating Taylor enclosures:
    true = polynomial - d with 0 <= d <= n^6/720 (resp. /5040, /40320).
    Decomposed (the coupled query is `unknown` for nlsat): (L1) the branch condition bounds each
    component, (L2) it bounds each remainder d, (L3) over that box every entry's residual is
    within 1e-18."""
    import z3
    from .. import symreal as S, enga
    import fractions
    Fr = fractions.Fraction
    vv = [z3.Real('v0'), z3.Real('v1'), z3.Real('v2')]
    n2 = vv[0] * vv[0] + vv[1] * vv[1] + vv[2] * vv[2]
    dc, d1, d2 = z3.Real('d_cos'), z3.Real('d_k1'), z3.Real('d_k2')
    n4 = n2 * n2
    ct = 1 - n2 / 2 + n4 / 24 - dc
    k1t = 1 - n2 / 6 + n4 / 120 - d1
    k2t = S.rat(Fr(1, 2)) - n2 / 24 + n4 / 720 - d2
    obls = []
    mm = S.rat(Fr(1, 1000))
    for i in range(3):
        obls.append(enga.holds('taylor branch L1: branch condition implies |v[%d]| <= 1e-3' % i,
                               z3.And(vv[i] <= mm, vv[i] >= -mm), 'rotvec taylor branch', list(pc), {'check': 'rotvec', 'use_model': True}))
    N2 = z3.Real('N2')
    for nm, dv, den in (('cos', dc, 720), ('k1', d1, 5040), ('k2', d2, 40320)):
        obls.append(enga.holds('taylor branch L2: remainder of %s <= 1e-18/%d' % (nm, den),
                               dv <= S.rat(Fr(1, den * 10**18)), 'rotvec taylor branch',
                               [N2 >= 0, N2 <= S.rat(Fr(1, 10**6)), dv >= 0, dv <= N2 * N2 * N2 / den], {'check': 'rotvec'}))
    box = [x <= mm for x in vv] + [x >= -mm for x in vv] + [
        dc >= 0, d1 >= 0, d2 >= 0, dc <= S.rat(Fr(1, 720 * 10**18)), d1 <= S.rat(Fr(1, 5040 * 10**18)), d2 <= S.rat(Fr(1, 40320 * 10**18))]
    sgn = {(0, 1): (-1, 2), (0, 2): (1, 1), (1, 0): (1, 2), (1, 2): (-1, 0), (2, 0): (-1, 1), (2, 1): (1, 0)}
    tol = S.rat(Fr(1, 10**18))
    for i in range(3):
        for j in range(3):
            if i == j:
                t = k2t * vv[i] * vv[i] + ct
            else:
                sg, k = sgn[(i, j)]
                t = k2t * vv[i] * vv[j] + sg * k1t * vv[k]
            d = z3.simplify(S.J(R[i, j]).c0 - t, som=True)
            ob = enga.holds('taylor branch L3: |R[%d,%d] - exp([v x])[%d,%d]| <= 1e-18 over the box' % (i, j, i, j),
                            z3.And(d <= tol, d >= -tol), 'rotvec taylor branch', box,
                            {'check': 'rotvec', 'tol': 1e-18, 'box': {'v0': (-5.7e-4, 5.7e-4), 'v1': (-5.7e-4, 5.7e-4), 'v2': (-5.7e-4, 5.7e-4)}})
            ob.expr = d
            obls.append(ob)
    return obls


def section_phi(rep, mutate=None):
    """_phi_to_delta_rph is the derivative of the Euler angles w.r.t. a small platform rotation"""
    import numpy as np
    import z3
    from .. import symreal as S, enga
    S.new_ctx([("eps", 1)])
    S.C.match_inverse_trig = True
    m = enga.install()
    T, EM = m['T'], m['EM']
    if mutate:
        mutate(m)
    eps = S.formal(0)
    r = S.declare_angle('roll', -360, 360)
    p = S.declare_angle('pitch', -89, 89)
    h = S.declare_angle('heading', -360, 360)
    rph = S.O([r, p, h])
    phi = S.O([S.var('phi0'), S.var('phi1'), S.var('phi2')])
    S.C.dom += [z3.Real('phi%d' % i) >= -1 for i in range(3)] + [z3.Real('phi%d' % i) <= 1 for i in range(3)]
    Cm = T.mat_from_rph(rph)
    from ..symscipy import Rot
    mat_tp = Rot.from_rotvec(S.O([x * eps for x in phi])).as_matrix()
    rph2 = T.mat_to_rph(np.dot(mat_tp, Cm))
    Mphi = EM._phi_to_delta_rph(rph)
    pred = np.dot(Mphi, phi)
    obls = []
    for k, nm in enumerate(('roll', 'pitch', 'heading')):
        obls.append(enga.zero('order 0: %s unchanged' % nm, S.J(rph2[k]).part(0) - rph[k], 'phi -> delta rph', meta={'check': 'phi_delta'}))
        obls.append(enga.zero('d(%s)/d eps of rph(C) - rph(exp(eps[phi x])C) = (_phi_to_delta_rph phi)[%d]' % (nm, k),
                              -S.J(rph2[k]).part(1) - S.J(pred[k]), 'phi -> delta rph', meta={'check': 'phi_delta'}))
    # stacked = single
    M2 = EM._phi_to_delta_rph(S.O([[r, p, h], [r, p, h]]))
    for i in range(3):
        for j in range(3):
            obls.append(enga.zero('_phi_to_delta_rph stacked[1][%d,%d] = single' % (i, j), S.J(M2[1][i, j]) - S.J(Mphi[i, j]), 'stacked = single', meta={'check': 'stacked'}))
    rep.run.encode(EM._phi_to_delta_rph)
    return obls


# ------------------------------------------------------------------------------------------
CANARIES = [
    ('mat_from_rph uses intrinsic axes', 'euler', ('T', 'mat_from_rph', "'xyz'", "'XYZ'")),
    ('mat_from_rph ignores degrees', 'euler', ('T', 'mat_from_rph', 'degrees=True', 'degrees=False')),
    ('mat_to_rph uses another sequence convention', 'euler_back', ('T', 'mat_from_rph', "'xyz'", "'zyx'")),
    ('rotvec sign of an off-diagonal term', 'rotvec', ('K', 'mat_from_rotvec', 'mat[0, 1] = k2 * rv[0] * rv[1] - k1 * rv[2]', 'mat[0, 1] = k2 * rv[0] * rv[1] + k1 * rv[2]')),
    ('rotvec taylor coefficient', 'rotvec', ('K', 'mat_from_rotvec', 'k2 = 0.5 - norm2 / 24 + norm4 / 720', 'k2 = 0.5 - norm2 / 12 + norm4 / 720')),
    ('rotvec k2 uses norm instead of norm2', 'rotvec', ('K', 'mat_from_rotvec', 'k2 = (1 - np.cos(norm)) / norm2', 'k2 = (1 - np.cos(norm)) / norm')),
    ('phi matrix sign', 'phi', ('EM', '_phi_to_delta_rph', 'result[:, 1, 1] = -cos[:, 2]', 'result[:, 1, 1] = cos[:, 2]')),
    ('phi matrix missing 1/cos(pitch)', 'phi', ('EM', '_phi_to_delta_rph', 'result[:, 0, 0] = -cos[:, 2] / cos[:, 1]', 'result[:, 0, 0] = -cos[:, 2]')),
]


def _mut(spec):
    from .. import common
    modk, fname, old, new = spec

    def mutate(m):
        mod = m[modk]
        from .. import enga
        enga._save(mod, fname)
        orig = enga._ORIG[(mod.__name__, fname)][1]
        setattr(mod, fname, common.mutate_source(orig, old, new, mod.__dict__))
    return mutate


def _rotvec_all(rep, mutate=None):
    paths_, v, n2z = section_rotvec_trig(rep, mutate)
    obls = []
    kinds = set()
    for dec, pc, R in paths_:
        if dec and dec[0]:
            obls += obligations_trig(R, v, pc)
            kinds.add('trig')
        else:
            obls += obligations_taylor(R, v, pc)
            kinds.add('taylor')
    obls += section_rotvec_trig.defined
    return obls, kinds


def run(run):
    from .. import enga, common
    from .. import symreal as S
    rep = enga.AReport(run, box={'roll': (-360, 360), 'pitch': (-88, 88), 'heading': (-360, 360),
                                 'v0': (-2, 2), 'v1': (-2, 2), 'v2': (-2, 2), 'phi0': (-1, 1), 'phi1': (-1, 1), 'phi2': (-1, 1)},
                       consts={'d_cos': 0.0, 'd_k1': 0.0, 'd_k2': 0.0})
    run.assume('exact real arithmetic: the 1e-16-level cancellation in (1-cos n)/n^2 just above the branch threshold is a rounding effect and outside',
               'Rotation.from_euler/from_matrix/as_euler/from_rotvec are stubs of the scipy contract (product of elementary rotations; angle recovery by atan2), differentially tested against scipy in the validation step',
               'sin/cos relaxed to pairs with s^2+c^2=1 (one pair per canonical angle); |pitch| <= 89 deg, roll/heading in [-180,180] (360-periodicity of the matrix is syntactic: only sin/cos of the angles occur)',
               'Taylor-branch accuracy uses the alternating-series enclosures of cos n, sin(n)/n, (1-cos n)/n^2 for n^2 <= 1e-6 as assumed facts')
    sections = []
    if not run.only or run.only == 'euler':
        obls, info = section_euler(rep)
        bad = rep.batch(obls)
        finish_bad(rep, bad)
        validate_euler(rep, info)
    if not run.only or run.only == 'rotvec':
        obls, kinds = _rotvec_all(rep)
        run.witness('mat_from_rotvec forks into both branches', kinds == {'trig', 'taylor'})
        bad = rep.batch(obls)
        finish_bad(rep, bad)
    if not run.only or run.only == 'phi':
        try:
            obls = section_phi(rep)
            bad = rep.batch(obls)
            finish_bad(rep, bad)
        except S.SymbolicBranch:
            # the function branches on a symbolic value (it does not in the unmodified tree): every
            # outcome is explored, the obligations of a path hold under its path condition
            for obls_p, ctx_p in enga.section_paths(lambda: section_phi(rep)):
                S.set_ctx(ctx_p)
                finish_bad(rep, rep.batch(obls_p, ctx=ctx_p))
    # reachability witness: constraints alone satisfiable
    import z3
    s = z3.Solver()
    s.add(S.C.cons)
    s.add(S.C.dom)
    run.witness('constraint set satisfiable', s.check() == z3.sat)
    # canaries
    if not run.only:
        for name, sec, spec in CANARIES:
            try:
                if sec in ('euler', 'euler_back'):
                    obls, _ = section_euler(rep, _mut(spec))
                elif sec == 'rotvec':
                    obls, _k = _rotvec_all(rep, _mut(spec))
                else:
                    obls = section_phi(rep, _mut(spec))
            except common.HarnessError as e:
                run.canary(name, False, str(e))
                continue
            rep.canary(name, obls)
        enga.restore()
    run.bounds.update({'series order': 'eps^1 for the phi matrix', 'domain': '|pitch| <= 89 deg; rotation vectors with |v_i| <= 4 (covers norm <= pi)',
                       'taylor threshold': '|v|^2 <= 1e-6 as in the source'})


def finish_bad(rep, bad):
    rep.finish(bad, PROP)


def validate_euler(rep, info):
    """translator validation: symbolic matrix evaluated with true functions vs the real code"""
    import random
    from .. import common
    from .. import symreal as S
    run = rep.run
    rng = random.Random(run.seed + 17)
    cases = []
    for _ in range(5 if run.tier == 'quick' else 50):
        pt = {'roll': rng.uniform(-179, 179), 'pitch': rng.uniform(-88, 88), 'heading': rng.uniform(-179, 179)}
        ev = S.Evaluator(S.C, pt)
        M = ev.arr(info['M'])
        cases.append({'func': 'pyins.transform.mat_from_rph', 'args': [[pt['roll'], pt['pitch'], pt['heading']]],
                      'expected': M.tolist(), 'rtol': 1e-9, 'atol': 1e-12})
    # the repo's own test inputs (pyins/tests/test_transform.py::test_mat_from_rph)
    for rph in ([0, 0, 90], [45, 0, 0], [0, -30, 0], [10, 20, 30]):
        ev = S.Evaluator(S.C, dict(zip(('roll', 'pitch', 'heading'), map(float, rph))))
        cases.append({'func': 'pyins.transform.mat_from_rph', 'args': [list(map(float, rph))],
                      'expected': ev.arr(info['M']).tolist(), 'rtol': 1e-9, 'atol': 1e-12})
    res = common.run_replays([{'property': PROP, 'kind': 'validate', 'cases': cases}])[0]
    if res.get('error'):
        run.error('translator validation failed to run: %s' % res['error'])
    elif res.get('mismatch'):
        run.error('translator validation mismatch: %s' % res['mismatch'][:1])
    run.cov['translator_validation_cases'] = run.cov.get('translator_validation_cases', 0) + len(cases)


# ------------------------------------------------------------------------------------------
# numeric oracles on the compiled code (clean replay subprocess)
# ------------------------------------------------------------------------------------------
def replay(spec):
    import numpy as np
    if spec['kind'] == 'validate':
        from ..validate import run_validate
        return run_validate(spec)
    from pyins import transform, error_model, _numba_integrate
    from scipy.spatial.transform import Rotation
    pt = spec['point']
    chk = spec['check']
    d2r = math.pi / 180
    if chk in ('rph_matrix', 'proper', 'roundtrip', 'stacked'):
        r, p, h = pt.get('roll', 10.0), pt.get('pitch', 20.0), pt.get('heading', 30.0)
        M = transform.mat_from_rph([r, p, h])
        ref = np.array(_textbook_dcm(math.sin(r * d2r), math.cos(r * d2r), math.sin(p * d2r), math.cos(p * d2r),
                                     math.sin(h * d2r), math.cos(h * d2r)))
        fails = []
        if not np.allclose(M, ref, atol=1e-12):
            fails.append('mat_from_rph differs from the textbook body->NED matrix by %.3g' % np.abs(M - ref).max())
        if not np.allclose(M @ M.T, np.eye(3), atol=1e-12) or abs(np.linalg.det(M) - 1) > 1e-12:
            fails.append('not a proper rotation')
        back = transform.mat_to_rph(M)
        if np.abs(((back - np.array([r, p, h]) + 180) % 360) - 180).max() > 1e-9:
            fails.append('mat_to_rph(mat_from_rph(a)) = %s != %s' % (back.tolist(), [r, p, h]))
        M2 = transform.mat_from_rph([[r, p, h], [h, p, r]])
        if not np.array_equal(M2[0], M):
            fails.append('stacked != single')
        return {'violated': bool(fails), 'detail': fails}
    if chk == 'rotvec':
        v = np.array([pt.get('v0', 0.1), pt.get('v1', 0.2), pt.get('v2', 0.3)], dtype=float)
        nv = np.linalg.norm(v)
        u = v / nv if nv > 0 else np.array([1.0, 0, 0])
        # the point itself, then the same direction at norms swept log-uniformly over [1e-9, pi]
        # (the property quantifies over every rotation vector, continuously across the branch)
        worst, at = 0.0, v
        norms = [nv] + list(np.exp(np.linspace(np.log(1e-9), np.log(np.pi), 600))) + [np.pi - 10.0 ** -k for k in range(1, 16)] + [np.pi]
        for n_ in norms:
            w_ = u * n_
            R = np.empty((3, 3))
            try:
                _numba_integrate.mat_from_rotvec(w_, R)
            except Exception as e:      # noqa: BLE001 - a rotation vector is a legal argument whatever its norm
                return {'violated': True, 'detail': 'mat_from_rotvec raises %s: %s at v=%s (|v|=%.17g)' % (type(e).__name__, e, w_.tolist(), n_)}
            err = np.abs(R - Rotation.from_rotvec(w_).as_matrix()).max()
            if not np.isfinite(err):
                err = np.inf
            if err > worst:
                worst, at = err, w_
        return {'violated': bool(worst > 2e-15), 'detail': 'mat_from_rotvec differs from exp([v x]) by %.3g at v=%s (|v|=%.4g)' % (worst, at.tolist(), np.linalg.norm(at))}
    if chk == 'phi_delta':
        rph = np.array([pt.get('roll', 10.0), pt.get('pitch', 20.0), pt.get('heading', 30.0)])
        phi = np.array([pt.get('phi0', 0.3), pt.get('phi1', -0.2), pt.get('phi2', 0.5)])
        Mphi = error_model._phi_to_delta_rph(rph)
        C = transform.mat_from_rph(rph)
        errs = []
        for eps in (1e-5, 1e-6):
            rph2 = transform.mat_to_rph(Rotation.from_rotvec(eps * phi).as_matrix() @ C)
            d = ((rph - rph2 + 180) % 360 - 180) / eps
            errs.append(np.abs(d - Mphi @ phi).max())
        scale = max(1.0, np.abs(Mphi @ phi).max())
        return {'violated': bool(min(errs) > 1e-3 * scale), 'detail': '_phi_to_delta_rph deviates from the finite-difference derivative by %.3g (scale %.3g)' % (min(errs), scale)}
    return {'violated': False, 'error': 'unknown check %r' % chk}


RIM = {'lat': -84.6, 'lon': 150.0, 'alt': 15000.0, 'VN': 250.0, 'VE': -200.0, 'VD': 5.0, 'roll': -200.0, 'pitch': -60.0, 'heading': 300.0}


def FALLBACK(tier):
    """numeric oracle specs put to the compiled code when the symbolic run is inconclusive (main.py)"""
    return [{'check': c, 'point': p} for c in ('roundtrip', 'rotvec', 'phi_delta') for p in ({}, RIM)]
