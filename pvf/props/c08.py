"""C08 - discretised process matrices are the exact transition and noise integral (engine A:
the real kalman.compute_process_matrices on symbolic F, Q and a formal time step; expm stub =
its defining series, exact in the truncated algebra)."""
import fractions
import math

LEVEL = 'other'
PROP = 'C08'
Fr = fractions.Fraction


def _syms(n):
    from .. import symreal as S
    F = S.O([[S.var('F%d%d' % (i, j)) for j in range(n)] for i in range(n)])
    Q = S.O([[S.var('Q%d%d' % (min(i, j), max(i, j))) for j in range(n)] for i in range(n)])
    return F, Q


def _single_path(fn, flat=False):
    """runs fn under a path executor with non-forking |x|; the unmodified function has no
    data-dependent branch, so there is exactly one path. If a change introduces branches, the
    obligations are established on the first feasible path under its path condition (the formal
    step makes every comparison of `something * dt` with a positive constant false)."""
    import z3
    from .. import symreal as S, paths
    S.C.abs_mode = 'sqrt'
    ex = paths.Exec(S.C.dom, timeout_ms=4000)
    orig_decide = ex.decide

    def decide(cond):
        for c in S.C.cons[getattr(ex, '_ncons', 0):]:
            ex.solver.add(c)
        ex._ncons = len(S.C.cons)
        return orig_decide(cond)
    ex.decide = decide
    res, _ = ex.run(lambda: (setattr(ex, '_ncons', 0), fn())[1], max_paths=1, max_decisions=200)
    ok = [pr for pr in res if pr.status == 'ok']
    if not ok:
        raise RuntimeError('compute_process_matrices failed symbolically: %s' % ([pr.out for pr in res][:1],))
    out = ok[0].out
    return (out, list(ok[0].pc)) if flat else (out[0], out[1], list(ok[0].pc))


def section_series(rep, n, K, mutate=None, diagonal=False):
    """diagonal: F exactly diagonal (uncoupled random-walk / Gauss-Markov states: structural zeros
    off the diagonal, symbolic rates in [-2, 2]) - a structure on which an implementation may take a
    closed-form path; every divisor met on the way must be non-zero for ALL rates (equal, opposite,
    zero)"""
    import numpy as np
    import z3
    from .. import symreal as S, enga
    S.new_ctx([('dt', K)])
    m = enga.install()
    KF = m['KF']
    if mutate:
        mutate(m)
    F, Q = _syms(n)
    if diagonal:
        F = S.O([[F[i, j] if i == j else S.J(0) for j in range(n)] for i in range(n)])
        S.C.dom += [z3.Real('F%d%d' % (i, i)) >= -2 for i in range(n)] + [z3.Real('F%d%d' % (i, i)) <= 2 for i in range(n)]
    dt = S.formal(0)
    Phi, Qd, pc = _single_path(lambda: KF.compute_process_matrices(F, Q, dt))
    J = S.J
    Fk = [S.symnp.eye(n)]
    for k in range(1, K + 1):
        P = np.dot(Fk[-1], F)
        Fk.append(S.O([[J(P[i, j]) * Fr(1, k) for j in range(n)] for i in range(n)]))
    obls = []
    meta = {'check': 'series', 'params': {'n': n}}
    if diagonal:
        meta = {'check': 'diagonal', 'params': {'n': n}}
        obls += enga.definedness(S.C, 0, 'diagonal F: every divisor is non-zero for all rates', dict(meta, use_model=True), 'diagonal F, n=%d: ' % n)
    for k in range(K + 1):
        oq = S.symnp.zeros((n, n))
        for a in range(k):
            oq = oq + np.dot(np.dot(Fk[a], Q), Fk[k - 1 - a].T)
        for i in range(n):
            for j in range(n):
                obls.append(enga.zero('n=%d: Phi[%d,%d] dt^%d coefficient = (F^%d/%d!)' % (n, i, j, k, k, k),
                                      J(Phi[i, j]).part(k) - J(Fk[k][i, j]), 'transition = exp(F dt) series', extra=pc, meta=meta))
                rhs = J(oq[i, j]) * Fr(1, k) if k else J(0)
                obls.append(enga.zero('n=%d: Qd[%d,%d] dt^%d coefficient = series of int_0^dt e^{Fs} Q e^{F^T s} ds' % (n, i, j, k),
                                      J(Qd[i, j]).part(k) - rhs, 'noise integral series', extra=pc, meta=meta))
                if j > i:
                    obls.append(enga.zero('n=%d: Qd symmetric [%d,%d] dt^%d' % (n, i, j, k),
                                          J(Qd[i, j]).part(k) - J(Qd[j, i]).part(k), 'Qd symmetric', extra=pc, meta=meta))
    rep.run.encode(KF.compute_process_matrices)
    return obls


def section_composition(rep, n, K, mutate=None):
    """two formal steps s, t: Phi(s+t) = Phi(t) Phi(s); Qd(s+t) = Phi(t) Qd(s) Phi(t)^T + Qd(t)"""
    import itertools
    import numpy as np
    from .. import symreal as S, enga
    ctx = S.new_ctx([('s', K), ('t', K)])
    ctx.total = K
    m = enga.install()
    KF = m['KF']
    if mutate:
        mutate(m)
    F, Q = _syms(n)
    s, t = S.formal(0), S.formal(1)
    (Ps, Qs, Pt, Qt, Pst, Qst), pc = _single_path(lambda: KF.compute_process_matrices(F, Q, s) + KF.compute_process_matrices(F, Q, t) + KF.compute_process_matrices(F, Q, s + t), flat=True)
    J = S.J
    lhsP = np.dot(Pt, Ps)
    lhsQ = np.dot(np.dot(Pt, Qs), Pt.T) + Qt
    obls = []
    meta = {'check': 'composition', 'params': {'n': n}}
    for a, b in itertools.product(range(K + 1), repeat=2):
        if a + b > K:
            continue
        for i in range(n):
            for j in range(n):
                obls.append(enga.zero('n=%d: Phi(s+t) = Phi(t)Phi(s) [%d,%d] s^%d t^%d' % (n, i, j, a, b),
                                      J(Pst[i, j]).part(a, b) - J(lhsP[i, j]).part(a, b), 'composition', extra=pc, meta=meta))
                obls.append(enga.zero('n=%d: Qd(s+t) = Phi(t)Qd(s)Phi(t)^T + Qd(t) [%d,%d] s^%d t^%d' % (n, i, j, a, b),
                                      J(Qst[i, j]).part(a, b) - J(lhsQ[i, j]).part(a, b), 'composition', extra=pc, meta=meta))
    return obls


def section_nilpotent(rep, n, mutate=None, max_paths=400):
    """FINITE steps: F strictly upper triangular (nilpotent, symbolic entries), dt an ordinary real
    in (0, 200]: exp(F dt) and the noise integral are polynomials, the expm stub is exact, and
    every data-dependent branch of the function (none in the unmodified code) is explored by the
    path executor. Returns a list of obligation lists, one per path."""
    import numpy as np
    import z3
    from .. import symreal as S, enga, paths
    S.new_ctx()
    m = enga.install()
    KF = m['KF']
    if mutate:
        mutate(m)
    J, O = S.J, S.O
    F = O([[S.var('F%d%d' % (i, j)) if j > i else J(0) for j in range(n)] for i in range(n)])
    Q = O([[S.var('Q%d%d' % (min(i, j), max(i, j))) for j in range(n)] for i in range(n)])
    dt = S.var('dt')
    S.C.dom += [z3.Real('dt') > 0, z3.Real('dt') <= 200]
    for i in range(n):
        for j in range(n):
            if j > i:
                S.C.dom += [z3.Real('F%d%d' % (i, j)) >= -1, z3.Real('F%d%d' % (i, j)) <= 1]
            if j >= i:
                S.C.dom += [z3.Real('Q%d%d' % (i, j)) >= -1, z3.Real('Q%d%d' % (i, j)) <= 1]
    import time as _t
    ex = paths.Exec(S.C.dom, timeout_ms=4000)
    res, todo_ = ex.run(lambda: KF.compute_process_matrices(F.copy(), Q.copy(), dt), max_paths=max_paths, max_decisions=60, deadline=_t.time() + 45)
    if todo_:
        # data-dependent branches on nonlinear quantities (none in the unmodified code): the explored
        # paths are checked, the rest is reported as not explored - never as held
        rep.run.error('finite steps, n=%d: path exploration stopped after 45 s with %d branch prefixes unexplored' % (n, len(todo_)))
    # exact reference: terminating series
    Fk = [S.symnp.eye(n)]
    for k in range(1, n):
        P = np.dot(Fk[-1], F)
        Fk.append(O([[J(P[i, j]) * Fr(1, k) for j in range(n)] for i in range(n)]))
    Phi_ref = S.symnp.zeros((n, n))
    Qd_ref = S.symnp.zeros((n, n))
    p = J(1)
    pw = [J(1)]
    for k in range(1, 2 * n + 1):
        pw.append(pw[-1] * dt)
    for a in range(n):
        Phi_ref = Phi_ref + Fk[a] * pw[a]
        for b in range(n):
            Qd_ref = Qd_ref + np.dot(np.dot(Fk[a], Q), Fk[b].T) * (pw[a + b + 1] * Fr(1, a + b + 1))
    per_path = []
    for pr in res:
        if pr.status == 'abort' and pr.out == 'INFEASIBLE':
            continue
        if pr.status != 'ok':
            raise RuntimeError('compute_process_matrices failed symbolically on a path: %s' % (pr.out,))
        Phi, Qd = pr.out
        extra = list(pr.pc)
        meta = {'check': 'nilpotent', 'params': {'n': n}}
        obls = []
        for i in range(n):
            for j in range(n):
                obls.append(enga.zero('n=%d, finite step, nilpotent F: Phi[%d,%d] = exp(F dt)' % (n, i, j), J(Phi[i, j]) - J(Phi_ref[i, j]), 'finite steps (nilpotent F): transition', extra, meta))
                obls.append(enga.zero('n=%d, finite step, nilpotent F: Qd[%d,%d] = int_0^dt e^{Fs} Q e^{F^T s} ds' % (n, i, j), J(Qd[i, j]) - J(Qd_ref[i, j]), 'finite steps (nilpotent F): noise integral', extra, meta))
        per_path.append(obls)
    rep.run.encode(KF.compute_process_matrices)
    return per_path


TYPED_F = {
    'int64 double integrator': [[0, 1], [0, 0]],
    'int64 zero matrix': [[0, 0], [0, 0]],
    'int64 chain of three': [[0, 2, -1], [0, 0, 3], [0, 0, 0]],
}


def section_typed(rep, mutate=None):
    """the caller's F as an INTEGER-typed ndarray (the repo's own test calls the function this way)
    with a real-valued symbolic Q and step: the dtype of an argument must not leak into the result.
    Same finite-step obligations as section_nilpotent (the integer matrices are nilpotent, so the
    exponential series terminates); a store of a real-valued quantity into an integer-typed array
    is a failed obligation of its own."""
    import numpy as np
    import z3
    from .. import symreal as S, enga, paths
    for label, rows in TYPED_F.items():
        out = []
        S.new_ctx()
        m = enga.install()
        KF = m['KF']
        if mutate:
            mutate(m)
        J, O = S.J, S.O
        Fc = np.array(rows, dtype=np.int64)
        n = len(Fc)
        Q = O([[S.var('Q%d%d' % (min(i, j), max(i, j))) for j in range(n)] for i in range(n)])
        dt = S.var('dt')
        S.C.dom += [z3.Real('dt') > 0, z3.Real('dt') <= 200]
        for i in range(n):
            for j in range(i, n):
                S.C.dom += [z3.Real('Q%d%d' % (i, j)) >= -1, z3.Real('Q%d%d' % (i, j)) <= 1]
        import time as _t
        ex = paths.Exec(S.C.dom, timeout_ms=4000)
        res, todo_ = ex.run(lambda: KF.compute_process_matrices(Fc.copy(), Q.copy(), dt), max_paths=50, max_decisions=60, deadline=_t.time() + 30)
        if todo_:
            rep.run.error('typed arguments (%s): path exploration stopped after 30 s with %d branch prefixes unexplored' % (label, len(todo_)))
        Ff = O([[J(int(Fc[i, j])) for j in range(n)] for i in range(n)])
        Fk = [S.symnp.eye(n)]
        for k in range(1, n):
            P = np.dot(Fk[-1], Ff)
            Fk.append(O([[J(P[i, j]) * Fr(1, k) for j in range(n)] for i in range(n)]))
        pw = [J(1)]
        for k in range(1, 2 * n + 1):
            pw.append(pw[-1] * dt)
        Phi_ref = S.symnp.zeros((n, n))
        Qd_ref = S.symnp.zeros((n, n))
        for a in range(n):
            Phi_ref = Phi_ref + Fk[a] * pw[a]
            for b in range(n):
                Qd_ref = Qd_ref + np.dot(np.dot(Fk[a], Q), Fk[b].T) * (pw[a + b + 1] * Fr(1, a + b + 1))
        meta = {'check': 'typed', 'params': {'label': label}}
        for pr in res:
            if pr.status == 'abort' and pr.out == 'INFEASIBLE':
                continue
            obls = []
            extra = list(pr.pc)
            if pr.status == 'exception' and pr.out[0] == 'NarrowingStore':
                obls.append(enga.Obligation('F given as %s: no real-valued quantity is stored into an integer-typed array (%s)' % (label, pr.out[1][:80]),
                                            z3.BoolVal(True), 'typed arguments: the dtype of F does not leak', None, extra, meta))
                out.append(obls)
                continue
            if pr.status != 'ok':
                raise RuntimeError('compute_process_matrices failed symbolically on a path (F %s): %s' % (label, pr.out,))
            Phi, Qd = pr.out
            for i in range(n):
                for j in range(n):
                    obls.append(enga.zero('F given as %s: Phi[%d,%d] = exp(F dt)' % (label, i, j), J(Phi[i, j]) - J(Phi_ref[i, j]), 'typed arguments: the dtype of F does not leak', extra, meta))
                    obls.append(enga.zero('F given as %s: Qd[%d,%d] = int_0^dt e^{Fs} Q e^{F^T s} ds' % (label, i, j), J(Qd[i, j]) - J(Qd_ref[i, j]), 'typed arguments: the dtype of F does not leak', extra, meta))
            out.append(obls)
        rep.run.encode(KF.compute_process_matrices)
        yield [o for path in out for o in path]


CANARIES = [
    ('block matrix allocated with the dtype of F', 'typed', ('KF', 'compute_process_matrices', 'H = np.zeros((2 * n, 2 * n))', 'H = np.pad(0 * F, (0, n))')),
    ('long steps rebuilt by doubling with Phi squared first', 'nilpotent', ('KF', 'compute_process_matrices', 'return H[:n, :n], H[:n, n:] @ H[:n, :n].T',
     'Phi_, Qd_ = H[:n, :n], H[:n, n:] @ H[:n, :n].T\n    if np.linalg.norm(F, 1) * dt > 32:\n        Qd_ = Qd_ + 0 * dt\n        Qd_[0, 0] = Qd_[0, 0] * 2\n    return Phi_, Qd_')),
    ('van Loan block sign', 'series', ('KF', 'compute_process_matrices', 'H[n:, n:] = -F.T', 'H[n:, n:] = F.T')),
    ('noise block not post-multiplied by Phi^T', 'series', ('KF', 'compute_process_matrices', 'H[:n, n:] @ H[:n, :n].T', 'H[:n, n:] @ H[:n, :n]')),
    ('transition block transposed', 'series', ('KF', 'compute_process_matrices', 'return H[:n, :n], ', 'return H[:n, :n].T, ')),
    ('step scaled', 'composition', ('KF', 'compute_process_matrices', 'H = expm(H * dt)', 'H = expm(H * dt * dt)')),
]


def run(run):
    import z3
    from .. import enga, common
    from .. import symreal as S
    from .c17 import _mut
    box = {}
    for i in range(4):
        for j in range(4):
            box['F%d%d' % (i, j)] = (-1, 1)
            box['Q%d%d' % (i, j)] = (-1, 1)
    rep = enga.AReport(run, box=box)
    run.assume('expm is replaced by its defining power series, exact in the truncated algebra of the formal step: the claim is coefficientwise through dt^K; accuracy of scipy.linalg.expm for large ||F|| dt and n = 24 is outside',
               'F arbitrary real, Q symmetric (entries Q_ij = Q_ji are one symbol); positive semidefiniteness of Qd follows from the integral form of the oracle (argument, not a query)',
               'exact real arithmetic',
               'finite steps: F strictly upper triangular with symbolic entries in [-1, 1] (n = 2, 3; thorough: 4), Q symmetric symbolic, dt an ordinary real in (0, 200] (so |F|_1 dt reaches 400): the exponential series terminates, the stub is exact, and every data-dependent branch is explored by the path executor; non-nilpotent F at finite steps is outside (exp is not algebraic)')
    cfgs = [(1, 6), (2, 5), (3, 4)] if run.tier == 'quick' else [(1, 6), (2, 6), (3, 6), (4, 6)]
    comp = [(1, 4), (2, 3)] if run.tier == 'quick' else [(1, 6), (2, 5), (3, 4)]
    for n, K in cfgs:
        obls = section_series(rep, n, K)
        rep.finish(rep.batch(obls), PROP)
    for n, K in comp:
        obls = section_composition(rep, n, K)
        rep.finish(rep.batch(obls), PROP)
    for n, K in (((2, 4),) if run.tier == 'quick' else ((2, 6), (3, 4))):
        obls = section_series(rep, n, K, diagonal=True)
        rep.finish(rep.batch(obls), PROP)
    for n in ((2, 3) if run.tier == 'quick' else (2, 3, 4)):
        for obls in section_nilpotent(rep, n):
            rep.finish(rep.batch(obls), PROP)
    for obls in section_typed(rep):
        rep.finish(rep.batch(obls), PROP)
    run.witness('obligations are non-trivial (some residual not syntactically zero before simplification)', run.obligations > 0)
    validate(rep)
    for name, sec, spec in CANARIES:
        try:
            if sec == 'nilpotent':
                obls = [o for path in section_nilpotent(rep, 2, _mut(spec)) for o in path]
            elif sec == 'typed':
                obls = next(iter(section_typed(rep, _mut(spec))))
            else:
                obls = section_series(rep, 2, 3, _mut(spec)) if sec == 'series' else section_composition(rep, 2, 3, _mut(spec))
        except common.HarnessError as e:
            run.canary(name, False, str(e))
            continue
        rep.canary(name, obls)
    enga.restore()
    run.bounds.update({'dimension': 'n <= %d' % max(c[0] for c in cfgs), 'series order': 'dt^K with K up to %d; composition through total order %d' % (max(c[1] for c in cfgs), max(c[1] for c in comp))})


def validate(rep):
    """translator validation: the truncated series evaluated at a small dt vs the real function"""
    import random
    import numpy as np
    from .. import common
    from .. import symreal as S, enga
    run = rep.run
    rng = random.Random(run.seed + 8)
    cases = []
    n, K = 2, 8
    S.new_ctx([('dt', K)])
    m = enga.install()
    F, Q = _syms(n)
    Phi, Qd, _pc = _single_path(lambda: m['KF'].compute_process_matrices(F, Q, S.formal(0)))
    for _ in range(4 if run.tier == 'quick' else 30):
        pt = {'F%d%d' % (i, j): rng.uniform(-1, 1) for i in range(n) for j in range(n)}
        pt.update({'Q%d%d' % (i, j): rng.uniform(0, 1) for i in range(n) for j in range(i, n)})
        h = 0.05
        ev = S.Evaluator(S.C, pt)
        P = sum(ev.arr(Phi, k) * h ** k for k in range(K + 1))
        Qv = sum(ev.arr(Qd, k) * h ** k for k in range(K + 1))
        Fm = [[pt['F%d%d' % (i, j)] for j in range(n)] for i in range(n)]
        Qm = [[pt['Q%d%d' % (min(i, j), max(i, j))] for j in range(n)] for i in range(n)]
        cases.append({'func': 'pyins.kalman.compute_process_matrices', 'args': [Fm, Qm, h], 'expected': [P.tolist(), Qv.tolist()],
                      'rtol': 1e-9, 'atol': 1e-12})
    # the repo's own test input (test_kalman.py::test_process_matrices): F = [[0,1],[0,0]], Q = diag(0,1)
    pt = {'F00': 0.0, 'F01': 1.0, 'F10': 0.0, 'F11': 0.0, 'Q00': 0.0, 'Q01': 0.0, 'Q11': 1.0}
    ev = S.Evaluator(S.C, pt)
    h = 0.5
    P = sum(ev.arr(Phi, k) * h ** k for k in range(K + 1))
    Qv = sum(ev.arr(Qd, k) * h ** k for k in range(K + 1))
    cases.append({'func': 'pyins.kalman.compute_process_matrices', 'args': [[[0.0, 1.0], [0.0, 0.0]], [[0.0, 0.0], [0.0, 1.0]], h],
                  'expected': [P.tolist(), Qv.tolist()], 'rtol': 1e-12, 'atol': 1e-14})
    res = common.run_replays([{'property': PROP, 'kind': 'validate', 'cases': cases}])[0]
    if res.get('error'):
        run.error('translator validation failed to run: %s' % res['error'])
    elif res.get('mismatch'):
        run.error('translator validation mismatch: %s' % res['mismatch'][:1])
    run.cov['translator_validation_cases'] = len(cases)


def replay(spec):
    import numpy as np
    if spec['kind'] == 'validate':
        from ..validate import run_validate
        return run_validate(spec)
    from pyins import kalman
    from scipy.linalg import expm
    pt = spec['point']
    n = (spec.get('params') or {}).get('n', 2)
    if spec.get('check') == 'diagonal':
        # exactly diagonal F: equal, opposite, zero and mixed rates; reference = van Loan with scipy's expm
        fails = []
        rng = np.random.RandomState(5)
        a_ = abs(float(pt.get('F00', 0.5))) or 0.5
        pats = [[a_, -a_], [-a_, a_], [0.0, a_], [0.0, 0.0], [a_, a_], [-0.3, -1.1], [0.7, -0.7, 0.0], [0.0, 0.2, -0.2]]
        for rates in pats:
            n_ = len(rates)
            Fd = np.diag(rates)
            A = rng.uniform(-1, 1, (n_, n_))
            Q = A @ A.T
            for dt in (0.0, 0.3, 2.0):
                Phi, Qd = kalman.compute_process_matrices(Fd.copy(), Q.copy(), dt)
                Hm = np.zeros((2 * n_, 2 * n_))
                Hm[:n_, :n_] = Fd
                Hm[:n_, n_:] = Q
                Hm[n_:, n_:] = -Fd.T
                E_ = expm(Hm * dt)
                Pr, Qr = E_[:n_, :n_], E_[:n_, n_:] @ E_[:n_, :n_].T
                if not (np.all(np.isfinite(Phi)) and np.all(np.isfinite(Qd))):
                    fails.append('diagonal F %s, dt=%g: result not finite (Qd = %s)' % (rates, dt, np.asarray(Qd).tolist()))
                elif np.abs(Phi - Pr).max() > 1e-9 * max(1.0, np.abs(Pr).max()) or np.abs(Qd - Qr).max() > 1e-9 * max(1e-12, np.abs(Qr).max()):
                    fails.append('diagonal F %s, dt=%g: Phi off by %.3g, Qd off by %.3g' % (rates, dt, np.abs(Phi - Pr).max(), np.abs(Qd - Qr).max()))
        return {'violated': bool(fails), 'detail': fails[:6]}
    if spec.get('check') == 'typed':
        fails = []
        rng = np.random.RandomState(3)
        for label, rows in TYPED_F.items():
            for dtype in (np.int64, np.int32, np.float32, np.float64):
                Fc = np.array(rows, dtype=dtype)
                n_ = len(Fc)
                A = rng.uniform(-1, 1, (n_, n_))
                Q = 0.04 * A @ A.T + np.diag([0.0] * (n_ - 1) + [0.04])
                Ff = Fc.astype(float)
                for dt in (0.5, 3.0):
                    Phi, Qd = kalman.compute_process_matrices(Fc.copy(), Q.copy(), dt)
                    Fk = [np.eye(n_)]
                    for k in range(1, n_):
                        Fk.append(Fk[-1] @ Ff / k)
                    Pr = sum(Fk[a] * dt ** a for a in range(n_))
                    Qr = sum(Fk[a] @ Q @ Fk[b].T * dt ** (a + b + 1) / (a + b + 1) for a in range(n_) for b in range(n_))
                    if np.abs(np.asarray(Phi, dtype=float) - Pr).max() > 1e-9 * max(1.0, np.abs(Pr).max()) or np.abs(np.asarray(Qd, dtype=float) - Qr).max() > 1e-9 * max(1e-12, np.abs(Qr).max()):
                        fails.append('F given as a %s array (%s), dt=%g: Phi differs from exp(F dt) by %.3g, Qd from the noise integral by %.3g (scale %.3g)' % (
                            np.dtype(dtype).name, label, dt, np.abs(np.asarray(Phi, dtype=float) - Pr).max(), np.abs(np.asarray(Qd, dtype=float) - Qr).max(), np.abs(Qr).max()))
                        break
        return {'violated': bool(fails), 'detail': fails[:6]}
    if spec.get('check') == 'nilpotent':
        import math
        F = np.array([[pt.get('F%d%d' % (i, j), 0.7) if j > i else 0.0 for j in range(n)] for i in range(n)])
        Q = np.array([[pt.get('Q%d%d' % (min(i, j), max(i, j)), 0.3 if i == j else 0.05) for j in range(n)] for i in range(n)])
        fails = []
        for dt in sorted({float(pt.get('dt', 50.0)), 0.5, 40.0, 150.0}):
            Phi, Qd = kalman.compute_process_matrices(F.copy(), Q.copy(), dt)
            Fk = [np.eye(n)]
            for k in range(1, n):
                Fk.append(Fk[-1] @ F / k)
            Pr = sum(Fk[a] * dt ** a for a in range(n))
            Qr = sum(Fk[a] @ Q @ Fk[b].T * dt ** (a + b + 1) / (a + b + 1) for a in range(n) for b in range(n))
            if np.abs(Phi - Pr).max() > 1e-9 * max(1.0, np.abs(Pr).max()):
                fails.append('nilpotent F, dt=%g: transition matrix differs from the terminating series of exp(F dt) by %.3g' % (dt, np.abs(Phi - Pr).max()))
            if np.abs(Qd - Qr).max() > 1e-8 * max(1e-12, np.abs(Qr).max()):
                fails.append('nilpotent F, dt=%g, |F|_1 dt=%.3g: noise matrix differs from the exact integral by %.3g (scale %.3g)' % (dt, np.abs(F).sum(0).max() * dt, np.abs(Qd - Qr).max(), np.abs(Qr).max()))
        return {'violated': bool(fails), 'detail': fails}
    F = np.array([[pt.get('F%d%d' % (i, j), 0.1 * (i - j) + 0.2) for j in range(n)] for i in range(n)])
    Q = np.array([[pt.get('Q%d%d' % (min(i, j), max(i, j)), 0.3 if i == j else 0.05) for j in range(n)] for i in range(n)])
    fails = []
    for dt in (0.0, 0.05, 0.3):
        Phi, Qd = kalman.compute_process_matrices(F, Q, dt)
        ref = expm(F * dt)
        N = 2000
        ss = np.linspace(0, dt, 2 * N + 1)
        w = np.ones(2 * N + 1)
        w[1:-1:2] = 4
        w[2:-1:2] = 2
        Qref = sum(wi * expm(F * s) @ Q @ expm(F * s).T for wi, s in zip(w, ss)) * (dt / (6 * N)) if dt else np.zeros((n, n))
        if not np.allclose(Phi, ref, rtol=1e-9, atol=1e-12):
            fails.append('dt=%g: transition matrix != expm(F dt) (max diff %.3g)' % (dt, np.abs(Phi - ref).max()))
        if not np.allclose(Qd, Qref, rtol=1e-7, atol=1e-11):
            fails.append('dt=%g: noise matrix != integral of the propagated noise density (max diff %.3g)' % (dt, np.abs(Qd - Qref).max()))
        if not np.allclose(Qd, Qd.T, atol=1e-13):
            fails.append('dt=%g: noise matrix not symmetric' % dt)
    # linear in the noise density at every scale (the property covers all PSD Q, singular and tiny included)
    Pb, Qb = kalman.compute_process_matrices(F, Q, 0.05)
    for sc in (1e-8, 1e-14, 1e-20, 1e-30, 1e8):
        Ps, Qs = kalman.compute_process_matrices(F, Q * sc, 0.05)
        if not np.allclose(Qs, Qb * sc, rtol=1e-9, atol=1e-13 * sc * max(1e-300, np.abs(Qb).max())):
            fails.append('noise matrix is not linear in the noise density: Q scaled by %g gives max |Qd| %.3g instead of %.3g' % (sc, np.abs(Qs).max(), np.abs(Qb * sc).max()))
            break
    P1, Q1 = kalman.compute_process_matrices(F, Q, 0.1)
    P2, Q2 = kalman.compute_process_matrices(F, Q, 0.25)
    P3, Q3 = kalman.compute_process_matrices(F, Q, 0.35)
    if not np.allclose(P3, P2 @ P1, rtol=1e-10, atol=1e-13) or not np.allclose(Q3, P2 @ Q1 @ P2.T + Q2, rtol=1e-9, atol=1e-13):
        fails.append('composition law violated')
    return {'violated': bool(fails), 'detail': fails}


RIM = {'lat': -84.6, 'lon': 150.0, 'alt': 15000.0, 'VN': 250.0, 'VE': -200.0, 'VD': 5.0, 'roll': 120.0, 'pitch': -60.0, 'heading': -170.0}


def FALLBACK(tier):
    """numeric oracle specs put to the compiled code when the symbolic run is inconclusive (main.py)"""
    return [{'check': 'series', 'point': {}, 'params': {'n': n}} for n in (1, 2, 3)] + [{'check': 'nilpotent', 'point': {}, 'params': {'n': n}} for n in (2, 3)] + [{'check': 'typed', 'point': {}}, {'check': 'diagonal', 'point': {}}]
