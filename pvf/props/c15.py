"""C15 - coning/sculling increments are high-order accurate body-frame integrals (engine A:
the real compute_increments_from_imu on formal-interval samples of polynomial signals, against
the Peano-Baker series of C' = C [w x] computed in the jet algebra)."""
import fractions

LEVEL = 'other'
PROP = 'C15'
Fr = fractions.Fraction
ORD = 4


def _skew(v):
    from .. import symreal as S
    return S.O([[0, -v[2], v[1]], [v[2], 0, -v[0]], [-v[1], v[0], 0]])


def _setup(mutate=None):
    from .. import symreal as S, enga
    S.new_ctx([('T', ORD + 1)])     # one spare order: the increment branch divides interval lengths (series without constant term)
    m = enga.install()
    if mutate:
        mutate(m)
    return m


def _oracle(w_s, f_s):
    """exact attitude C(T) and dv(T) = int_0^T C f from the Peano-Baker (Picard) series"""
    import numpy as np
    from .. import symreal as S
    integ = np.vectorize(lambda x: S.J(x).integ(0), otypes=[object])
    Cs = S.symnp.eye(3)
    for _ in range(ORD + 1):
        Cs = S.symnp.eye(3) + integ(np.dot(Cs, _skew(w_s)))
    return Cs, integ(np.dot(Cs, f_s))


def section_accuracy(rep, degree, mutate=None, irregular=False):
    """degree 1: linear signals (the property's exact statement); degree 2: generic quadratic.
    irregular: three samples at -mu T, 0, T with a symbolic ratio mu of the preceding interval to
    the examined one (row 1 of the result, interval [0, T]); otherwise two samples at 0, T."""
    import numpy as np
    import pandas as pd
    from .. import symreal as S, enga
    from ..symscipy import _rotvec_matrix
    from pyins.util import GYRO_COLS, ACCEL_COLS, THETA_COLS, DV_COLS
    m = _setup(mutate)
    SD = m['SD']
    J, O = S.J, S.O
    Tt = S.formal(0)
    a = O([S.var('a%d' % i) for i in range(3)])
    b = O([S.var('b%d' % i) for i in range(3)])
    d = O([S.var('d%d' % i) for i in range(3)])
    e = O([S.var('e%d' % i) for i in range(3)])
    c = O([S.var('c%d' % i) if degree >= 2 else 0 for i in range(3)])
    g = O([S.var('g%d' % i) if degree >= 2 else 0 for i in range(3)])
    w = lambda t: O([a[i] + b[i] * t + c[i] * t * t for i in range(3)])
    f = lambda t: O([d[i] + e[i] * t + g[i] * t * t for i in range(3)])
    w_s, f_s = w(Tt), f(Tt)
    Cs, dv_exact = _oracle(w_s, f_s)
    integ = np.vectorize(lambda x: J(x).integ(0), otypes=[object])
    W = lambda t: O([a[i] * t + b[i] * t * t * Fr(1, 2) + c[i] * t * t * t * Fr(1, 3) for i in range(3)])
    Fi = lambda t: O([d[i] * t + e[i] * t * t * Fr(1, 2) + g[i] * t * t * t * Fr(1, 3) for i in range(3)])
    obls = []
    if irregular:
        import z3
        mu = S.var('mu')
        S.C.dom += [z3.Real('mu') >= Fr(1, 5), z3.Real('mu') <= 5]
    for stype in ('rate', 'increment'):
        if irregular == 'first':
            # the examined interval [0, T] is the FIRST one, followed by an interval of mu T; the
            # reading before it covers [-T, 0] (the documented assumption for the unknown interval
            # of the first reading: equal to the next one)
            t2 = Tt + mu * Tt
            stamps = [J(0), Tt, t2]
            if stype == 'rate':
                rows = [list(w(J(0))) + list(f(J(0))), list(w_s) + list(f_s), list(w(t2)) + list(f(t2))]
            else:
                rows = [list(-W(-Tt)) + list(-Fi(-Tt)), list(W(Tt)) + list(Fi(Tt)), list(W(t2) - W(Tt)) + list(Fi(t2) - Fi(Tt))]
            row = 0
        elif irregular:
            t0 = -(mu * Tt)
            stamps = [t0, J(0), Tt]
            if stype == 'rate':
                rows = [list(w(t0)) + list(f(t0)), list(w(J(0))) + list(f(J(0))), list(w_s) + list(f_s)]
            else:
                # increments over [-2 mu T, -mu T] (its own length is irrelevant), [-mu T, 0], [0, T]
                tm = t0 * 2
                rows = [list(W(t0) - W(tm)) + list(Fi(t0) - Fi(tm)), list(-W(t0)) + list(-Fi(t0)), list(W(Tt)) + list(Fi(Tt))]
            row = 1
        else:
            stamps = [J(0), Tt]
            row = 0
            if stype == 'rate':
                rows = [list(w(J(0))) + list(f(J(0))), list(w_s) + list(f_s)]
            else:
                # increment sensors report the integral over the preceding interval: [-T,0] and [0,T]
                g1, f1 = integ(w_s), integ(f_s)
                g0, f0 = integ(w(-Tt)), integ(f(-Tt))
                rows = [list(g0) + list(f0), list(g1) + list(f1)]
        imu = pd.DataFrame(rows, columns=GYRO_COLS + ACCEL_COLS, index=pd.Index(stamps, dtype=object), dtype=object)
        if irregular:
            # an Imu frame is identified by its column NAMES: accelerometers first, a foreign leading
            # column and permuted axes are the same data
            imu = imu[[ACCEL_COLS[2], ACCEL_COLS[0], ACCEL_COLS[1]] + [GYRO_COLS[1], GYRO_COLS[2], GYRO_COLS[0]]]
            imu.insert(0, 'temperature', [J(20 + k) for k in range(len(imu))])
        inc = SD.compute_increments_from_imu(imu, stype)
        theta = inc[THETA_COLS].values[row]
        dv = inc[DV_COLS].values[row]
        R = _rotvec_matrix(O(list(theta)))
        meta = {'check': 'accuracy', 'params': {'type': stype, 'degree': degree, 'irregular': (irregular if irregular == 'first' else bool(irregular))}}
        if irregular == 'first':
            stype = stype + ' (irregular stamps, first interval, following interval mu T)'
        elif irregular:
            stype = stype + ' (irregular stamps, preceding interval mu T)'
        if degree == 1:
            for k in range(ORD + 1):
                for i in range(3):
                    for j in range(3):
                        obls.append(enga.zero('%s, linear signals: exp([theta x])[%d,%d] = exact rotation, T^%d' % (stype, i, j, k),
                                              (J(R[i, j]) - J(Cs[i, j])).part(k), 'rotation vector exact through the coning term', meta=meta))
            for k in range(3):
                for i in range(3):
                    obls.append(enga.zero('%s, linear signals: dv[%d] = exact body-frame integral, T^%d' % (stype, i, k),
                                          (J(dv[i]) - J(dv_exact[i])).part(k), 'velocity increment', meta=meta))
            claim = np.cross(a, np.cross(a, d))
            for i in range(3):
                obls.append(enga.zero('%s, linear signals: the only T^3 discrepancy of dv[%d] is (1/6) a x (a x d)' % (stype, i),
                                      (J(dv_exact[i]) - J(dv[i])).part(3) - J(claim[i]) * Fr(1, 6), 'velocity increment', meta=meta))
        else:
            # generic quadratic signals: local error O(T^3) for rate samples (trapezoid of the
            # samples), O(T^4) for increment samples (their integrals are exact)
            kmax = 2 if (stype.startswith('rate') or irregular) else 3
            for k in range(kmax + 1):
                for i in range(3):
                    for j in range(3):
                        obls.append(enga.zero('%s, quadratic signals: rotation [%d,%d] agrees at T^%d' % (stype, i, j, k),
                                              (J(R[i, j]) - J(Cs[i, j])).part(k), 'generic signals: no discrepancy below the algorithm order', meta=meta))
            for k in range(3):
                for i in range(3):
                    obls.append(enga.zero('%s, quadratic signals: dv[%d] agrees at T^%d' % (stype, i, k),
                                          (J(dv[i]) - J(dv_exact[i])).part(k), 'generic signals: no discrepancy below the algorithm order', meta=meta))
    rep.run.encode(SD.compute_increments_from_imu)
    return obls


def section_table(rep, mutate=None):
    """one row per sample after the first, stamped with that sample's time, dt = stamp difference
    (irregular symbolic stamps)"""
    import numpy as np
    import pandas as pd
    import z3
    from .. import symreal as S, enga
    from pyins.util import GYRO_COLS, ACCEL_COLS
    from .. import symreal
    S.new_ctx()
    m = enga.install()
    if mutate:
        mutate(m)
    SD = m['SD']
    J = S.J
    ts = [S.var('t%d' % i) for i in range(4)]
    rows = [[S.var('s%d_%d' % (k, i)) for i in range(6)] for k in range(4)]
    imu = pd.DataFrame(rows, columns=GYRO_COLS + ACCEL_COLS, index=pd.Index(ts, dtype=object), dtype=object)
    obls = []
    for stype in ('rate', 'increment'):
        inc = SD.compute_increments_from_imu(imu, stype)
        meta = {'check': 'table', 'params': {'type': stype}}
        obls.append(enga.holds('%s: one row per sample after the first' % stype, z3.BoolVal(len(inc) == 3), 'table shape', meta=meta))
        obls.append(enga.holds('%s: columns dt, theta_xyz, dv_xyz' % stype,
                               z3.BoolVal(list(inc.columns) == ['dt', 'theta_x', 'theta_y', 'theta_z', 'dv_x', 'dv_y', 'dv_z']), 'table shape', meta=meta))
        for k in range(min(3, len(inc))):
            obls.append(enga.zero('%s: row %d stamped with the time of sample %d' % (stype, k, k + 1), J(inc.index[k]) - ts[k + 1], 'table shape', meta=meta))
            obls.append(enga.zero('%s: row %d interval = stamp difference' % (stype, k), J(inc['dt'].values[k]) - (ts[k + 1] - ts[k]), 'table shape', meta=meta))
    return obls


CANARIES = [
    ('coning coefficient', 1, ('SD', 'compute_increments_from_imu', 'coning = np.cross(a_gyro, b_gyro) * dt ** 2 / 12', 'coning = np.cross(a_gyro, b_gyro) * dt ** 2 / 6')),
    ('increment-type coning sign', 1, ('SD', 'compute_increments_from_imu', 'coning = np.cross(gyro[:-1], gyro[1:]) * scale', 'coning = -np.cross(gyro[:-1], gyro[1:]) * scale')),
    ('sculling drops one term', 1, ('SD', 'compute_increments_from_imu', "sculling = (np.cross(gyro[:-1], accel[1:]) +\n                    np.cross(accel[:-1], gyro[1:])) * scale", "sculling = (np.cross(gyro[:-1], accel[1:])) * scale")),
    ('rotation compensation factor', 1, ('SD', 'compute_increments_from_imu', '0.5 * np.cross(gyro_increment, accel_increment)', '1.0 * np.cross(gyro_increment, accel_increment)')),
    ('rate type uses end sample only', 2, ('SD', 'compute_increments_from_imu', 'gyro_increment = (a_gyro + 0.5 * b_gyro) * dt', 'gyro_increment = (a_gyro + b_gyro) * dt')),
    ('interval ratio ignored for increment sensors (behaviour before the repair)', 'irregular', ('SD', 'compute_increments_from_imu', 'scale = 1 / (6 * ratio * (1 + ratio))', 'scale = 1 / 12 + 0 * ratio')),
    ('rate samples scaled by the preceding interval', 'irregular', ('SD', 'compute_increments_from_imu', 'coning = np.cross(a_gyro, b_gyro) * dt ** 2 / 12', 'coning = np.cross(a_gyro, b_gyro) * dt * np.vstack((dt[:1], dt[:-1])) / 12')),
    ('first row uses the last interval as its preceding one (wrap-around)', 'first', ('SD', 'compute_increments_from_imu', 'ratio = np.vstack((dt[:1], dt[:-1])) / dt', 'ratio = np.roll(dt, 1, axis=0) / dt')),
    ('rows stamped with the previous sample', 'table', ('SD', 'compute_increments_from_imu', 'index=imu.index[1:]', 'index=imu.index[:-1]')),
]


def run(run):
    from .. import enga, common
    from .c17 import _mut
    box = {}
    for nm in 'abcdeg':
        for i in range(3):
            box['%s%d' % (nm, i)] = (-3, 3)
    box['mu'] = (0.2, 5)
    rep = enga.AReport(run, box=box)
    run.assume('signals are polynomials in time with symbolic vector coefficients (linear: the property\'s exact statement; quadratic: generic smooth signal through second order); the interval T is a formal parameter, series through T^%d' % ORD,
               'exact attitude / velocity integral from the Peano-Baker series of C\' = C [w x] in the jet algebra (no Bortz/Savage formula)',
               'the matrix of the computed rotation vector is its exponential series (rotation vector = O(T)); exact real arithmetic',
               'sinusoidal signals at finite sampling intervals (1..160 ms) are outside: their Taylor coefficients are covered through the stated order only')
    fallback = [{'kind': 'selfcheck', 'cases': [{'seed': 11}, {'seed': 12}]}, {'kind': 'numeric', 'check': 'table', 'point': {}}]
    for degree in (1, 2):
        for irregular in (False, True, 'first'):
            obls = rep.guarded(PROP, lambda: section_accuracy(rep, degree, irregular=irregular), fallback, 'accuracy, degree %d, irregular=%s' % (degree, irregular))
            if obls is None:
                break
            rep.finish(rep.batch(obls), PROP)
        else:
            continue
        break
    obls = rep.guarded(PROP, lambda: section_table(rep), fallback, 'table shape')
    if obls is not None:
        rep.finish(rep.batch(obls), PROP)
    run.witness('obligations generated', run.obligations > 100)
    validate(rep)
    for name, deg, spec in CANARIES:
        try:
            if deg == 'table':
                obls = section_table(rep, _mut(spec))
            elif deg == 'irregular':
                obls = section_accuracy(rep, 1, _mut(spec), irregular=True)
            elif deg == 'first':
                obls = section_accuracy(rep, 1, _mut(spec), irregular='first')
            else:
                obls = section_accuracy(rep, deg, _mut(spec))
        except common.HarnessError as e:
            run.canary(name, False, str(e))
            continue
        rep.canary(name, obls)
    enga.restore()
    run.bounds.update({'series order': 'T^%d' % ORD, 'signals': 'linear and quadratic polynomial signals, both sensor types', 'stamps': 'two samples (one interval); three samples with a symbolic ratio mu in [0.2, 5] of the preceding interval to the examined one; three samples where the examined interval is the first and is followed by one of mu times its length'})


def validate(rep):
    """translator validation against the repo's own test (test_coning_sculling) and random inputs"""
    import random
    import numpy as np
    from .. import common
    run = rep.run
    rng = random.Random(run.seed + 15)
    cases = []
    for _ in range(3 if run.tier == 'quick' else 20):
        cases.append({'seed': rng.randrange(10**6)})
    res = common.run_replays([{'property': PROP, 'kind': 'selfcheck', 'cases': cases}])[0]
    if res.get('error') or res.get('violated'):
        run.error('numeric oracle disagrees with the unchanged code: %s' % (res.get('error') or res.get('detail')))
    run.cov['translator_validation_cases'] = len(cases)


# ------------------------------------------------------------------------------------------
def _numeric(a, b, c, d, e, g, stype, T, mu=None, first=False):
    """(theta, dv) from the real function and the exact (C, dv) by fine RK4; mu: ratio of the
    preceding interval to the examined one [0, T] (three samples), None: two samples"""
    import numpy as np
    import pandas as pd
    from pyins.strapdown import compute_increments_from_imu
    from pyins.util import GYRO_COLS, ACCEL_COLS, THETA_COLS, DV_COLS
    w = lambda t: a + b * t + c * t * t
    f = lambda t: d + e * t + g * t * t
    W = lambda t: a * t + b * t**2 / 2 + c * t**3 / 3
    Fi = lambda t: d * t + e * t**2 / 2 + g * t**3 / 3
    row = 0
    if mu is not None and first:
        t2 = T + mu * T
        if stype == 'rate':
            rows = [np.hstack([w(0), f(0)]), np.hstack([w(T), f(T)]), np.hstack([w(t2), f(t2)])]
        else:
            rows = [np.hstack([-W(-T), -Fi(-T)]), np.hstack([W(T), Fi(T)]), np.hstack([W(t2) - W(T), Fi(t2) - Fi(T)])]
        imu = pd.DataFrame(rows, columns=GYRO_COLS + ACCEL_COLS, index=[0.0, T, t2])
    elif mu is not None:
        row = 1
        t0 = -mu * T
        if stype == 'rate':
            rows = [np.hstack([w(t0), f(t0)]), np.hstack([w(0), f(0)]), np.hstack([w(T), f(T)])]
        else:
            rows = [np.hstack([W(t0) - W(2 * t0), Fi(t0) - Fi(2 * t0)]), np.hstack([-W(t0), -Fi(t0)]), np.hstack([W(T), Fi(T)])]
        imu = pd.DataFrame(rows, columns=GYRO_COLS + ACCEL_COLS, index=[t0, 0.0, T])
    elif stype == 'rate':
        rows = [np.hstack([w(0), f(0)]), np.hstack([w(T), f(T)])]
        imu = pd.DataFrame(rows, columns=GYRO_COLS + ACCEL_COLS, index=[0.0, T])
    else:
        rows = [np.hstack([-W(-T), -Fi(-T)]), np.hstack([W(T), Fi(T)])]
        imu = pd.DataFrame(rows, columns=GYRO_COLS + ACCEL_COLS, index=[0.0, T])
    if mu is not None:
        # columns are identified by name: another layout of the same data (accelerometers first,
        # a foreign leading column) must give the same table
        imu = imu[ACCEL_COLS[::-1] + GYRO_COLS[::-1]]
        imu.insert(0, 'temperature', 20.0)
    inc = compute_increments_from_imu(imu, stype)
    sk = lambda v: np.array([[0, -v[2], v[1]], [v[2], 0, -v[0]], [-v[1], v[0], 0]])
    N = 400
    h = T / N
    C = np.eye(3)
    dv = np.zeros(3)
    rhs = lambda t, C: (C @ sk(w(t)), C @ f(t))
    for k in range(N):
        t = k * h
        k1 = rhs(t, C)
        k2 = rhs(t + h / 2, C + h / 2 * k1[0])
        k3 = rhs(t + h / 2, C + h / 2 * k2[0])
        k4 = rhs(t + h, C + h * k3[0])
        C = C + h / 6 * (k1[0] + 2 * k2[0] + 2 * k3[0] + k4[0])
        dv = dv + h / 6 * (k1[1] + 2 * k2[1] + 2 * k3[1] + k4[1])
    return inc, inc[THETA_COLS].values[row], inc[DV_COLS].values[row], C, dv


def _check_point(a, b, c, d, e, g, stype, linear, mu=None, first=False):
    import numpy as np
    from scipy.spatial.transform import Rotation
    fails = []
    errs = {}
    for T in (0.04, 0.02):
        inc, th, dv, C, dvx = _numeric(a, b, c, d, e, g, stype, T, mu, first)
        R = Rotation.from_rotvec(th).as_matrix()
        disc = dvx - dv
        if linear:
            disc = disc - np.cross(a, np.cross(a, d)) / 6 * T**3
        errs[T] = (np.abs(R - C).max(), np.abs(disc).max())
    sc = max(1.0, np.abs(np.hstack([a, b, c, d, e, g])).max())
    # expected local orders: linear: rotation O(T^5), dv remainder O(T^4); quadratic: O(T^3)/(T^4)
    pr, pd_ = (5, 4) if linear else ((3, 3) if (stype == 'rate' or mu is not None) else (4, 3))
    for idx, (p, what) in enumerate(((pr, 'rotation'), (pd_, 'velocity increment'))):
        e1, e2 = errs[0.04][idx], errs[0.02][idx]
        # the error must fall at the documented order when the interval is halved (errors at the
        # rounding level are exempt); and must not sit far above the natural O(T^p) size
        if e1 > 1e-11 * sc and not (e2 > 0 and e1 / e2 > 2 ** (p - 0.6)):
            fails.append('%s%s %s error %.3g at T=0.04 (%.3g at 0.02, ratio %.2f) does not fall like T^%d' % (stype, '' if mu is None else (' (first interval, following interval %.3g T)' if first else ' (preceding interval %.3g T)') % mu, what, e1, e2, e1 / max(e2, 1e-300), p))
        elif e1 > 50 * sc ** (p + 1) * 0.04 ** p:
            fails.append('%s %s error %.3g at T=0.04 far above the O(T^%d) level' % (stype, what, e1, p))
    return fails


def replay(spec):
    import numpy as np
    if spec['kind'] == 'selfcheck':
        bad = []
        for cse in spec['cases']:
            rng = np.random.RandomState(cse['seed'])
            a, b, d, e = (rng.uniform(-2, 2, 3) for _ in range(4))
            z = np.zeros(3)
            for st in ('rate', 'increment'):
                bad += _check_point(a, b, z, d, e, z, st, True)
                bad += _check_point(a, b, rng.uniform(-2, 2, 3), d, e, rng.uniform(-2, 2, 3), st, False)
                bad += _check_point(a, b, z, d, e, z, st, True, mu=float(rng.choice([0.4, 0.7, 1.6, 3.0])))
                bad += _check_point(a, b, z, d, e, z, st, True, mu=float(rng.choice([0.4, 0.7, 1.6, 3.0])), first=True)
                bad += _check_point(a, b, z, d, e, z, st, True, mu=float(rng.choice([1 + 2e-6, 1 - 1e-5, 1 + 1e-3])))
        # repo test: constant signals
        return {'violated': bool(bad), 'detail': bad}
    pt = spec['point']
    pr = spec.get('params') or {}
    if spec.get('check') == 'table':
        import pandas as pd
        from pyins.strapdown import compute_increments_from_imu
        from pyins.util import GYRO_COLS, ACCEL_COLS
        fails = []
        for t in (np.array([0.0, 0.013, 0.02, 0.05]), np.array([0.0, 0.01, 0.02 + 2e-8, 0.03]), np.array([100.0, 100.001, 100.002 + 1e-9, 100.003])):
            imu = pd.DataFrame(np.arange(24.0).reshape(4, 6) * 0.01, columns=GYRO_COLS + ACCEL_COLS, index=t)
            for st in ('rate', 'increment'):
                inc = compute_increments_from_imu(imu, st)
                other = imu[ACCEL_COLS + GYRO_COLS].copy()
                other.insert(0, 'temperature', 20.0)
                inc2 = compute_increments_from_imu(other, st)
                if not np.allclose(inc2.values, inc.values, rtol=0, atol=1e-15):
                    fails.append('%s: the same Imu data with another column layout (accelerometers first, a foreign leading column) gives another table (max difference %.3g)' % (st, np.abs(inc2.values - inc.values).max()))
                if len(inc) != 3 or not np.array_equal(inc.index, t[1:]) or not np.allclose(inc['dt'].values, np.diff(t), rtol=0, atol=1e-15):
                    fails.append('%s: rows/stamps/dt are not one per sample after the first (stamps %s: dt column %s)' % (st, t.tolist(), inc['dt'].values.tolist()))
        return {'violated': bool(fails), 'detail': fails}
    v = lambda nm: np.array([pt.get('%s%d' % (nm, i), 0.0) for i in range(3)])
    linear = pr.get('degree', 1) == 1
    a, b, c, d, e, g = v('a'), v('b'), v('c'), v('d'), v('e'), v('g')
    if linear:
        c = g = np.zeros(3)
    mu = None
    if pr.get('irregular'):
        mu = pt.get('mu', 0.5)
        if abs(mu - 1) < 0.05:
            mu = 0.5        # at equal intervals the irregular table is the regular one
    fails = _check_point(a, b, c, d, e, g, pr.get('type', 'rate'), linear, mu, first=(pr.get('irregular') == 'first'))
    if pr.get('irregular') and not fails:
        # "irregular" includes stamps that are ALMOST uniform (clock jitter): interval ratios within
        # 1e-6 .. 1e-3 of one must behave like any other ratio
        for mu_ in (1 + 2e-6, 1 - 1e-5, 1 + 1e-3):
            fails += _check_point(a, b, c, d, e, g, pr.get('type', 'rate'), linear, mu_, first=(pr.get('irregular') == 'first'))
            if fails:
                break
    return {'violated': bool(fails), 'detail': fails}


RIM = {'lat': -84.6, 'lon': 150.0, 'alt': 15000.0, 'VN': 250.0, 'VE': -200.0, 'VD': 5.0, 'roll': 120.0, 'pitch': -60.0, 'heading': -170.0}


def FALLBACK(tier):
    """numeric oracle specs put to the compiled code when the symbolic run is inconclusive (main.py)"""
    return [{'kind': 'selfcheck', 'cases': [{'seed': 11}, {'seed': 12}, {'seed': 13}]}, {'kind': 'numeric', 'check': 'table', 'point': {}}]
