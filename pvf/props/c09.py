"""C09 - feedback filter handles every IMU/measurement interleaving exactly once (engine B)."""
from .. import common

LEVEL = 'model_checking'
PROP = 'C09'
KIND = 'feedback'
FUNC = 'run_feedback_filter'

P, V, BV = 'Position', 'NedVelocity', 'BodyVelocity'


def configs(tier):
    c = [
        dict(label='3inc P1 V1', n_rows=3, sensors=[(P, 1, 2), (V, 1, 2)]),
        dict(label='2inc P2 V1', n_rows=2, sensors=[(P, 2, 2), (V, 1, 2)]),
        dict(label='2inc P3', n_rows=2, sensors=[(P, 3, 2)]),
        dict(label='3inc none', n_rows=3, sensors=[], meas_mode='none'),
        dict(label='3inc empty default-models default-step', n_rows=3, sensors=[], meas_mode='empty',
             default_models=True, default_step=True),
        dict(label='2inc P1 B1 2D models', n_rows=2, sensors=[(P, 1, 2), (BV, 1, 3)], with_altitude=False,
             model_states=(3, 3)),
        dict(label='3inc P1 V1, time+time_step replaced by ANY value >= both operands (rounding-robustness)', n_rows=3,
             sensors=[(P, 1, 2), (V, 1, 2)], havoc_add=True, sample_mod=0),
    ]
    if tier == 'thorough':
        c += [
            dict(label='4inc P2 V1', n_rows=4, sensors=[(P, 2, 2), (V, 1, 2)]),
            dict(label='3inc P2 V2', n_rows=3, sensors=[(P, 2, 2), (V, 2, 2)]),
            dict(label='3inc P1 V1 B1', n_rows=3, sensors=[(P, 1, 2), (V, 1, 2), (BV, 1, 3)]),
            dict(label='2inc P4', n_rows=2, sensors=[(P, 4, 2)]),
            dict(label='5inc P1 V1', n_rows=5, sensors=[(P, 1, 2), (V, 1, 2)]),
            dict(label='4inc P2 V1, time+time_step arbitrary', n_rows=4, sensors=[(P, 2, 2), (V, 1, 2)], havoc_add=True, sample_mod=0),
            # deepest bounds that finish in minutes (measured: 75 k, 36 k, 28 k paths; 5, 1.5, 3.5 min)
            dict(label='4inc P2 V2', n_rows=4, sensors=[(P, 2, 2), (V, 2, 2)], sample_mod=499),
            dict(label='3inc P2 V1 B1', n_rows=3, sensors=[(P, 2, 2), (V, 1, 2), (BV, 1, 3)], sample_mod=499),
            dict(label='6inc P1 V1', n_rows=6, sensors=[(P, 1, 2), (V, 1, 2)], sample_mod=499),
        ]
    return c


CANARIES = [
    # (name, old token, new token) applied to the source of run_feedback_filter in memory
    ('innovation stamped with grid time', 'innovations_times[name].append(measurement_time)', 'innovations_times[name].append(time)'),
    ('measurement due test <=', 'measurement_times[measurement_time_index] < increment.name',
     'measurement_times[measurement_time_index] <= increment.name'),
    ('one epoch per iteration (pre-fix behaviour)', 'while measurement_times[measurement_time_index] < increment.name:',
     'if measurement_times[measurement_time_index] < increment.name:'),
    ('no progress guard', 'next_increment_index += 1', 'next_increment_index += 0'),
    ('span clip drops start', '(measurement_times >= start_time)', '(measurement_times > start_time)'),
]
CANARY_CFG = dict(n_rows=2, sensors=[(P, 2, 2), (V, 1, 2)])


def run(run):
    from ..filterdrive import drive
    drive(run, PROP, KIND, FUNC, configs(run.tier), CANARIES, CANARY_CFG)


def replay(spec):
    from ..filtercheck import replay_schedule
    return replay_schedule(spec)
