"""C11 - feedforward filter = exact linear-Gaussian estimator of its model, claimed as
WIRING (engine A: joint system, initial covariance and output compensation assembled as the
public models define) + DATAFLOW (engine B: on every explored schedule the loop applies the
textbook recursion to the right operands in the right order). That each correction is the exact
conditional update and each prediction the exact discretisation is C07 / C08; the induction from
these to batch optimality is the standard theorem, cited."""
LEVEL = 'other'
PROP = 'C11'

MODEL_CFGS = [
    # (gyro kwargs, accel kwargs) as enable patterns: 1 = enabled (symbolic positive value)
    dict(g=dict(bias=(1, 1, 1), walk=(1, 0, 0), noise=(0, 1, 1), sm=()), a=dict(bias=(1, 1, 1), walk=(0, 0, 1), noise=(1, 1, 1), sm=())),
    dict(g=dict(bias=(1, 0, 1), walk=(1, 0, 1), noise=(1, 0, 0), sm=((0, 0),)), a=dict(bias=(0, 1, 0), walk=(0, 0, 0), noise=(0, 1, 1), sm=((1, 2),))),
    dict(g=dict(bias=(0, 0, 0), walk=(0, 0, 0), noise=(0, 0, 0), sm=()), a=dict(bias=(0, 0, 0), walk=(0, 0, 0), noise=(0, 0, 0), sm=())),
    dict(g=dict(bias=(1, 1, 1), walk=(1, 1, 1), noise=(1, 1, 1), sm=((0, 1), (2, 2))), a=dict(bias=(1, 1, 1), walk=(1, 1, 1), noise=(1, 1, 1), sm=((0, 0), (2, 1)))),
]


def _model(IS, S, tag, cfg):
    import numpy as np
    val = lambda nm, i, on: S.var('%s_%s%d' % (tag, nm, i)) if on else 0
    bias = S.O([val('b', i, cfg['bias'][i]) for i in range(3)])
    walk = S.O([val('w', i, cfg['walk'][i]) for i in range(3)])
    noise = S.O([val('n', i, cfg['noise'][i]) for i in range(3)])
    sm = S.symnp.zeros((3, 3))
    for (i, j) in cfg['sm']:
        sm[i, j] = S.var('%s_s%d%d' % (tag, i, j))
    return IS.EstimationModel(bias_sd=bias, noise=noise, bias_walk=walk, scale_misal_sd=sm), dict(bias=bias, walk=walk, noise=noise, sm=sm)


def _setup(wa, cfg, mutate=None, formal=()):
    import z3
    from .. import symreal as S, enga, paths
    S.new_ctx(list(formal))
    m = enga.install()
    if mutate:
        mutate(m)
    # every symbolic sd is positive: comparisons in the model constructor are decided by the domain
    pre = list(S.C.dom)
    names = []
    for tag, c in (('g', cfg['g']), ('a', cfg['a'])):
        for nm, key in (('b', 'bias'), ('w', 'walk'), ('n', 'noise')):
            names += ['%s_%s%d' % (tag, nm, i) for i in range(3) if c[key][i]]
        names += ['%s_s%d%d' % (tag, i, j) for (i, j) in c['sm']]
    pos = [z3.Real(n) > 0 for n in names] + [z3.Real(n) <= 10 for n in names]
    S.C.dom += pos
    ex = paths.Exec(S.C.dom)
    out = {}

    def build():
        out['gm'], out['gv'] = _model(m['IS'], S, 'g', cfg['g'])
        out['am'], out['av'] = _model(m['IS'], S, 'a', cfg['a'])
        return True
    res, _ = ex.run(build)
    if len(res) != 1 or res[0].status != 'ok':
        raise RuntimeError('sensor model construction forked or failed: %s' % [(r.status, r.out) for r in res][:2])
    return m, out


def section_propagation(rep, wa, cfg, ci, mutate=None):
    """the joint system handed to compute_process_matrices"""
    import numpy as np
    import z3
    from .. import symreal as S, enga
    from .c05 import sym_pva
    m, mo = _setup(wa, cfg, mutate)
    F_, EM = m['F'], m['EM']
    J, O = S.J, S.O
    gm, am = mo['gm'], mo['am']
    pva = sym_pva(lat_range=(-80, 80), pitch_range=(-80, 80))
    if not wa:
        pva['VD'] = J(0)
    gyro = O([S.var('rg%d' % i) for i in range(3)])
    accel = O([S.var('ra%d' % i) for i in range(3)])
    dt = S.var('tdelta')
    cap = {}

    def capture(Fm, Qm, dtt):
        cap['F'], cap['Q'], cap['dt'] = S.symnp.asarray(Fm), S.symnp.asarray(Qm), dtt
        n = len(Fm)
        return S.symnp.eye(n), S.symnp.zeros((n, n))
    enga._set(m['KF'], 'compute_process_matrices', capture)
    em = EM.InsErrorModel(wa)
    F_._compute_error_propagation_matrices(pva, gyro, accel, dt, em, gm, am)
    ni, ng, na = em.n_states, gm.n_states, am.n_states
    n = ni + ng + na
    Fii, Fig, Fia = map(S.symnp.asarray, em.system_matrices(pva))
    Hg = S.symnp.asarray(gm.output_matrix(gyro)) if ng else np.zeros((3, 0), dtype=object)
    Ha = S.symnp.asarray(am.output_matrix(accel)) if na else np.zeros((3, 0), dtype=object)
    Fo = S.symnp.zeros((n, n))
    Fo[:ni, :ni] = Fii
    if ng:
        Fo[:ni, ni:ni + ng] = np.dot(Fig, Hg)
        Fo[ni:ni + ng, ni:ni + ng] = gm.F
    if na:
        Fo[:ni, ni + ng:] = np.dot(Fia, Ha)
        Fo[ni + ng:, ni + ng:] = am.F
    # noise: one term per physical source, independent of any stacking order
    Qo = S.symnp.zeros((n, n))

    def add(block_r, block_c, M):
        for i, r in enumerate(block_r):
            for j, c in enumerate(block_c):
                Qo[r, c] = J(Qo[r, c]) + M[i, j]
    ins = list(range(ni))
    gb = list(range(ni, ni + ng))
    ab = list(range(ni + ng, n))
    sq = lambda v: O([J(x) * x for x in v])
    if gm.n_output_noises:
        A = np.dot(Fig, gm.J)
        add(ins, ins, np.dot(np.dot(A, S.symnp.diag(sq(gm.v))), A.T))
    if am.n_output_noises:
        A = np.dot(Fia, am.J)
        add(ins, ins, np.dot(np.dot(A, S.symnp.diag(sq(am.v))), A.T))
    if gm.n_noises:
        add(gb, gb, np.dot(np.dot(gm.G, S.symnp.diag(sq(gm.q))), S.symnp.asarray(gm.G).T))
    if am.n_noises:
        add(ab, ab, np.dot(np.dot(am.G, S.symnp.diag(sq(am.q))), S.symnp.asarray(am.G).T))
    tag = '%s cfg%d' % ('3D' if wa else '2D', ci)
    meta = {'check': 'propagation', 'params': {'wa': wa, 'cfg': ci}}
    obls = [enga.holds('%s: joint system dimension' % tag, z3.BoolVal(cap.get('F') is not None and cap['F'].shape == (n, n) and cap['Q'].shape == (n, n)), 'joint system', meta=meta)]
    if cap.get('F') is None or cap['F'].shape != (n, n):
        return obls
    obls.append(enga.zero('%s: time step passed through' % tag, J(cap['dt']) - dt, 'joint system', meta=meta))
    for i in range(n):
        for j in range(n):
            obls.append(enga.zero('%s: F[%d,%d] = [[F_ii, F_ig H_g, F_ia H_a],[0,F_g,0],[0,0,F_a]]' % (tag, i, j), J(cap['F'][i, j]) - Fo[i, j], 'joint system', meta=meta))
            obls.append(enga.zero('%s: Q[%d,%d] = sum over noise sources of (input matrix) diag(intensity^2) (input matrix)^T' % (tag, i, j), J(cap['Q'][i, j]) - Qo[i, j], 'joint noise', meta=meta))
    rep.run.encode(F_._compute_error_propagation_matrices)
    return obls


def section_init(rep, wa, cfg, ci, mutate=None):
    import numpy as np
    import z3
    from .. import symreal as S, enga
    from .c05 import sym_pva
    m, mo = _setup(wa, cfg, mutate)
    F_, EM = m['F'], m['EM']
    J, O = S.J, S.O
    gm, am = mo['gm'], mo['am']
    pva = sym_pva()
    sds = {k: S.var(k) for k in ('pos_sd', 'vel_sd', 'level_sd', 'azimuth_sd')}
    S.C.dom += [z3.Real(k) > 0 for k in sds] + [z3.Real(k) <= 100 for k in sds]
    em = EM.InsErrorModel(wa)
    P = S.symnp.asarray(F_._initialize_covariance(pva, sds['pos_sd'], sds['vel_sd'], sds['level_sd'], sds['azimuth_sd'], em, gm, am))
    ni, ng, na = em.n_states, gm.n_states, am.n_states
    n = ni + ng + na
    d = [sds['pos_sd']] * 3 + [sds['vel_sd']] * 3 + [sds['level_sd'], sds['level_sd'], sds['azimuth_sd']]
    Tint = S.symnp.asarray(em.transform_to_internal(pva))
    D = S.symnp.diag(O([x * x for x in d]))
    Po = S.symnp.zeros((n, n))
    Po[:ni, :ni] = np.dot(np.dot(Tint, D), Tint.T)
    if ng:
        Po[ni:ni + ng, ni:ni + ng] = gm.P
    if na:
        Po[ni + ng:, ni + ng:] = am.P
    tag = '%s cfg%d' % ('3D' if wa else '2D', ci)
    meta = {'check': 'init', 'params': {'wa': wa, 'cfg': ci}}
    obls = [enga.holds('%s: initial covariance dimension' % tag, z3.BoolVal(P.shape == (n, n)), 'initial covariance', meta=meta)]
    if P.shape == (n, n):
        for i in range(n):
            for j in range(n):
                obls.append(enga.zero('%s: P0[%d,%d] = blockdiag(T_int diag(sd^2) T_int^T, P_gyro, P_accel)' % (tag, i, j), J(P[i, j]) - Po[i, j], 'initial covariance', meta=meta))
    rep.run.encode(F_._initialize_covariance)
    return obls


def section_result(rep, wa, cfg, ci, mutate=None):
    """_compute_feedforward_result: error table = T_out x, compensated trajectory, sd, sensor tables"""
    import numpy as np
    import pandas as pd
    import z3
    from .. import symreal as S, enga
    from .c05 import sym_pva
    from pyins.util import TRAJECTORY_COLS, TRAJECTORY_ERROR_COLS
    m, mo = _setup(wa, cfg, mutate, formal=[('eps', 1)])
    F_, EM, T = m['F'], m['EM'], m['T']
    J, O = S.J, S.O
    eps = S.formal(0)
    gm, am = mo['gm'], mo['am']
    em = EM.InsErrorModel(wa)
    ni, ng, na = em.n_states, gm.n_states, am.n_states
    n = ni + ng + na
    nominal_row = sym_pva()
    # the computed trajectory is within O(eps) of the nominal one
    comp_row = pd.Series([nominal_row.iloc[i] + S.var('dc%d' % i) * eps for i in range(9)], index=TRAJECTORY_COLS, dtype=object)
    nom = pd.DataFrame([nominal_row.values], columns=TRAJECTORY_COLS, index=[1.0], dtype=object)
    comp = pd.DataFrame([comp_row.values], columns=TRAJECTORY_COLS, index=[1.0], dtype=object)
    x = O([[S.var('x%d' % i) * eps for i in range(n)]])
    Pd = O([S.var('p%d' % i) for i in range(n)])
    S.C.dom += [z3.Real('p%d' % i) >= 0 for i in range(n)] + [z3.Real('p%d' % i) <= 100 for i in range(n)]
    P = O([S.symnp.diag(Pd)])
    res = F_._compute_feedforward_result(x, P, nom, comp, em, gm, am)
    traj, traj_sd, gyro, gyro_sd, accel, accel_sd = res
    Tout = S.symnp.asarray(em.transform_to_output(nominal_row))
    xi = O([S.var('x%d' % i) for i in range(ni)])
    Tx = np.dot(Tout, xi)
    tag = '%s cfg%d' % ('3D' if wa else '2D', ci)
    meta = {'check': 'result', 'params': {'wa': wa, 'cfg': ci}}
    obls = []
    Z = lambda name, e_, fam: obls.append(enga.zero('%s: %s' % (tag, name), e_, fam, meta=meta))
    H = lambda name, ok, fam: obls.append(enga.holds('%s: %s' % (tag, name), z3.BoolVal(bool(ok)), fam, meta=meta))
    # compensated trajectory: state_difference(compensated, computed) = -T_out x to first order
    d = T.compute_state_difference(traj.iloc[0], comp.iloc[0])
    for i, c in enumerate(TRAJECTORY_ERROR_COLS):
        Z('compensated - computed trajectory, %s = -(T_out x)[%d] to first order' % (c, i), J(d.iloc[i]).part(1) + Tx[i], 'output compensation')
        Z('order 0: compensation vanishes with x, %s' % c, J(d.iloc[i]).part(0), 'output compensation')
    # sd^2 = diag(T_out P_ins T_out^T)
    TPT = np.dot(np.dot(Tout, S.symnp.diag(Pd[:ni])), Tout.T)
    for i, c in enumerate(TRAJECTORY_ERROR_COLS):
        sd = J(traj_sd[c].values[0])
        Z('trajectory_sd[%s]^2 = (T_out P T_out^T)[%d,%d]' % (c, i, i), sd * sd - TPT[i, i], 'standard deviations')
    H('sensor tables carry the model state names', list(gyro.columns) == list(gm.states) and list(accel.columns) == list(am.states) and
      list(gyro_sd.columns) == list(gm.states) and list(accel_sd.columns) == list(am.states), 'sensor tables')
    H('all tables indexed by the result times', all(list(t.index) == [1.0] for t in (traj, traj_sd, gyro, gyro_sd, accel, accel_sd)), 'sensor tables')
    for k in range(ng):
        Z('gyro estimate %s = its state' % gm.states[k], J(gyro.values[0][k]).part(1) - S.var('x%d' % (ni + k)), 'sensor tables')
        s_ = J(gyro_sd.values[0][k])
        Z('gyro sd %s ^2 = its covariance' % gm.states[k], s_ * s_ - Pd[ni + k], 'sensor tables')
    for k in range(na):
        Z('accel estimate %s = its state' % am.states[k], J(accel.values[0][k]).part(1) - S.var('x%d' % (ni + ng + k)), 'sensor tables')
        s_ = J(accel_sd.values[0][k])
        Z('accel sd %s ^2 = its covariance' % am.states[k], s_ * s_ - Pd[ni + ng + k], 'sensor tables')
    rep.run.encode(F_._compute_feedforward_result)
    return obls


# ------------------------------------------------------------------------------------------
# dataflow on explored schedules (engine B)
# ------------------------------------------------------------------------------------------
def _dataflow_checker():
    from .. import filtercheck as fc
    from ..symtime import Tok, T, K, mk, _key

    class DataflowChecker(fc.Checker):
        """after the C10 obligations, rebuild the textbook recursion from the schedule and compare
        it term by term with what the loop stored"""

        def extra_obligations(self, ex, res, log, out, add):
            h = self.h
            n = h._nstates()
            ni = 9 if h.with_altitude else 7
            ff = [e for e in log if e[0] == 'ff_result']
            if len(ff) != 1:
                return
            _tag, nom_times, idx, xk, Pk = ff[0]
            pos = [self._pos(ex, t) for t in idx]
            if any(p is None for p in pos):
                return
            ts = h.ts
            nomrow = lambda i: mk('row', 'nominal', i)
            comprow = lambda i: mk('row', 'computed', i)
            x = Tok('zeros', n, n=n).key()
            P = mk('P0', nomrow(0))
            exp_x, exp_P = [], []
            meas_by_step = {}
            # processed samples in order, attributed to the grid step whose interval contains them
            order = [(e[1], e[2], e[3], e[4]) for e in log if e[0] == 'meas']
            mi = 0
            for si, a in enumerate(pos):
                b = pos[si + 1] if si + 1 < len(pos) else None
                # samples processed at this step: those with time in [ts[a], ts[a+1])
                while mi < len(order):
                    sname, j, mt, pvak = order[mi]
                    if a + 1 >= len(ts) or not ex.valid(mt.v < ts[a + 1].v) or not ex.valid(mt.v >= ts[a].v):
                        break
                    alpha = (mt - ts[a]) / (ts[a + 1] - ts[a])
                    want_pva = mk('interp', comprow(a), comprow(a + 1), _key(alpha))
                    out['nobl'] += 1
                    if pvak is not want_pva:
                        add('dataflow_meas_pva', 'sample %s[%d]: measurement model evaluated at a state other than the computed trajectory interpolated to its time' % (sname, j))
                    nrows = 3 if (h.with_altitude or sname == 'BodyVelocity') else 2
                    z = mk('z', sname, j, pvak)
                    Hm = mk('H', sname, j, pvak)
                    R = mk('R', sname)
                    Hf = Tok('zeros', (nrows, n), n=nrows)
                    Hf[:, slice(ni)] = _KRef(Hm)
                    a5 = (x, P, z, Hf.key(), R)
                    x, P = mk('x+', *a5), mk('P+', *a5)
                    mi += 1
                exp_x.append(x)
                exp_P.append(P)
                # prediction to the next grid time
                props = [e for e in log if e[0] == 'prop']
                if si < len(props):
                    e = props[si]
                    nxt = b
                    if nxt is None:
                        # the last stored row: the loop still propagates to where it stops
                        nxt = None
                    td, pvak, gk, ak = e[1], e[2], e[3], e[4]
                    if nxt is not None:
                        out['nobl'] += 2
                        if not ex.valid(td.v == ts[nxt].v - ts[a].v):
                            add('dataflow_time_delta', 'propagation interval of step %d is not the difference of its grid times' % si)
                        if pvak is not mk('interp', nomrow(a), nomrow(nxt), 0.5):
                            add('dataflow_prop_pva', 'step %d: error dynamics evaluated at a state other than the nominal trajectory averaged over the step' % si)
                        # averaged readings: sum of the increments stamped in (t_a, t_next] divided by the interval
                        out['nobl'] += 1
                        if h.with_increments:
                            from ..sched import IncFrame, THETA, DV
                            rows = h.inc_rows(ts[1:], ts[0])[a:nxt]
                            fr = IncFrame(rows)
                            want_g = _key(fr[list(THETA)].sum(axis=0) / td)
                            want_a = _key(fr[list(DV)].sum(axis=0) / td)
                            if gk is not want_g or ak is not want_a:
                                add('dataflow_readings', 'step %d: averaged gyro/accel readings are not the sum of the increments of that step (stamps in (t, t_next]) divided by its length' % si)
                        elif gk is not None or ak is not None:
                            add('dataflow_readings', 'step %d: readings passed although no increments were given' % si)
                    a4 = (pvak, gk, ak, _key(td))
                    Phi, Qd = mk('Phi', *a4), mk('Qd', *a4)
                    x = mk('mm', Phi, x)
                    P = mk('add', mk('mm', mk('mm', Phi, P), mk('T', Phi)), Qd)
            # compare with what the loop stored
            got_x = xk[1][1:] if isinstance(xk, K) and xk[0] == 'asarray' else None
            got_P = Pk[1][1:] if isinstance(Pk, K) and Pk[0] == 'asarray' else None
            out['nobl'] += 2
            if got_x is None or list(got_x) != exp_x:
                add('dataflow_x', 'stored error-state sequence differs from the textbook recursion x <- Phi x, correct(x, P, z, [H|0|0], R) carried between steps')
            if got_P is None or list(got_P) != exp_P:
                add('dataflow_P', 'stored covariance sequence differs from the textbook recursion P <- Phi P Phi^T + Qd, correct(...)')

    class _KRef:
        def __init__(self, k):
            self.k = k

        def key(self):
            return self.k
    return DataflowChecker


DATAFLOW_CANARIES = [
    ('increment batch includes the sample at the step start', 'increments.loc[np.nextafter(time, next_time) : next_time]', 'increments.loc[time : next_time]',
     dict(n_rows=4, sensors=[('Position', 1, 2)], with_increments=True, model_states=(1, 1))),
    ('covariance propagated with Phi^T P Phi', 'P = Phi @ P @ Phi.transpose() + Qd', 'P = Phi.transpose() @ P @ Phi + Qd'),
    ('state not propagated', 'x = Phi @ x', 'x = x'),
    ('measurement model evaluated on the nominal trajectory', 'pva = _interpolate_pva(trajectory.iloc[index], trajectory.iloc[index + 1],', 'pva = _interpolate_pva(trajectory_nominal.iloc[index], trajectory_nominal.iloc[index + 1],'),
    ('dynamics evaluated at the step start only', 'pva_average = _interpolate_pva(pva_old, pva_new, 0.5)', 'pva_average = _interpolate_pva(pva_old, pva_new, 0.0)'),
    ('measurement matrix placed in the wrong block', 'H_full[:, inertial_block] = H', 'H_full[:, slice(1, error_model.n_states + 1)] = H'),
]
WIRING_CANARIES = [
    ('noise vector stacked sensor by sensor', 'prop', ('F', '_compute_error_propagation_matrices', 'q = np.hstack((gyro_model.v, accel_model.v, gyro_model.q, accel_model.q))', 'q = np.hstack((gyro_model.v, gyro_model.q, accel_model.v, accel_model.q))'), 0),
    ('accel coupling uses the gyro output matrix', 'prop', ('F', '_compute_error_propagation_matrices', 'F[ins_block, accel_block] = Fia @ Ha', 'F[ins_block, accel_block] = Fig @ Ha'), 0),
    ('noise intensities not squared', 'prop', ('F', '_compute_error_propagation_matrices', 'G @ np.diag(q**2) @ G.transpose()', 'G @ np.diag(q) @ G.transpose()'), 0),
    ('initial covariance without the internal transform', 'init', ('F', '_initialize_covariance', 'P[ins_block, ins_block] = T @ P_pva @ T.transpose()', 'P[ins_block, ins_block] = P_pva[:error_model.n_states, :error_model.n_states]'), 0),
    ('azimuth sd used for pitch', 'init', ('F', '_initialize_covariance', 'P_pva[error_model.DPITCH, error_model.DPITCH] = level_sd ** 2', 'P_pva[error_model.DPITCH, error_model.DPITCH] = azimuth_sd ** 2'), 0),
    ('velocity compensation sign', 'result', ('F', '_compute_feedforward_result', 'trajectory[VEL_COLS] -= error_nav[VEL_COLS]', 'trajectory[VEL_COLS] += error_nav[VEL_COLS]'), 0),
    ('longitude compensation uses rn', 'result', ('F', '_compute_feedforward_result', 'trajectory.lon -= error_nav.east / rp * transform.RAD_TO_DEG', 'trajectory.lon -= error_nav.east / rn * transform.RAD_TO_DEG'), 0),
    ('gyro sd table from the accel block', 'result', ('F', '_compute_feedforward_result', 'gyro_sd = pd.DataFrame(np.diagonal(P_gyro, axis1=1, axis2=2) ** 0.5,', 'gyro_sd = pd.DataFrame(np.diagonal(P_accel, axis1=1, axis2=2)[:, :len(gyro_model.states)] ** 0.5,'), 3),
]


def run(run):
    import z3
    from .. import enga, common
    from .. import symreal as S
    from .c05 import PVA_BOX
    from .c17 import _mut
    box = dict(PVA_BOX)
    for tag in 'ga':
        for nm in 'bwn':
            for i in range(3):
                box['%s_%s%d' % (tag, nm, i)] = (0.1, 2)
        for i in range(3):
            for j in range(3):
                box['%s_s%d%d' % (tag, i, j)] = (0.1, 2)
    for i in range(3):
        box['rg%d' % i] = (-2, 2)
        box['ra%d' % i] = (-20, 20)
    for k in ('pos_sd', 'vel_sd', 'level_sd', 'azimuth_sd'):
        box[k] = (0.1, 10)
    for i in range(40):
        box['x%d' % i] = (-1, 1)
        box['p%d' % i] = (0.1, 2)
        box['dc%d' % i] = (-1, 1)
    box['tdelta'] = (0.1, 2)
    rep = enga.AReport(run, box=box)
    rep.definedness = True
    run.assume('claimed form: (i) each correction = exact conditional update (C07), (ii) each prediction = exact discretisation (C08), (iii) THIS CHECK: the loop applies them to the right operands in the right order on the time grid, with the joint system, initial covariance and output compensation assembled as the public models define. The induction from (i)-(iii) to equality with a one-shot Gauss-Markov solution is the standard recursion-equals-batch theorem, cited, not mechanised; numerical agreement to rounding is outside',
               'wiring: real _compute_error_propagation_matrices / _initialize_covariance / _compute_feedforward_result with real EstimationModel objects on %d enable-mask pairs with symbolic positive sds, symbolic state and readings; compute_process_matrices is intercepted to capture the joint F and Q; the noise oracle is built per physical noise source (independent of any stacking order)' % len(MODEL_CFGS),
               'dataflow: schedules of C10 (engine B); kalman.correct, the propagation matrices and the interpolation are uninterpreted deterministic tokens, so "equal terms" means the same operations on the same operands in the same order',
               'exact real arithmetic; both altitude modes')
    timeout = 60 if run.tier == 'quick' else 300
    cfgs = list(enumerate(MODEL_CFGS))
    if run.tier == 'quick':
        cfgs = cfgs[:3]
    for wa in (True, False):
        for ci, cfg in cfgs:
            if not wa and ci not in (0, 2):
                continue
            for sec in (section_propagation, section_init, section_result):
                obls = sec(rep, wa, cfg, ci)
                rep.finish(rep.batch(obls, timeout_s=timeout), PROP)
    s = z3.Solver()
    s.add(S.C.cons)
    s.add(S.C.dom)
    run.witness('wiring constraint set satisfiable', s.check() == z3.sat)
    rep.selfcheck(PROP, [{'check': chk, 'point': {}, 'params': {'wa': wa, 'cfg': ci}} for chk in ('propagation', 'init', 'result') for wa in (True, False) for ci in range(len(MODEL_CFGS))])
    from .c05 import _mut_method
    for name, sec, spec, ci in WIRING_CANARIES:
        try:
            f = {'prop': section_propagation, 'init': section_init, 'result': section_result}[sec]
            obls = f(rep, True, MODEL_CFGS[ci], ci, _mut_method(spec))
        except common.HarnessError as e:
            run.canary(name, False, str(e))
            continue
        rep.canary(name, obls, timeout_s=8)
    enga.restore()
    # ---- dataflow on engine B ------------------------------------------------------------------
    dataflow(run)
    run.bounds.update({'model masks': len(cfgs), 'schedules': 'as C10 (engine B), reduced configurations'})


def dataflow(run):
    import importlib
    import pyins.filters as F
    from .. import filterdrive, filtercheck as fc, sched
    from . import c10
    # engine B needs the unpatched module globals of engine A gone
    cls = _dataflow_checker()
    P, V, BV = 'Position', 'NedVelocity', 'BodyVelocity'
    cfgs = [dict(label='dataflow 4rows P1 V1', n_rows=4, sensors=[(P, 1, 2), (V, 1, 2)], model_states=(3, 3)),
            dict(label='dataflow 4rows P1 B1 2D +increments', n_rows=4, sensors=[(P, 1, 2), (BV, 1, 3)], with_altitude=False, with_increments=True, model_states=(2, 4))]
    if run.tier == 'thorough':
        cfgs.append(dict(label='dataflow 5rows P2 V1', n_rows=5, sensors=[(P, 2, 2), (V, 1, 2)], model_states=(3, 3)))
    sub = type(run)(PROP, run.level, run.tier, run.seed)
    sub.t0 = run.t0
    filterdrive.drive(sub, PROP, 'feedforward', 'run_feedforward_filter', cfgs, DATAFLOW_CANARIES,
                      dict(n_rows=3, sensors=[(P, 1, 2), (V, 1, 2)], model_states=(1, 1)), checker_cls=cls, validate_cap=10)
    # merge the sub-run into the main one
    for k, v in sub.families.items():
        run.family(k, v['obligations'], v['discharged'], v['solver_s'])
    run.errors += sub.errors
    run.unknown += sub.unknown
    run.violations += sub.violations
    run.canaries += sub.canaries
    run.witnesses += sub.witnesses
    run.queries += sub.queries
    run.samples += sub.samples[:3]
    run.functions.update(sub.functions)
    for a in sub.assumptions:
        run.assume(a)
    run.cov['dataflow'] = {k: sub.cov.get(k) for k in ('states', 'transitions', 'traces_validated_against_impl', 'configurations')}


def replay(spec):
    """numeric oracles for the wiring, and schedule replays for the dataflow part"""
    import numpy as np
    import pandas as pd
    if spec.get('kind') in ('feedforward', 'feedback'):
        from ..filtercheck import replay_schedule
        r = replay_schedule(spec)
        if r.get('violated') or spec.get('kind') != 'feedforward':
            return r
        return _replay_dataflow(spec, r)
    from pyins import filters, error_model, inertial_sensor, kalman, transform
    from pyins.util import TRAJECTORY_COLS, TRAJECTORY_ERROR_COLS
    pr = spec.get('params') or {}
    wa, ci = pr.get('wa', True), pr.get('cfg', 0)
    cfg = MODEL_CFGS[ci]
    fails = []

    def mk(c, base):
        bias = [base * (i + 1) if c['bias'][i] else 0.0 for i in range(3)]
        walk = [base * 0.1 * (i + 2) if c['walk'][i] else 0.0 for i in range(3)]
        noise = [base * 0.3 * (i + 3) if c['noise'][i] else 0.0 for i in range(3)]
        sm = np.zeros((3, 3))
        for (i, j) in c['sm']:
            sm[i, j] = 0.01 * (1 + i + 2 * j)
        return inertial_sensor.EstimationModel(bias_sd=bias, noise=noise, bias_walk=walk, scale_misal_sd=sm)
    gm, am = mk(cfg['g'], 1e-3), mk(cfg['a'], 1e-1)
    em = error_model.InsErrorModel(wa)
    pva = pd.Series([40.0, 30.0, 1000.0, 50.0, -30.0, 0.0 if not wa else 3.0, 10.0, -20.0, 100.0], index=TRAJECTORY_COLS)
    gyro, accel = np.array([0.1, -0.2, 0.3]), np.array([0.5, -0.3, -9.8])
    ni, ng, na = em.n_states, gm.n_states, am.n_states
    n = ni + ng + na
    if spec.get('check') == 'propagation':
        cap = {}
        orig = kalman.compute_process_matrices

        def capture(Fm, Qm, dt):
            cap['F'], cap['Q'] = np.array(Fm), np.array(Qm)
            return orig(Fm, Qm, dt)
        filters.kalman.compute_process_matrices = capture
        try:
            filters._compute_error_propagation_matrices(pva, gyro, accel, 0.5, em, gm, am)
        finally:
            filters.kalman.compute_process_matrices = orig
        Fii, Fig, Fia = em.system_matrices(pva)
        Fo = np.zeros((n, n))
        Fo[:ni, :ni] = Fii
        if ng:
            Fo[:ni, ni:ni + ng] = Fig @ gm.output_matrix(gyro)
        if na:
            Fo[:ni, ni + ng:] = Fia @ am.output_matrix(accel)
        Qo = np.zeros((n, n))
        A = Fig @ gm.J
        Qo[:ni, :ni] += A @ np.diag(gm.v ** 2) @ A.T
        A = Fia @ am.J
        Qo[:ni, :ni] += A @ np.diag(am.v ** 2) @ A.T
        Qo[ni:ni + ng, ni:ni + ng] += gm.G @ np.diag(gm.q ** 2) @ gm.G.T
        Qo[ni + ng:, ni + ng:] += am.G @ np.diag(am.q ** 2) @ am.G.T
        if not np.allclose(cap['F'], Fo, rtol=1e-12, atol=1e-18):
            fails.append('joint dynamics matrix differs from [[F_ii, F_ig H_g, F_ia H_a],[0,F_g,0],[0,0,F_a]]')
        if not np.allclose(cap['Q'], Qo, rtol=1e-10, atol=1e-30):
            fails.append('joint noise matrix differs from the sum over the noise sources (max relative %.3g)' % (np.abs(cap['Q'] - Qo).max() / max(np.abs(Qo).max(), 1e-300)))
    elif spec.get('check') == 'init':
        P = filters._initialize_covariance(pva, 10.0, 1.0, 0.5, 2.0, em, gm, am)
        Tint = em.transform_to_internal(pva)
        D = np.diag(np.array([10, 10, 10, 1, 1, 1, 0.5, 0.5, 2.0]) ** 2)
        Po = np.zeros((n, n))
        Po[:ni, :ni] = Tint @ D @ Tint.T
        Po[ni:ni + ng, ni:ni + ng] = gm.P
        Po[ni + ng:, ni + ng:] = am.P
        if P.shape != Po.shape or not np.allclose(P, Po, rtol=1e-10, atol=1e-20):
            fails.append('initial covariance differs from blockdiag(T_int diag(sd^2) T_int^T, P_gyro, P_accel)')
    elif spec.get('check') == 'result':
        rng = np.random.RandomState(4)
        x = rng.randn(1, n) * 1e-4
        Pd = rng.uniform(0.5, 2, n)
        nom = pd.DataFrame([pva.values], columns=TRAJECTORY_COLS, index=[1.0])
        comp = nom.copy()
        comp.iloc[0] = pva.values + rng.randn(9) * 1e-5
        traj, traj_sd, g, gsd, a, asd = filters._compute_feedforward_result(x, np.array([np.diag(Pd)]), nom, comp, em, gm, am)
        Tout = em.transform_to_output(pva)
        d = transform.compute_state_difference(traj.iloc[0], comp.iloc[0]).values
        sc = np.array([1, 1, 1, 1, 1, 1, 57.3, 57.3, 57.3])
        if np.abs((d + Tout @ x[0, :ni]) / sc).max() > 1e-3 * max(np.abs(Tout @ x[0, :ni] / sc).max(), 1e-12) + 1e-9:
            fails.append('compensated trajectory does not differ from the computed one by -T_out x')
        if not np.allclose(traj_sd.values[0] ** 2, np.diag(Tout @ np.diag(Pd[:ni]) @ Tout.T), rtol=1e-9, atol=1e-20):
            fails.append('trajectory_sd^2 != diag(T_out P T_out^T)')
        if list(g.columns) != gm.states or list(a.columns) != am.states or not np.allclose(g.values[0], x[0, ni:ni + ng]) or not np.allclose(a.values[0], x[0, ni + ng:]):
            fails.append('sensor estimate tables are not the state sub-vectors under the model state names')
        if not np.allclose(gsd.values[0] ** 2, Pd[ni:ni + ng]) or not np.allclose(asd.values[0] ** 2, Pd[ni + ng:]):
            fails.append('sensor sd tables are not the square roots of their covariance blocks')
    return {'violated': bool(fails), 'detail': fails}


def _replay_dataflow(spec, r):
    """the dataflow claims on the real loop for one concrete schedule: recording wrappers around
    _compute_error_propagation_matrices, _interpolate_pva and kalman.correct (module attributes of the
    running interpreter, nothing in /repo is touched) and an independent recomputation of what each
    step must be given"""
    import numpy as np
    import pandas as pd
    from pyins import filters, measurements, inertial_sensor
    from pyins.util import TRAJECTORY_COLS
    stamps = np.array(spec['stamps'], dtype=float)
    wa = spec['with_altitude']
    n = len(stamps)
    base = np.array([50.0, 30.0, 100.0, 1.0, -2.0, 0.0 if not wa else 0.5, 1.0, -2.0, 40.0])
    rows = np.tile(base, (n, 1))
    rows[:, 0] += 1e-6 * np.arange(n)
    rows[:, 3] += 0.1 * np.arange(n)
    nominal = pd.DataFrame(rows, index=pd.Index(stamps, name='time'), columns=TRAJECTORY_COLS)
    computed = nominal.copy()
    computed['lat'] += 2e-6
    computed['VE'] += 0.05
    dt = np.diff(stamps)
    inc = pd.DataFrame({'dt': dt}, index=pd.Index(stamps[1:], name='time'))
    rng = np.random.RandomState(3)
    for c in ['theta_x', 'theta_y', 'theta_z']:
        inc[c] = rng.randn(n - 1) * 1e-3
    for c in ['dv_x', 'dv_y', 'dv_z']:
        inc[c] = rng.randn(n - 1) * 1e-2
    meas = []
    for name, times in spec['sensors'].items():
        times = np.array(times, dtype=float)
        if name == 'Position':
            meas.append(measurements.Position(pd.DataFrame({'lat': 50.0, 'lon': 30.0, 'alt': 100.0}, index=times), 5.0))
        elif name == 'NedVelocity':
            meas.append(measurements.NedVelocity(pd.DataFrame({'VN': 1.0, 'VE': -2.0, 'VD': 0.0}, index=times), 0.5))
        else:
            meas.append(measurements.BodyVelocity(pd.DataFrame({'VX': 1.0, 'VY': 0.0, 'VZ': 0.1}, index=times), 0.5))
    if spec['meas_mode'] != 'list':
        meas = []
    gm = inertial_sensor.EstimationModel(bias_sd=1e-5, noise=1e-6, scale_misal_sd=1e-3)
    am = inertial_sensor.EstimationModel(bias_sd=1e-2, noise=1e-3, scale_misal_sd=1e-3)
    rec = []
    events = []
    mrec = []
    orig = filters._compute_error_propagation_matrices
    from pyins import kalman as kalman_mod, error_model as em_mod
    orig_correct = kalman_mod.correct

    def wrap(pva, gyro, accel, time_delta, *a):
        rec.append((pva.copy(), None if gyro is None else np.array(gyro, dtype=float), None if accel is None else np.array(accel, dtype=float), float(time_delta)))
        out = orig(pva, gyro, accel, time_delta, *a)
        events.append(('prop', np.array(out[0], dtype=float), np.array(out[1], dtype=float)))
        return out

    def wrap_correct(x, P, z, H, R):
        xi, Pi = np.array(x, dtype=float), np.array(P, dtype=float)
        out = orig_correct(x, P, z, H, R)
        events.append(('corr', xi, Pi, np.array(z, dtype=float), np.array(H, dtype=float), np.array(R, dtype=float), np.array(out[0], dtype=float), np.array(out[1], dtype=float)))
        return out
    for ms in meas:
        def mk(ms_):
            real = ms_.compute_matrices

            def cm(time, pva, *a, **k):
                ret = real(time, pva, *a, **k)
                if ret is not None:
                    mrec.append((float(time), pva.copy(), [np.array(t_, dtype=float) for t_ in ret]))
                return ret
            return cm
        ms.compute_matrices = mk(ms)
    filters._compute_error_propagation_matrices = wrap
    kalman_mod.correct = wrap_correct
    failed = []
    try:
        kw = {} if spec.get('default_step') else {'time_step': spec['step']}
        res = filters.run_feedforward_filter(nominal, computed, 10.0, 1.0, 1.0, 1.0, gyro_model=gm, accel_model=am, measurements=meas,
                                             increments=inc, with_altitude=wa, **kw)
    except Exception as e:      # noqa: BLE001
        failed.append('exception %s: %s' % (type(e).__name__, str(e)[:160]))
        res = None
    finally:
        filters._compute_error_propagation_matrices = orig
        kalman_mod.correct = orig_correct
    if res is not None:
        ri = list(res.trajectory.index)
        pos = [int(np.nonzero(stamps == t)[0][0]) for t in ri]
        for k, (pva, g, a, td) in enumerate(rec):
            if k + 1 >= len(pos):
                break
            lo, hi = stamps[pos[k]], stamps[pos[k + 1]]
            sel = inc[(inc.index > lo) & (inc.index <= hi)]
            wg = sel[['theta_x', 'theta_y', 'theta_z']].sum(axis=0).values / (hi - lo)
            wa_ = sel[['dv_x', 'dv_y', 'dv_z']].sum(axis=0).values / (hi - lo)
            if abs(td - (hi - lo)) > 1e-12:
                failed.append('step %d: propagation interval %.6g is not the difference of its grid times %.6g' % (k, td, hi - lo))
            if g is None or not np.allclose(g, wg, rtol=1e-12, atol=1e-18) or not np.allclose(a, wa_, rtol=1e-12, atol=1e-18):
                failed.append('step %d: averaged readings are not the sum of the increments stamped in (t, t_next] divided by the step length' % k)
            want = 0.5 * (nominal.iloc[pos[k]][['lat', 'lon', 'alt', 'VN', 'VE', 'VD']].values + nominal.iloc[pos[k + 1]][['lat', 'lon', 'alt', 'VN', 'VE', 'VD']].values)
            if not np.allclose(pva[['lat', 'lon', 'alt', 'VN', 'VE', 'VD']].values.astype(float), want, rtol=1e-12, atol=1e-12):
                failed.append('step %d: error dynamics not evaluated at the nominal trajectory averaged over the step' % k)
        # the estimate chain: every correction starts from the state and covariance left by the
        # previous event, every propagation is x -> Phi x, P -> Phi P Phi^T + Qd with the matrices
        # the loop itself computed; the first correction / propagation starts from x = 0
        n_err = em_mod.InsErrorModel(wa).n_states
        x = P = None
        close = lambda u, v: np.allclose(u, v, rtol=1e-10, atol=1e-14 * max(1.0, float(np.abs(v).max()) if np.size(v) else 1.0))
        mi = 0
        for ev in events:
            if ev[0] == 'prop':
                if x is None:
                    x = np.zeros(len(ev[1]))
                if P is not None:
                    P = ev[1] @ P @ ev[1].T + ev[2]
                x = ev[1] @ x
            else:
                _t, xi, Pi, z, H, R, xo, Po = ev
                if x is None:
                    x = np.zeros(len(xi))
                if not close(xi, x):
                    failed.append('a correction does not start from the error state left by the previous step (x chain broken): max diff %.3g' % np.abs(xi - x).max())
                if P is not None and not close(Pi, P):
                    failed.append('a correction does not start from the covariance left by the previous step (P chain broken)')
                if mi < len(mrec):
                    tm, mp, (zr, Hr, Rr) = mrec[mi]
                    mi += 1
                    if H.shape[1] < n_err or not close(H[:, :n_err], Hr) or np.abs(H[:, n_err:]).max(initial=0.0) != 0:
                        failed.append('measurement matrix is not placed in the block of the navigation error states (zero elsewhere)')
                    if not close(z, zr) or not close(R, Rr):
                        failed.append('correction does not use the residual / noise covariance of the measurement model')
                    kk = int(np.searchsorted(stamps, tm, side='right') - 1)
                    kk = min(max(kk, 0), n - 2)
                    al = (tm - stamps[kk]) / (stamps[kk + 1] - stamps[kk])
                    cols = ['lat', 'lon', 'alt', 'VN', 'VE', 'VD']
                    want = (1 - al) * computed.iloc[kk][cols].values + al * computed.iloc[kk + 1][cols].values
                    if not np.allclose(mp[cols].values.astype(float), want, rtol=1e-11, atol=1e-11):
                        failed.append('measurement at %.6g is not evaluated on the computed trajectory interpolated to its time' % tm)
                x, P = xo, Po
    r['failed'] = list(r.get('failed') or []) + failed[:4]
    r['violated'] = bool(r['failed'])
    return r


RIM = {'lat': -84.6, 'lon': 150.0, 'alt': 15000.0, 'VN': 250.0, 'VE': -200.0, 'VD': 5.0, 'roll': 120.0, 'pitch': -60.0, 'heading': -170.0}


def FALLBACK(tier):
    """numeric oracle specs put to the compiled code when the symbolic run is inconclusive (main.py)"""
    return [{'check': chk, 'point': {}, 'params': {'wa': wa, 'cfg': ci}} for chk in ('propagation', 'init', 'result') for wa in (True, False) for ci in range(len(MODEL_CFGS))]
