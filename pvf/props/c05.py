"""C05 - error-state coordinates, correction and output transforms agree (engine A, eps-jets)."""
LEVEL = 'other'
PROP = 'C05'


def sym_pva(with_rates=False, lat_range=(-85, 85), pitch_range=(-85, 85)):
    import pandas as pd
    import z3
    from .. import symreal as S
    from pyins.util import TRAJECTORY_COLS, RATE_COLS
    vals = {
        'lat': S.declare_angle('lat', *lat_range), 'lon': S.declare_angle('lon', -180, 180), 'alt': S.var('alt'),
        'VN': S.var('VN'), 'VE': S.var('VE'), 'VD': S.var('VD'),
        'roll': S.declare_angle('roll', -180, 180), 'pitch': S.declare_angle('pitch', *pitch_range),
        'heading': S.declare_angle('heading', -180, 180)}
    S.C.dom += [z3.Real('alt') >= -1000, z3.Real('alt') <= 30000]
    S.C.dom += [z3.Real(v) >= -300 for v in ('VN', 'VE', 'VD')] + [z3.Real(v) <= 300 for v in ('VN', 'VE', 'VD')]
    names = list(TRAJECTORY_COLS)
    if with_rates:
        for r in RATE_COLS:
            vals[r] = S.var(r)
            S.C.dom += [z3.Real(r) >= -3, z3.Real(r) <= 3]
        names += list(RATE_COLS)
    # touch the cosines so that their sign facts exist
    vals['lat'].deg2rad().cos()
    vals['pitch'].deg2rad().cos()
    return pd.Series([vals[n] for n in names], index=names, dtype=object)


PVA_BOX = {'lat': (-85, 85), 'lon': (-179, 179), 'alt': (0, 20000), 'VN': (-200, 200), 'VE': (-200, 200), 'VD': (-50, 50),
           'roll': (-179, 179), 'pitch': (-85, 85), 'heading': (-179, 179), 'rate_x': (-2, 2), 'rate_y': (-2, 2), 'rate_z': (-2, 2)}


def section(rep, wa, order=1, mutate=None):
    import numpy as np
    import pandas as pd
    import z3
    from .. import symreal as S, enga
    from pyins.util import TRAJECTORY_COLS, TRAJECTORY_ERROR_COLS, LLA_COLS, VEL_COLS, RPH_COLS
    S.new_ctx([('eps', order)])
    m = enga.install()
    EM, T, SIM = m['EM'], m['T'], m['SIM']
    if mutate:
        mutate(m)
    J, O = S.J, S.O
    eps = S.formal(0)
    pva = sym_pva()
    em = EM.InsErrorModel(wa)
    n = em.n_states
    x = O([S.var('x%d' % i) for i in range(n)])
    S.C.dom += [z3.Real('x%d' % i) >= -10 for i in range(n)] + [z3.Real('x%d' % i) <= 10 for i in range(n)]
    tag = '3D' if wa else '2D'
    meta = {'check': 'correct', 'params': {'wa': wa}}
    # data-dependent branches of the code under test (none in the unmodified tree) are explored
    # by the path executor: the obligations of a path hold under its path condition
    from .. import paths
    ex = paths.Exec(S.C.dom + S.deg_domain(), timeout_ms=4000)
    orig_decide = ex.decide

    def decide(cond):
        for c_ in S.C.cons[getattr(ex, '_nc', 0):]:
            ex.solver.add(c_)
        ex._nc = len(S.C.cons)
        return orig_decide(cond)
    ex.decide = decide
    dom0 = list(S.C.dom)
    res, _ = ex.run(lambda: (setattr(ex, '_nc', 0), S.C.dom.__setitem__(slice(None), dom0), _section_body(S, enga, m, em, pva, x, eps, wa, order, tag, meta))[2], max_paths=64)
    all_obls, info = [], None
    for pr in res:
        if pr.status == 'abort' and pr.out == 'INFEASIBLE':
            continue
        if pr.status == 'abort' and pr.out == 'UNKNOWN':
            # a data-dependent branch the control solver could not decide: this path is not verified
            rep.run.unknown.append('%s: a path of correct_pva / perturb_pva could not be decided by the control solver (branch on a symbolic value)' % tag)
            continue
        if pr.status != 'ok':
            raise RuntimeError('correct_pva / perturb_pva failed symbolically: %s' % (pr.out,))
        obls, info = pr.out
        for ob in obls:
            ob.extra = list(ob.extra) + list(pr.pc)
        all_obls += obls
    rep.run.encode(EM.InsErrorModel.correct_pva, EM.InsErrorModel.transform_to_output, EM.InsErrorModel.transform_to_internal,
                   EM.InsErrorModel._transform_to_output_3d, EM.InsErrorModel._transform_3d_2d, EM._phi_to_delta_rph,
                   T.compute_state_difference, T.perturb_lla, SIM.perturb_pva, m['U'].to_180_range)
    if info is None:
        raise RuntimeError('no path of correct_pva / perturb_pva could be executed symbolically')
    info['n_paths'] = len([p_ for p_ in res if p_.status == 'ok'])
    return all_obls, info


def _section_body(S, enga, m, em, pva, x, eps, wa, order, tag, meta):
    import numpy as np
    import pandas as pd
    import z3
    from pyins.util import TRAJECTORY_COLS, TRAJECTORY_ERROR_COLS
    EM, T, SIM = m['EM'], m['T'], m['SIM']
    J, O = S.J, S.O
    n = em.n_states
    obls = []
    Z = lambda name, e_, fam: obls.append(enga.zero('%s: %s' % (tag, name), e_, fam, meta=meta))
    # (b) applying eps*x as a correction changes the state by eps * T_out x
    pc = em.correct_pva(pva, x * eps)
    d = T.compute_state_difference(pva, pc)
    Tout = S.symnp.asarray(em.transform_to_output(pva))
    Tx = np.dot(Tout, x)
    for i, name in enumerate(TRAJECTORY_ERROR_COLS):
        Z('order 0: correction by 0 leaves %s unchanged' % name, J(d.iloc[i]).part(0), 'correction = output transform to first order')
        Z('state_difference(pva, correct_pva(pva, eps x)).%s = eps (T_out x)[%d]' % (name, i), J(d.iloc[i]).part(1) - Tx[i],
          'correction = output transform to first order')
    second = None
    if order >= 2:
        second = [J(d.iloc[i]).part(2) for i in range(9)]
    # (c) perturb with an output-space error, correct with the corresponding internal vector
    e = pd.Series([S.var('e_%s' % c) for c in TRAJECTORY_ERROR_COLS], index=TRAJECTORY_ERROR_COLS, dtype=object)
    S.C.dom += [z3.Real('e_%s' % c) >= -10 for c in TRAJECTORY_ERROR_COLS] + [z3.Real('e_%s' % c) <= 10 for c in TRAJECTORY_ERROR_COLS]
    if not wa:
        e['down'] = J(0)
        e['VD'] = J(0)
    ins = SIM.perturb_pva(pva, e * eps)
    Tint = S.symnp.asarray(em.transform_to_internal(pva))
    xi = np.dot(Tint, e.values)
    back = em.correct_pva(ins, xi * eps)
    for i, name in enumerate(TRAJECTORY_COLS):
        Z('correct_pva(perturb_pva(pva, eps e), eps T_int e).%s = pva.%s to first order' % (name, name), J(back.iloc[i]).part(1),
          'perturb then correct restores the state')
        Z('order 0 of perturb/correct: %s' % name, J(back.iloc[i]).part(0) - pva.iloc[i], 'perturb then correct restores the state')
    # (a) left inverse
    TT = np.dot(Tint, Tout)
    for i in range(n):
        for j in range(n):
            Z('(T_int T_out)[%d,%d] = I' % (i, j), J(TT[i, j]) - (1 if i == j else 0), 'output-to-internal is a left inverse')
    # (e) no-altitude mode
    if not wa:
        for row, nm in ((2, 'down'), (5, 'VD')):
            for j in range(n):
                Z('T_out row %s column %d is identically zero' % (nm, j), J(Tout[row, j]), 'no-altitude rows identically zero')
        for k in range(order + 1):
            Z('correct_pva returns VD as received (eps^%d)' % k, (J(pc['VD']) - pva['VD']).part(k), 'no-altitude: correction never changes altitude / VD')
            Z('correct_pva returns alt as received (eps^%d)' % k, (J(pc['alt']) - pva['alt']).part(k), 'no-altitude: correction never changes altitude / VD')
    return obls, {'second': second, 'Tout': Tout, 'pva': pva, 'n': n}


def _is_literal_zero(v):
    from .. import symreal as S
    if isinstance(v, S.Sym):
        return not v.co
    return v == 0


CANARIES = [
    ('correct_pva position sign', ('EM', 'InsErrorModel.correct_pva', 'transform.perturb_lla(pva[LLA_COLS], -x[self.DR])', 'transform.perturb_lla(pva[LLA_COLS], x[self.DR])'), True),
    ('correct_pva rotates velocity with the transpose', ('EM', 'InsErrorModel.correct_pva', 'velocity_n = mat_tp @ (pva[VEL_COLS] - x[self.DV])', 'velocity_n = mat_tp.T @ (pva[VEL_COLS] - x[self.DV])'), True),
    ('output transform velocity/attitude coupling sign', ('EM', 'InsErrorModel._transform_to_output_3d', 'result[np.ix_(samples, cls.DV_OUT, cls.PHI)] = util.skew_matrix(', 'result[np.ix_(samples, cls.DV_OUT, cls.PHI)] = -util.skew_matrix('), True),
    ('2D embedding sign', ('EM', 'InsErrorModel._transform_3d_2d', 'result[:, 5, 5] = -VN', 'result[:, 5, 5] = VN'), False),
    ('2D correct_pva forgets to restore VD', ('EM', 'InsErrorModel.correct_pva', 'velocity_n[2] = pva.VD', 'pass'), False),
    ('perturb_pva heading sign', ('SIM', 'perturb_pva', 'result[RPH_COLS] += pva_error[RPH_COLS]', 'result[RPH_COLS] -= pva_error[RPH_COLS]'), True),
    ('state difference east uses rn', ('T', 'compute_state_difference', 'difference.lon *= rp * DEG_TO_RAD', 'difference.lon *= rn * DEG_TO_RAD'), True),
]


def _mut_method(spec):
    """mutate a function or a `Class.method`"""
    from .. import common
    modk, fname, old, new = spec

    def mutate(m):
        from .. import enga
        mod = m[modk]
        if '.' in fname:
            cls_name, meth = fname.split('.')
            cls = getattr(mod, cls_name)
            key = (mod.__name__ + '.' + cls_name, meth)
            raw = cls.__dict__[meth]
            if key not in enga._ORIG:
                enga._ORIG[key] = (cls, raw, True)
            orig = enga._ORIG[key][1]
            is_cm = isinstance(orig, classmethod)
            f = orig.__func__ if is_cm else orig
            g = common.mutate_source(f, old, new, mod.__dict__)
            setattr(cls, meth, classmethod(g) if is_cm else g)
        else:
            enga._save(mod, fname)
            orig = enga._ORIG[(mod.__name__, fname)][1]
            setattr(mod, fname, common.mutate_source(orig, old, new, mod.__dict__))
    return mutate


def run(run):
    import z3
    from .. import enga, common
    from .. import symreal as S
    box = dict(PVA_BOX)
    for i in range(9):
        box['x%d' % i] = (-1, 1)
    for c in ('north', 'east', 'down', 'VN', 'VE', 'VD', 'roll', 'pitch', 'heading'):
        box['e_%s' % c] = (-1, 1)
    rep = enga.AReport(run, box=box)
    rep.definedness = True
    run.assume('exact real arithmetic; |lat| <= 85 deg, |pitch| <= 85 deg, |V| <= 300 m/s per axis, altitude [-1, 30] km',
               'smallness of the error vector is the formal parameter eps: "to first order" = the eps^1 coefficient, "up to second order" = the eps^1 coefficient of the residual is identically zero',
               'Rotation.from_rotvec / from_euler / as_euler and np.linalg.inv are stubs of the library contract (exponential series; elementary rotations; atan2 angle recovery; adjugate/det)',
               'WGS-84 constants as exact rationals of their doubles')
    timeout = 60 if run.tier == 'quick' else 300
    for wa in (True, False):
        obls, info = section(rep, wa, order=1 if wa else 2)
        rep.finish(rep.batch(obls, timeout_s=timeout), PROP)
        s = z3.Solver()
        s.add(S.C.cons)
        s.add(S.C.dom)
        run.witness('%s: constraint set satisfiable' % ('3D' if wa else '2D'), s.check() == z3.sat)
    # (d) the residual is exactly second order: some eps^2 coefficient is not identically zero
    obls, info = section(rep, True, order=2)
    neg = [enga.Obligation('eps^2 coefficient of component %d vanishes identically' % i, e.c0 != 0, 'second order witness', e.c0)
           for i, e in enumerate(info['second'])]
    res = enga.discharge(neg, timeout_s=20)
    nonzero = 0
    for ob, r in zip(neg, res):
        if r['result'] == 'sat' or (r['result'] == 'unknown' and rep.triage(ob, r)):
            nonzero += 1
    run.witness('the correction residual has a non-zero eps^2 coefficient (it is second order, not higher)', nonzero >= 1)
    run.cov['second_order_components_nonzero'] = nonzero
    validate(rep)
    for name, spec, wa in CANARIES:
        try:
            obls, _ = section(rep, wa, 2 if 'forgets to restore VD' in name else 1, _mut_method(spec))
        except common.HarnessError as e:
            run.canary(name, False, str(e))
            continue
        rep.canary(name, obls, timeout_s=10)
    enga.restore()
    run.bounds.update({'series order': 'eps^1 (eps^2 for the order witness)', 'modes': 'with_altitude True and False'})


def validate(rep):
    import random
    from .. import common, enga
    from .. import symreal as S
    from pyins.util import TRAJECTORY_COLS
    run = rep.run
    rng = random.Random(run.seed + 5)
    cases = []
    for wa in (True, False):
        S.new_ctx()
        m = enga.install()
        pva = sym_pva()
        em = m['EM'].InsErrorModel(wa)
        Tout = S.symnp.asarray(em.transform_to_output(pva))
        for _ in range(3 if run.tier == 'quick' else 20):
            pt = {k: rng.uniform(*PVA_BOX[k]) for k in TRAJECTORY_COLS}
            ev = S.Evaluator(S.C, pt)
            cases.append({'func': 'pvf.props.c05._t_out', 'args': [[pt[k] for k in TRAJECTORY_COLS], wa],
                          'expected': ev.arr(Tout).tolist(), 'rtol': 1e-9, 'atol': 1e-12})
    res = common.run_replays([{'property': PROP, 'kind': 'validate', 'cases': cases}])[0]
    if res.get('error'):
        run.error('translator validation failed to run: %s' % res['error'])
    elif res.get('mismatch'):
        run.error('translator validation mismatch: %s' % res['mismatch'][:1])
    run.cov['translator_validation_cases'] = len(cases)


def _t_out(pva_values, wa):
    import pandas as pd
    from pyins.error_model import InsErrorModel
    from pyins.util import TRAJECTORY_COLS
    return InsErrorModel(bool(wa)).transform_to_output(pd.Series(pva_values, index=TRAJECTORY_COLS))


def replay(spec):
    import numpy as np
    import pandas as pd
    if spec['kind'] == 'validate':
        from ..validate import run_validate
        return run_validate(spec)
    from pyins import error_model, transform, sim
    from pyins.util import TRAJECTORY_COLS, TRAJECTORY_ERROR_COLS
    pt = spec['point']
    wa = (spec.get('params') or {}).get('wa', True)
    defaults = dict(lat=40.0, lon=30.0, alt=1000.0, VN=20.0, VE=-10.0, VD=3.0, roll=10.0, pitch=-20.0, heading=100.0)
    pva = pd.Series([pt.get(k, defaults[k]) for k in TRAJECTORY_COLS], index=TRAJECTORY_COLS)
    em = error_model.InsErrorModel(wa)
    n = em.n_states
    x = np.array([pt.get('x%d' % i, 0.3 * (i % 3) - 0.2) for i in range(n)])
    fails = []
    Tout = em.transform_to_output(pva)
    Tint = em.transform_to_internal(pva)
    if not np.allclose(Tint @ Tout, np.eye(n), atol=1e-9):
        fails.append('T_int T_out != I')
    scale = np.array([1, 1, 1, 1, 1, 1, 180 / np.pi, 180 / np.pi, 180 / np.pi])
    errs = []
    for eps in (1e-4, 1e-5):
        pc = em.correct_pva(pva, eps * x)
        d = transform.compute_state_difference(pva, pc).values / eps
        errs.append(np.abs((d - Tout @ x) / scale).max())
    ref = max(1.0, np.abs(Tout @ x / scale).max())
    if min(errs) > 1e-2 * ref:
        fails.append('state_difference(pva, correct_pva(pva, eps x))/eps deviates from T_out x by %.3g (scale %.3g)' % (min(errs), ref))
    # a pure position correction of a kilometre: the velocity and attitude blocks must follow
    # T_out x on their own scale (they are exactly unchanged in the unmodified code)
    xp = np.zeros(n)
    xp[:2] = [1500.0, -2000.0]
    pc = em.correct_pva(pva, xp)
    d = transform.compute_state_difference(pva, pc).values
    w = Tout @ xp
    if np.abs(d[3:6] - w[3:6]).max() > 1e-5 or np.abs(d[6:9] - w[6:9]).max() > 1e-5:
        fails.append('a pure position correction changes velocity / attitude: velocity by %s m/s, attitude by %s deg (T_out x predicts %s, %s)' % (
            d[3:6].tolist(), d[6:9].tolist(), w[3:6].tolist(), w[6:9].tolist()))
    e = pd.Series([pt.get('e_%s' % c, 0.5) for c in TRAJECTORY_ERROR_COLS], index=TRAJECTORY_ERROR_COLS)
    if not wa:
        e['down'] = 0.0
        e['VD'] = 0.0
    errs = []
    for eps in (1e-3, 1e-4):
        ins = sim.perturb_pva(pva, eps * e)
        back = em.correct_pva(ins, eps * (Tint @ e.values))
        dd = transform.compute_state_difference(back, pva).values / eps
        errs.append(np.abs(dd / scale).max())
    if min(errs) > 1e-2 * max(1.0, np.abs(e.values / scale).max()):
        fails.append('correct_pva(perturb_pva(pva, e), T_int e) does not restore the state to first order (residual/eps = %.3g)' % min(errs))
    if not wa:
        if np.any(Tout[2] != 0) or np.any(Tout[5] != 0):
            fails.append('2D: down / VD rows of T_out are not identically zero')
        pc = em.correct_pva(pva, 0.01 * x)
        if pc['alt'] != pva['alt'] or pc['VD'] != pva['VD']:
            fails.append('2D: correct_pva changed altitude or vertical velocity')
    return {'violated': bool(fails), 'detail': fails}


RIM = {'lat': -84.6, 'lon': 150.0, 'alt': 15000.0, 'VN': 250.0, 'VE': -200.0, 'VD': 5.0, 'roll': 120.0, 'pitch': -60.0, 'heading': -170.0}


def FALLBACK(tier):
    """numeric oracle specs put to the compiled code when the symbolic run is inconclusive (main.py)"""
    return [{'check': 'correct', 'point': p, 'params': {'wa': wa}} for wa in (True, False) for p in ({}, RIM, {'lon': 180.0}, {'lon': -180.0, 'lat': -20.0})]
