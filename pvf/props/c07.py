"""C07 - Kalman correction is the exact Bayesian posterior with whitened innovation (engine A:
the real kalman.correct on fully symbolic x, P, z, H, R with explicit linear-algebra stubs)."""
LEVEL = 'other'
PROP = 'C07'


def _inputs(n, m, diagR=False):
    from .. import symreal as S
    P = S.O([[S.var('P%d%d' % (min(i, j), max(i, j))) for j in range(n)] for i in range(n)])
    if diagR:
        R = S.O([[S.var('R%d%d' % (i, i)) if i == j else 0 for j in range(m)] for i in range(m)])
    else:
        R = S.O([[S.var('R%d%d' % (min(i, j), max(i, j))) for j in range(m)] for i in range(m)])
    H = S.O([[S.var('H%d%d' % (i, j)) for j in range(n)] for i in range(m)])
    x = S.O([S.var('x%d' % i) for i in range(n)])
    z = S.O([S.var('z%d' % i) for i in range(m)])
    return x, P, z, H, R


def _leading_minors_pos(M, strict=True):
    from ..symlinalg import det
    from .. import symreal as S
    out = []
    for k in range(1, M.shape[0] + 1):
        d = S.J(det(M[:k, :k])).c0
        out.append(d > 0 if strict else d >= 0)
    return out


def _psd(M):
    """all principal minors >= 0 (n <= 3)"""
    import itertools
    from ..symlinalg import det
    from .. import symreal as S
    import numpy as np
    n = M.shape[0]
    out = []
    for k in range(1, n + 1):
        for idx in itertools.combinations(range(n), k):
            out.append(S.J(det(M[np.ix_(idx, idx)])).c0 >= 0)
    return out


def section(rep, n, m, mutate=None, what=('post', 'white', 'info', 'psd')):
    import numpy as np
    import z3
    from .. import symreal as S, enga
    from ..symlinalg import inv, det
    S.new_ctx()
    mods = enga.install()
    KF = mods['KF']
    if mutate:
        mutate(mods)
    J = S.J
    x, P, z, H, R = _inputs(n, m)
    for arr in (x, P, z, H, R):
        arr.setflags(write=False)          # inputs must not be written
    snapshot = [a.copy() for a in (x, P, z, H, R)]
    # preconditions: R positive definite, P positive semidefinite
    S.C.dom += _leading_minors_pos(R) + _psd(P)
    for nm in ('x', 'z', 'H', 'P', 'R'):
        pass
    meta = {'check': 'correct', 'params': {'n': n, 'm': m}, 'tol': 1e-13}      # rational identities: any non-zero true residual is a candidate
    from ..symlinalg import PoisonUse
    try:
        x1, P1, inn = KF.correct(x, P, z, H, R)
    except (PoisonUse, SystemError) as e:
        if isinstance(e, SystemError) and 'PoisonUse' not in str(e):
            raise
        return [enga.holds('%dx%d: no array is used after it was handed to a library call with overwrite_b=True (%s)' % (n, m, e),
                           z3.BoolVal(False), 'library contract', meta=meta)]
    obls = []
    Z = lambda name, e, fam: obls.append(enga.zero('%dx%d: %s' % (n, m, name), e, fam, meta=meta))
    unchanged = all(all(a.flat[k] is b.flat[k] for k in range(a.size)) for a, b in zip((x, P, z, H, R), snapshot))
    obls.append(enga.holds('%dx%d: inputs are not modified' % (n, m), z3.BoolVal(bool(unchanged)), 'inputs unchanged', meta=meta))
    HP = np.dot(H, P)
    Sm = np.dot(HP, H.T) + R
    Si = inv(Sm)
    K = np.dot(np.dot(P, H.T), Si)
    e = z - np.dot(H, x)
    if 'post' in what:
        Po = P - np.dot(K, HP)
        xo = x + np.dot(K, e)
        for i in range(n):
            Z('x+ [%d] = x + P H^T S^-1 (z - H x)' % i, J(x1[i]) - xo[i], 'posterior mean')
            for j in range(n):
                Z('P+ [%d,%d] = P - P H^T S^-1 H P' % (i, j), J(P1[i, j]) - Po[i, j], 'posterior covariance')
                if j > i:
                    Z('P+ symmetric [%d,%d]' % (i, j), J(P1[i, j]) - P1[j, i], 'posterior covariance')
    if 'white' in what:
        q = np.dot(e, np.dot(Si, e))
        yy = sum((J(v) * v for v in inn), J(0))
        Z('innovation: y^T y = e^T S^-1 e', yy - q, 'whitened innovation')
        s11 = J(Sm[0, 0]).sqrt()
        Z('innovation: y[0] = e[0] / sqrt(S[0,0]) (lower factor)', J(inn[0]) * s11 - e[0], 'whitened innovation')
        obls.append(enga.holds('%dx%d: len(innovation) = n_obs' % (n, m), z3.BoolVal(len(inn) == m), 'whitened innovation', meta=meta))
        if m == 2:
            # L y = e with L the LOWER factor: second row  L10 y0 + L11 y1 = e1, L10 = S10/sqrt(S00)
            l10 = J(Sm[1, 0]) / s11
            l11 = (J(Sm[1, 1]) - l10 * l10).sqrt()
            Z('innovation: L[1,0] y[0] + L[1,1] y[1] = e[1]', l10 * inn[0] + l11 * inn[1] - e[1], 'whitened innovation')
    if 'info' in what and n <= 2:
        # information form, P nonsingular: P+ (P^-1 + H^T R^-1 H) = I
        dP = J(det(P)).c0
        extra = [dP > 0]
        Info = inv(P) + np.dot(np.dot(H.T, inv(R)), H)
        M = np.dot(P1, Info)
        for i in range(n):
            for j in range(n):
                obls.append(enga.zero('%dx%d: P+ (P^-1 + H^T R^-1 H) = I [%d,%d]' % (n, m, i, j), J(M[i, j]) - (1 if i == j else 0),
                                      'information form', extra, meta))
    if 'psd' in what and n <= 2 and m == 1:
        D = P - P1
        for k, c in enumerate(_psd(D)):
            obls.append(enga.holds('%dx%d: P - P+ positive semidefinite (principal minor %d)' % (n, m, k), c, 'posterior never larger than prior', meta=meta))
        for k, c in enumerate(_psd(P1)):
            obls.append(enga.holds('%dx%d: P+ positive semidefinite (principal minor %d)' % (n, m, k), c, 'posterior PSD', meta=meta))
    rep.run.encode(KF.correct)
    return obls


def section_blocks(rep, n, mutate=None):
    """two independent scalar measurement blocks: joint update = sequential update in either order"""
    import numpy as np
    from .. import symreal as S, enga
    S.new_ctx()
    mods = enga.install()
    KF = mods['KF']
    if mutate:
        mutate(mods)
    J = S.J
    x, P, z, H, R = _inputs(n, 2, diagR=True)
    import z3
    S.C.dom += [z3.Real('R00') > 0, z3.Real('R11') > 0] + _psd(P)
    meta = {'check': 'blocks', 'params': {'n': n, 'm': 2}}
    from ..symlinalg import PoisonUse
    try:
        xj, Pj, _ = KF.correct(x, P, z, H, R)
    except (PoisonUse, SystemError) as e:
        if isinstance(e, SystemError) and 'PoisonUse' not in str(e):
            raise
        return [enga.holds('blocks n=%d: no array is used after it was handed to a library call with overwrite_b=True' % n,
                           z3.BoolVal(False), 'library contract', meta=meta)]
    obls = []
    for order in ((0, 1), (1, 0)):
        xs, Ps = x, P
        for k in order:
            xs, Ps, _ = KF.correct(xs, Ps, z[k:k + 1], H[k:k + 1], R[k:k + 1, k:k + 1])
        for i in range(n):
            obls.append(enga.zero('n=%d: sequential order %s mean [%d] = joint' % (n, order, i), J(xs[i]) - xj[i], 'independent blocks in any order', meta=meta))
            for j in range(i, n):
                obls.append(enga.zero('n=%d: sequential order %s covariance [%d,%d] = joint' % (n, order, i, j), J(Ps[i, j]) - Pj[i, j], 'independent blocks in any order', meta=meta))
    return obls


CANARIES = [
    ('Joseph form drops K R K^T', ('KF', 'correct', 'U.dot(P).dot(U.T) + K.dot(R).dot(K.T)', 'U.dot(P).dot(U.T)'), dict(n=2, m=1, what=('post',))),
    ('gain not transposed', ('KF', 'correct', 'overwrite_b=True).T', 'overwrite_b=True)'), dict(n=2, m=2, what=('post',))),
    ('innovation whitened with the upper factor', ('KF', 'correct', 'solve_triangular(L, e, lower=True)', 'solve_triangular(L.T, e, lower=False)'), dict(n=2, m=2, what=('white',))),
    ('innovation sign', ('KF', 'correct', 'e = z - H.dot(x)', 'e = H.dot(x) - z'), dict(n=2, m=1, what=('white',))),
    ('mean uses +H x', ('KF', 'correct', 'x + K @ (z - H @ x)', 'x + K @ (z + H @ x)'), dict(n=2, m=1, what=('post',))),
    ('S without R', ('KF', 'correct', 'S = HP @ H.T + R', 'S = HP @ H.T + 2 * R'), dict(n=2, m=1, what=('post', 'info'))),
    ('input P modified in place', ('KF', 'correct', 'HP = H @ P', 'HP = H @ P; P[0, 0] = P[0, 0] * 2'), dict(n=2, m=1, what=('post',))),
]


FP_DOMAIN = {'p': (1e-10, 1e10), 'r': (1e-8, 1e8), 'h': (-1e3, 1e3)}
FP_CLAIM = 'P+ >= 0 and not NaN'
FP_CANARIES = [('innovation covariance H P H^T - R (negative / NaN variance in binary64)', ('HP @ H.T + R', 'HP @ H.T - R'), 'quick'),
               ('short-form covariance update P - K S K^T (equal over the reals, negative variance in binary64)',
                ('U.dot(P).dot(U.T) + K.dot(R).dot(K.T)', 'P - K.dot(S).dot(K.T)'), 'quick')]


FP_CORNERS = {
    # sub-boxes of FP_DOMAIN where cancellation is extreme; implied by the whole-domain claim (so
    # redundant when that is `unsat`), but a solver finds a counterexample there in seconds where
    # the whole domain takes minutes
    'diffuse prior, precise measurement': {'p': (1e8, 1e10), 'r': (1e-8, 1e-7), 'h': (0.5, 2.0)},
    'tight prior, uninformative measurement': {'p': (1e-10, 1e-9), 'r': (1e7, 1e8), 'h': (1e-3, 1e-2)},
}


def _fp_term(variant, mutate=None, domain=None):
    """P+[0, 0] of the real kalman.correct executed on 1x1 operands of binary64 terms"""
    import z3
    import pyins.kalman as KF
    from .. import fp, fpexec
    N = fpexec._n_class()
    O = fpexec.O
    v = {n: fp.fpvar(n) for n in ('p', 'r', 'h', 'x', 'z')}
    f = fpexec.load(KF, 'correct', N, variant, mutate)
    x1, P1, inn = f(O([N(v['x'])]), O([[N(v['p'])]]), O([N(v['z'])]), O([[N(v['h'])]]), O([[N(v['r'])]]))
    dom = []
    for n, (lo, hi) in (domain or FP_DOMAIN).items():
        dom += [z3.fpGEQ(v[n], fp.fpval(lo)), z3.fpLEQ(v[n], fp.fpval(hi))]
    pp = P1[0, 0].e
    return fpexec.smt2(dom, z3.Not(z3.fpGEQ(pp, fp.fpval(0.0))), ['p', 'r', 'h'])


def fp_start(run):
    """builds the QF_FP queries in this thread and hands them to cvc5 processes"""
    from concurrent.futures import ThreadPoolExecutor
    from .. import fpexec
    import pyins.kalman as KF
    timeout = 240 if run.tier == 'quick' else 1500
    pool = ThreadPoolExecutor(10)
    jobs = []
    for variant in fpexec.VARIANTS:
        jobs.append(('claim', variant, None, pool.submit(fpexec.cvc5_run, _fp_term(variant), timeout)))
        for cname, dom in FP_CORNERS.items():
            jobs.append(('claim', variant + ', sub-box: ' + cname, None, pool.submit(fpexec.cvc5_run, _fp_term(variant, None, dom), timeout)))
    for name, mut, tier in FP_CANARIES:
        if tier == 'thorough' and run.tier != 'thorough':
            continue
        for variant in fpexec.VARIANTS[:1] if tier == 'quick' else fpexec.VARIANTS:
            try:
                jobs.append(('canary', variant, (name, mut), pool.submit(fpexec.cvc5_run, _fp_term(variant, mut, FP_CORNERS['diffuse prior, precise measurement'] if 'short-form' in name else None), timeout)))
            except KeyError as e:
                if not any(c['name'] == name for c in run.canaries):
                    run.canary(name, False, str(e))
    run.encode(KF.correct)
    return pool, jobs


def fp_finish(run, started):
    import math
    import pyins.kalman as KF
    from .. import common, fpexec
    pool, jobs = started
    run.assume('binary64 family: the real kalman.correct source executed on 1x1 operands of IEEE-754 binary64 terms (round to nearest even), decided as QF_FP by cvc5; '
               'domain P in [1e-10, 1e10], R in [1e-8, 1e8], H in [-1e3, 1e3] (zero and subnormal H included); claim: the returned variance is >= 0 and not NaN. '
               'BLAS/LAPACK on 1x1 operands are scalar formulas (dot/gemm: one product; potrf: sqrt; trsv: one division; potrs: both the reference form (b/L)/L and the '
               'OpenBLAS form inv = 1/L, (b inv) inv are decided); the harness is compared bit for bit with the compiled code on random inputs in every run',
               'OUTSIDE the binary64 family: dimensions above 1x1 (summation order and FMA use of the linked BLAS are not fixed), "never larger than the prior" in binary64 '
               '(P+ <= P (1 + 2^-50) was tried: no verdict in 10 min), relative accuracy of the posterior')
    # translator validation: which potrs model the linked LAPACK follows
    val = common.run_replays([{'property': PROP, 'kind': 'fp_validate', 'n': 3000 if run.tier == 'quick' else 20000, 'seed': run.seed}])[0]
    platform = None
    if val.get('error'):
        run.error('binary64 harness validation failed to run: %s' % val['error'])
    else:
        rates = val['mismatch_rate']
        platform = min(rates, key=rates.get)
        run.cov['fp_harness_vs_compiled_mismatch_rate'] = rates
        if rates[platform] > 0.01:
            run.error('binary64 harness does not reproduce the compiled kalman.correct on 1x1 inputs (best potrs model %s mismatches %.2f%%)' % (platform, 100 * rates[platform]))
        run.sample({'fp_harness_validation': rates, 'platform_potrs_model': platform})
    n_ok = 0
    secs = 0.0
    n_claims = 0
    for kind, variant, can, fut in jobs:
        verdict, vals, dt = fut.result()
        secs += dt
        run.queries += 1
        if kind == 'canary':
            name, mut = can
            ok = verdict == 'sat'
            detail = verdict
            if ok:
                f = fpexec.load(KF, 'correct', fpexec.F, variant, mut)
                O_, F_ = fpexec.O, fpexec.F
                pv = f(O_([F_(0.5)]), O_([[F_(vals['p'])]]), O_([F_(1.0)]), O_([[F_(vals['h'])]]), O_([[F_(vals['r'])]]))[1][0, 0].v
                ok = not (pv >= 0)
                detail = 'sat in %.1f s at p=%r r=%r h=%r: mutant returns %r' % (dt, vals['p'], vals['r'], vals['h'], pv)
            if not ok and variant != fpexec.VARIANTS[0] and any(c['name'] == name and c['detected'] for c in run.canaries):
                continue
            if not any(c['name'] == name for c in run.canaries):
                run.canary(name, ok, detail)
            continue
        n_claims += 1
        what = 'binary64 1x1 [%s]: %s' % (variant, FP_CLAIM)
        if verdict == 'unsat':
            n_ok += 1
            run.sample({'fp_claim': what, 'result': 'unsat', 'solver_s': round(dt, 2)})
        elif verdict == 'sat':
            spec = {'check': 'fp_scalar', 'kind': 'fp_scalar', 'point': {k: vals[k] for k in ('p', 'r', 'h')}, 'what': what}
            res = common.run_replays([dict(spec, property=PROP)])[0]
            if res.get('violated'):
                run.violation(what + '; real code: %s' % (res.get('detail'),), common.write_replay(PROP, spec), res.get('detail'))
            elif variant.split(',')[0] == platform or platform is None:
                run.error('%s: solver model %s does not reproduce on the compiled code - inconclusive' % (what, spec['point']))
            else:
                run.sample({'fp_claim': what, 'result': 'sat for a potrs model the linked LAPACK does not follow; compiled code satisfies the claim at the model', 'point': spec['point']})
                n_ok += 1
        else:
            run.unknown.append(what + ' (%s)' % (vals.get('raw') or 'no verdict'))
    run.family('binary64 execution of kalman.correct on 1x1 operands (QF_FP, cvc5)', n_claims, n_ok, secs)
    run.bounds['binary64 family'] = {'dimension': '1x1', 'domain': {k: list(v) for k, v in FP_DOMAIN.items()}, 'potrs models': list(fpexec.VARIANTS)}
    pool.shutdown(wait=False)


def run(run):
    import z3
    from .. import enga, common
    from .. import symreal as S
    from .c17 import _mut
    fp_started = fp_start(run)
    box = {}
    for i in range(5):
        box['x%d' % i] = (-2, 2)
        box['z%d' % i] = (-2, 2)
        for j in range(5):
            box['H%d%d' % (i, j)] = (-1, 1)
            box['P%d%d' % (i, j)] = (0.5, 2) if i == j else (-0.2, 0.2)
            box['R%d%d' % (i, j)] = (0.5, 2) if i == j else (-0.2, 0.2)
    rep = enga.AReport(run, box=box)
    run.assume('exact real arithmetic: every numerical-stability claim (cond up to 1e10, R from 1e-8 to 1e8, 20x6) is OUTSIDE; what is decided is that the computed expressions are the conditional mean/covariance as algebraic identities',
               'preconditions: R positive definite (leading minors > 0), P positive semidefinite (principal minors >= 0); information form additionally det P > 0',
               'scipy cholesky / cho_solve / solve_triangular are explicit stubs (unrolled Cholesky of the named triangle; cho_solve of that very factor = adjugate/det solve; forward substitution), np.eye/@/dot are numpy on object arrays',
               'dimensions: n_states <= 4 with <= 2 observations, <= 5 with 1 observation (quick: smaller; 3x3 and 2x3 are partly undecided after 240 s per obligation and outside); order independence of two independent scalar blocks for n_states = 2')
    cfgs = [(1, 1), (2, 1), (3, 1), (2, 2)] if run.tier == 'quick' else [(1, 1), (2, 1), (3, 1), (4, 1), (5, 1), (2, 2), (3, 2), (4, 2)]
    timeout = 60 if run.tier == 'quick' else 300
    for n, m in cfgs:
        try:
            try:
                obls = section(rep, n, m)
            except S.SymbolicBranch:
                # the function branches on a symbolic value (it does not in the unmodified tree):
                # every outcome is explored, the obligations of a path hold under its path condition
                for obls_p, ctx_p in enga.section_paths(lambda: section(rep, n, m)):
                    S.set_ctx(ctx_p)
                    for ob in obls_p:
                        ob.meta = dict(ob.meta or {}, use_model=True)
                    rep.finish(rep.batch(obls_p, timeout_s=timeout, ctx=ctx_p), PROP, ctx_p)
                continue
        except ValueError as e:
            if 'read-only' not in str(e):
                raise
            # the function writes into one of its (read-only) input arrays: confirm on the compiled code
            spec = {'kind': 'numeric', 'check': 'post', 'point': {}, 'params': {'n': n, 'm': m}, 'obligation': 'inputs are not modified'}
            res = common.run_replays([dict(spec, property=PROP)])[0]
            if res.get('violated'):
                run.violation('%dx%d: kalman.correct writes into an input array (%s); real code: %s' % (n, m, e, res.get('detail')), common.write_replay(PROP, spec), res.get('detail'))
            else:
                run.error('%dx%d: symbolic execution wrote into an input array (%s) but the compiled code leaves its inputs unchanged - inconclusive' % (n, m, e))
            run.family('inputs unchanged', 1, 0, 0.0)
            continue
        rep.finish(rep.batch(obls, timeout_s=timeout), PROP)
        s = z3.Solver()
        s.add(S.C.cons)
        s.add(S.C.dom)
        run.witness('%dx%d: preconditions + Cholesky pivot constraints satisfiable' % (n, m), s.check() == z3.sat)
    for n in (2,):          # n = 3 needs ~6 min per obligation in the exact normal form (and is `unknown` for nlsat): outside the stated bound
        obls = section_blocks(rep, n)
        rep.finish(rep.batch(obls, timeout_s=timeout), PROP)
    validate(rep)
    for name, spec, kw in CANARIES:
        try:
            obls = section(rep, mutate=_mut(spec), **kw)
        except common.HarnessError as e:
            run.canary(name, False, str(e))
            continue
        except ValueError as e:
            # writing to a read-only input array is itself the detection
            run.canary(name, 'read-only' in str(e), 'write to an input array: %s' % e)
            continue
        rep.canary(name, obls, timeout_s=15)
    enga.restore()
    run.bounds.update({'dimensions': ['%dx%d' % c for c in cfgs]})
    fp_finish(run, fp_started)


def validate(rep):
    import random
    import numpy as np
    from .. import common
    from .. import symreal as S, enga
    run = rep.run
    rng = random.Random(run.seed + 7)
    cases = []
    n, m = 2, 2
    S.new_ctx()
    mods = enga.install()
    x, P, z, H, R = _inputs(n, m)
    x1, P1, inn = mods['KF'].correct(x, P, z, H, R)
    for _ in range(4 if run.tier == 'quick' else 30):
        pt = {}
        for i in range(n):
            pt['x%d' % i] = rng.uniform(-1, 1)
            for j in range(i, n):
                pt['P%d%d' % (i, j)] = rng.uniform(1, 2) if i == j else rng.uniform(-0.3, 0.3)
        for i in range(m):
            pt['z%d' % i] = rng.uniform(-1, 1)
            for j in range(n):
                pt['H%d%d' % (i, j)] = rng.uniform(-1, 1)
            for j in range(i, m):
                pt['R%d%d' % (i, j)] = rng.uniform(1, 2) if i == j else rng.uniform(-0.3, 0.3)
        ev = S.Evaluator(S.C, pt)
        arrs = lambda nm, r, c, sym=False: [[pt['%s%d%d' % (nm, min(i, j), max(i, j)) if sym else '%s%d%d' % (nm, i, j)] for j in range(c)] for i in range(r)]
        cases.append({'func': 'pyins.kalman.correct',
                      'args': [[pt['x%d' % i] for i in range(n)], arrs('P', n, n, True), [pt['z%d' % i] for i in range(m)], arrs('H', m, n), arrs('R', m, m, True)],
                      'expected': [ev.arr(x1).tolist(), ev.arr(P1).tolist(), ev.arr(inn).tolist()], 'rtol': 1e-9, 'atol': 1e-12})
    res = common.run_replays([{'property': PROP, 'kind': 'validate', 'cases': cases}])[0]
    if res.get('error'):
        run.error('translator validation failed to run: %s' % res['error'])
    elif res.get('mismatch'):
        run.error('translator validation mismatch: %s' % res['mismatch'][:1])
    run.cov['translator_validation_cases'] = len(cases)


def replay(spec):
    import numpy as np
    if spec['kind'] == 'validate':
        from ..validate import run_validate
        return run_validate(spec)
    from pyins import kalman
    if spec['kind'] == 'fp_validate':
        import math
        from .. import fpexec
        rng = np.random.RandomState(spec.get('seed', 0))
        models = {v: fpexec.load(kalman, 'correct', fpexec.F, v) for v in fpexec.VARIANTS}
        bad = {v: 0 for v in models}
        F_, O_ = fpexec.F, fpexec.O
        same = lambda a, b: a == b or (a != a and b != b)
        for it in range(spec['n']):
            p = 10 ** rng.uniform(-10, 10)
            r = 10 ** rng.uniform(-8, 8)
            h = 10 ** rng.uniform(-3, 3) * rng.choice([-1, 1])
            x, z = rng.randn() * 10, rng.randn() * 10
            if it % 4 == 0:
                r = max(min(p * h * h * 2.0 ** -rng.randint(40, 60), 1e8), 1e-8)
            a = kalman.correct(np.array([x]), np.array([[p]]), np.array([z]), np.array([[h]]), np.array([[r]]))
            for v, f in models.items():
                b = f(O_([F_(x)]), O_([[F_(p)]]), O_([F_(z)]), O_([[F_(h)]]), O_([[F_(r)]]))
                if not (same(a[0][0], b[0][0].v) and same(a[1][0, 0], b[1][0, 0].v) and same(a[2][0], b[2][0].v)):
                    bad[v] += 1
        return {'violated': False, 'mismatch_rate': {v: bad[v] / spec['n'] for v in bad}}
    if spec['kind'] == 'fp_scalar':
        pt = spec['point']
        P1 = kalman.correct(np.array([0.5]), np.array([[pt['p']]]), np.array([1.0]), np.array([[pt['h']]]), np.array([[pt['r']]]))[1]
        bad = not (P1[0, 0] >= 0)
        return {'violated': bool(bad), 'detail': ['kalman.correct(P=%r, H=%r, R=%r) returns the variance %r' % (pt['p'], pt['h'], pt['r'], float(P1[0, 0]))] if bad else []}
    pt = spec['point']
    pr = spec.get('params') or {}
    n, m = pr.get('n', 2), pr.get('m', 1)
    g = lambda k, d: pt.get(k, d)
    P = np.array([[g('P%d%d' % (min(i, j), max(i, j)), 1.0 if i == j else 0.1) for j in range(n)] for i in range(n)])
    R = np.array([[g('R%d%d' % (min(i, j), max(i, j)), 1.0 if i == j else 0.0) for j in range(m)] for i in range(m)])
    H = np.array([[g('H%d%d' % (i, j), 0.3 + 0.1 * i - 0.2 * j) for j in range(n)] for i in range(m)])
    x = np.array([g('x%d' % i, 0.1 * i) for i in range(n)])
    z = np.array([g('z%d' % i, 1.0 - i) for i in range(m)])
    if np.any(np.linalg.eigvalsh(P) < -1e-12) or np.any(np.linalg.eigvalsh(R) <= 0):
        # the point violates the preconditions (P PSD, R PD): replay at a well-conditioned point
        # with the same dimensions instead
        rng = np.random.RandomState(11)
        A_ = rng.randn(n, n)
        P = A_ @ A_.T + 0.5 * np.eye(n)
        B_ = rng.randn(m, m)
        R = B_ @ B_.T + 0.5 * np.eye(m)
    fails = []
    x_, P_, z_, R_ = x, P, z, R
    # the identities are scale-free (x, z -> s x, s z; P, R -> s^2 P, s^2 R; H unchanged): the property
    # covers noise levels from 1e-8 to 1e8, so they are checked at several scales - an ABSOLUTE
    # constant somewhere in the computation shows at the small ones
    for sc in (1.0, 1e-3, 1e-4, 1e3):
        x, P, z, R = sc * x_, sc * sc * P_, sc * z_, sc * sc * R_
        args = [a.copy() for a in (x, P, z, H, R)]
        x1, P1, inn = kalman.correct(*args)
        if any(not np.array_equal(a, b) for a, b in zip(args, (x, P, z, H, R))):
            fails.append('inputs modified')
        S = H @ P @ H.T + R
        K = P @ H.T @ np.linalg.inv(S)
        tol = 1e-9 * sc * sc * max(1.0, np.abs(P_).max())
        tolx = 1e-9 * sc * max(1.0, np.abs(x_).max(), np.abs(z_).max())
        at = '' if sc == 1.0 else ' (problem scaled by %g: P, R by %g)' % (sc, sc * sc)
        if not np.allclose(P1, P - K @ H @ P, atol=tol, rtol=0):
            fails.append('posterior covariance != P - P H^T S^-1 H P (max diff %.3g)%s' % (np.abs(P1 - (P - K @ H @ P)).max(), at))
        if not np.allclose(x1, x + K @ (z - H @ x), atol=tolx, rtol=0):
            fails.append('posterior mean != x + K (z - H x) (max diff %.3g)%s' % (np.abs(x1 - (x + K @ (z - H @ x))).max(), at))
        if not np.allclose(P1, P1.T, atol=tol, rtol=0):
            fails.append('posterior covariance not symmetric' + at)
        L = np.linalg.cholesky(S)
        if not np.allclose(L @ inn, z - H @ x, atol=tolx, rtol=0):
            fails.append('innovation is not the residual whitened by the lower Cholesky factor' + at)
        if fails:
            break
    x, P, z, R = x_, P_, z_, R_
    tol = 1e-9 * max(1.0, np.abs(P).max())
    if spec.get('check') == 'blocks' and m == 2:
        Rd = np.diag(np.diag(R))
        xj, Pj, _ = kalman.correct(x, P, z, H, Rd)
        for order in ((0, 1), (1, 0)):
            xs, Ps = x, P
            for k in order:
                xs, Ps, _ = kalman.correct(xs, Ps, z[k:k + 1], H[k:k + 1], Rd[k:k + 1, k:k + 1])
            if not (np.allclose(xs, xj, atol=tol) and np.allclose(Ps, Pj, atol=tol)):
                fails.append('sequential processing in order %s differs from the joint update' % (order,))
    return {'violated': bool(fails), 'detail': fails}


RIM = {'lat': -84.6, 'lon': 150.0, 'alt': 15000.0, 'VN': 250.0, 'VE': -200.0, 'VD': 5.0, 'roll': 120.0, 'pitch': -60.0, 'heading': -170.0}


def FALLBACK(tier):
    """numeric oracle specs put to the compiled code when the symbolic run is inconclusive (main.py)"""
    return [{'check': 'correct', 'point': {}, 'params': {'n': n, 'm': m}} for n, m in ((1, 1), (2, 1), (3, 2), (4, 3))] + [{'check': 'blocks', 'point': {}, 'params': {'n': 2, 'm': 2}}]
