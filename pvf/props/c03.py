"""C03 - synthesised IMU matches the motion's true kinematics (engine A; scipy splines idealised as
exact interpolants of an arbitrary smooth motion carried as time-jets; the claim is decomposed
into lemmas about the quantities generate_imu hands to scipy, captured at the stub boundary)."""
import fractions

LEVEL = 'other'
PROP = 'C03'
Fr = fractions.Fraction
ORD = 2


class _Env:
    """installs the ideal-spline stubs and capture hooks into pyins.sim"""

    def __init__(self, mutate=None, order=ORD, symconst=True):
        import numpy as np
        from .. import symreal as S, enga
        from ..symscipy import Rot
        self.S, self.np = S, np
        S.new_ctx([('s', order)])
        self.m = m = enga.install(symconst=symconst)
        if mutate:
            mutate(m)
        self.cap = cap = {}
        O = S.O
        dfun = np.vectorize(lambda x: S.J(x).d(0), otypes=[object])
        self.dfun = dfun

        class SplineFn:
            """ideal interpolant: reproduces node values (and supplied node derivatives); its
            derivatives are those of the underlying smooth function (time-jets)"""

            def __init__(s, time, y, given=None):
                s.time, s.y, s.given = time, y, given

            def derivative(s, nu=1):
                y, g = s.y, s.given
                for _ in range(nu):
                    y = g if g is not None else dfun(y)
                    g = None
                return SplineFn(s.time, y)

            def antiderivative(s, nu=1):
                # ideal antiderivative: zero at the first node, a free value at every other node
                # (the integral between nodes is not a local quantity), derivative = the function
                if nu != 1:
                    raise NotImplementedError('antiderivative order %r' % nu)
                idx = len(cap.setdefault('anti', []))
                y = S.symnp.asarray(s.y)
                flat = y.reshape(len(y), -1)
                vals = np.empty(flat.shape, dtype=object)
                for k in range(flat.shape[0]):
                    for j in range(flat.shape[1]):
                        base = S.J(0) if k == 0 else S.var('I%d_%d_%d' % (idx, k, j))
                        vals[k, j] = base + S.J(flat[k, j]).integ(0)
                vals = vals.reshape(y.shape)
                cap['anti'].append((y, vals))
                return SplineFn(s.time, vals)

            def __call__(s, t, nu=0):
                if t is not s.time:
                    raise NotImplementedError('spline evaluated away from its nodes')
                y = s.y
                for _ in range(nu):
                    y = dfun(y)
                return y

            @property
            def c(s):
                # polynomial coefficients of the local model, per interval: free symbols, recorded
                if getattr(s, '_c', None) is not None:
                    return s._c
                nint = len(s.time) - 1
                key = 'poly_c_%d' % len(cap.setdefault('poly', []))
                arr = O([[[S.var('%s_%d_%d_%d' % (key, k, i, j)) for j in range(3)] for i in range(nint)] for k in range(2)])
                cap['poly'].append(arr)
                s._c = arr
                return arr

        def CubicSpline(time, y, *a, **k):
            y = S.symnp.asarray(y)
            cap.setdefault('cubic', []).append(y)
            return SplineFn(time, y)

        def CubicHermiteSpline(time, y, dy, *a, **k):
            y, dy = S.symnp.asarray(y), S.symnp.asarray(dy)
            cap['hermite'] = (y, dy)
            return SplineFn(time, y, given=dy)

        class _Interp:
            def __init__(s, nint):
                s.c = O([[[S.var('rot_c_%d_%d_%d' % (k, i, j)) for j in range(3)] for i in range(nint)] for k in range(4)])
                cap['rot_c'] = s.c

        class RotationSpline:
            def __init__(s, time, rot):
                s.time, s.mats = time, rot.m
                cap['mat_ib'] = rot.m
                s.interpolator = _Interp(len(time) - 1)

            def __call__(s, t, order=0):
                if t is not s.time or order != 1:
                    raise NotImplementedError('RotationSpline call form')
                out = []
                for M in s.mats:
                    Wm = np.dot(M.T, dfun(M))          # C^T dC/ds = [w x]
                    out.append([Wm[2, 1], Wm[0, 2], Wm[1, 0]])
                return O(out)
        SIM, E = m['SIM'], m['E']
        enga._set(SIM, 'CubicSpline', CubicSpline)
        enga._set(SIM, 'CubicHermiteSpline', CubicHermiteSpline)
        enga._set(SIM, 'RotationSpline', RotationSpline)
        enga._set(SIM, 'Rotation', Rot)
        grav = E.gravitation_ecef

        def grav_cap(lla_in):
            out = grav(lla_in)
            cap['g_i'] = out
            cap['lla_inertial'] = lla_in
            return out
        enga._set(E, 'gravitation_ecef', grav_cap)


def _series(S, name, order=ORD):
    t = S.formal(0)
    r = S.J(S.var(name + '_0'))
    p = t
    for k in range(1, order + 1):
        r = r + S.var('%s_%d' % (name, k)) * p
        p = p * t
    return r


def section_rate(rep, form, mutate=None):
    """form: 'position' (lla only) or 'position+velocity' (lla and a consistent velocity_n)"""
    import numpy as np
    import z3
    from .. import symreal as S, enga
    env = _Env(mutate)
    m, cap, dfun = env.m, env.cap, env.dfun
    SIM, T, E = m['SIM'], m['T'], m['E']
    J, O = S.J, S.O
    sv = S.formal(0)
    n = 2
    time_arr = O([S.var('T%d' % k) + sv for k in range(n)])
    S.C.dom += [z3.Real('T%d' % k) >= 0 for k in range(n)] + [z3.Real('T%d' % k) <= 1000 for k in range(n)]
    lla = np.empty((n, 3), dtype=object)
    rph = np.empty((n, 3), dtype=object)
    for k in range(n):
        S.declare_angle('lat%d_0' % k, -85, 85)
        S.declare_angle('pitch%d_0' % k, -85, 85)
        lla[k] = [_series(S, 'lat%d' % k), _series(S, 'lon%d' % k), _series(S, 'alt%d' % k)]
        rph[k] = [_series(S, 'roll%d' % k), _series(S, 'pitch%d' % k), _series(S, 'head%d' % k)]
        S.C.dom += [z3.Real('alt%d_0' % k) >= -1000, z3.Real('alt%d_0' % k) <= 30000]
    vel = None
    if form == 'position+velocity':
        # a velocity consistent with the position: V_n = C_en^T d/ds r_e(lla(s))
        vel = np.empty((n, 3), dtype=object)
        for k in range(n):
            r_e = T.lla_to_ecef(O(list(lla[k])))
            C_en = T.mat_en_from_ll(lla[k][0], lla[k][1])
            vel[k] = np.dot(C_en.T, dfun(r_e))
    cap.clear()
    traj, imu = SIM.generate_imu(time_arr, lla, rph, vel, 'rate')
    obls = []
    meta = {'check': 'rate', 'params': {'form': form}}
    Z = lambda name, e_, fam: obls.append(enga.zero('%s form: %s' % (form, name), e_, fam, meta=meta))
    H = lambda name, ok, fam: obls.append(enga.holds('%s form: %s' % (form, name), z3.BoolVal(bool(ok)), fam, meta=meta))
    H('one row per time stamp in both returned tables', len(traj) == n and len(imu) == n, 'table shape')
    H('trajectory and IMU columns', list(traj.columns) == ['lat', 'lon', 'alt', 'VN', 'VE', 'VD', 'roll', 'pitch', 'heading'] and
      list(imu.columns) == ['gyro_x', 'gyro_y', 'gyro_z', 'accel_x', 'accel_y', 'accel_z'], 'table shape')
    k = 0
    lat, lon, alt = lla[k]
    ang = J(S.symnp.rad2deg(E.RATE) * time_arr[k]).deg2rad()
    Rz = O([[ang.cos(), -ang.sin(), 0], [ang.sin(), ang.cos(), 0], [0, 0, 1]])
    r_e = T.lla_to_ecef(O([lat, lon, alt]))
    C_en = T.mat_en_from_ll(lat, lon)
    We = O([0, 0, E.RATE])
    r_i = cap['hermite'][0][k] if form == 'position+velocity' else cap['cubic'][0][k]
    # L1: the array handed to the position spline is the inertial position R_z(W t) r_e(lla(t))
    L1 = np.dot(Rz, r_e)
    for i in range(3):
        for o in range(ORD + 1):
            Z('L1: spline nodes are the inertial position R_z(W t) lla_to_ecef(lla(t)) [%d], order s^%d' % (i, o), J(r_i[i]).part(o) - J(L1[i]).part(o), 'inertial position')
    # L2: gravitation array = R_z(W t) [C_en g_n + W x (W x r_e)]
    g_e = np.dot(C_en, E.gravity_n(lat, alt)) + np.cross(We, np.cross(We, r_e))
    L2 = np.dot(Rz, g_e)
    for i in range(3):
        Z('L2: gravitation in the inertial frame = R_z(W t) [C_en g_n + W x (W x r_e)] [%d]' % i, J(cap['g_i'][k][i]).part(0) - J(L2[i]).part(0), 'gravitation')
    # L3: matrices handed to RotationSpline = R_z(W t) C_en C_nb, through order 1
    Cnb = T.mat_from_rph(O(list(rph[k])))
    L3 = np.dot(Rz, np.dot(C_en, Cnb))
    for i in range(3):
        for j in range(3):
            for o in (0, 1):
                Z('L3: attitude spline nodes = R_z(W t) C_en C_nb [%d,%d], order s^%d' % (i, j, o), J(cap['mat_ib'][k][i, j]).part(o) - J(L3[i, j]).part(o), 'inertial attitude')
    # F: the returned readings are accel = C_ib^T (r_i'' - g_i), gyro = vee(C_ib^T C_ib')
    M = cap['mat_ib'][k]
    ac = imu[['accel_x', 'accel_y', 'accel_z']].values[k]
    gy = imu[['gyro_x', 'gyro_y', 'gyro_z']].values[k]
    acc_i = dfun(dfun(r_i)) if form == 'position' else dfun(cap['hermite'][1][k])
    f_def = np.dot(M.T, acc_i - cap['g_i'][k])
    for i in range(3):
        Z('F: accel[%d] = (C_ib^T (inertial acceleration - gravitation))[%d]' % (i, i), J(ac[i]).part(0) - J(f_def[i]).part(0), 'readings from the captured quantities')
    Wm = np.dot(M.T, dfun(M))
    for i, (a, b) in enumerate([(2, 1), (0, 2), (1, 0)]):
        Z('F: gyro[%d] = vee(C_ib^T d/dt C_ib)[%d]' % (i, i), J(gy[i]).part(0) - J(Wm[a, b]).part(0), 'readings from the captured quantities')
    # V: returned velocity satisfies C_en V = d/dt r_e
    Vn = traj[['VN', 'VE', 'VD']].values[k]
    lhs = np.dot(C_en, Vn)
    rhs = dfun(r_e)
    for i in range(3):
        Z('V: C_en velocity_n = d/dt lla_to_ecef(lla(t)) [%d]' % i, J(lhs[i]).part(0) - J(rhs[i]).part(0), 'returned velocity')
    if form == 'position+velocity':
        # H1: supplied node derivative = inertial velocity C_in V + W x r_i = d/dt r_i
        dy = cap['hermite'][1][k]
        for i in range(3):
            Z('H1: Hermite node derivative = d/dt of the inertial position [%d]' % i, J(dy[i]).part(0) - J(dfun(r_i)[i]).part(0), 'inertial velocity')
            Z('H1: Hermite node derivative, order s^1 [%d]' % i, J(dy[i]).part(1) - J(dfun(r_i)[i]).part(1), 'inertial velocity')
    # the trajectory echoes the inputs
    for i, nm in enumerate(('lat', 'lon', 'alt')):
        Z('returned %s = supplied' % nm, J(traj[nm].values[k]).part(0) - J(lla[k][i]).part(0), 'table shape')
    for i, nm in enumerate(('roll', 'pitch', 'heading')):
        Z('returned %s = supplied' % nm, J(traj[nm].values[k]).part(0) - J(rph[k][i]).part(0), 'table shape')
    rep.run.encode(SIM.generate_imu, E.gravitation_ecef, T.lla_to_ecef, T.mat_en_from_ll, T.mat_from_rph)
    return obls


def section_increment_wiring(rep, mutate=None):
    """increment-type branch of generate_imu: with the spline polynomial coefficients as free symbols
    of the local model, the returned readings are _compute_increment_readings applied to the
    rotation-vector coefficients of each interval and to the specific force (value and slope)
    resolved in the START-of-interval body frame; the first sample is duplicated; one row per stamp"""
    import numpy as np
    import z3
    from .. import symreal as S, enga
    env = _Env(mutate, order=0)
    m, cap = env.m, env.cap
    SIM, T, E = m['SIM'], m['T'], m['E']
    J, O = S.J, S.O
    n = 3
    ts = [S.var('T%d' % k) for k in range(n)]
    S.C.dom += [z3.Real('T1') > z3.Real('T0'), z3.Real('T2') > z3.Real('T1'), z3.Real('T0') >= 0, z3.Real('T2') <= 100]
    time_arr = O(ts)
    lla = np.empty((n, 3), dtype=object)
    rph = np.empty((n, 3), dtype=object)
    for k in range(n):
        lla[k] = [S.declare_angle('lat%d' % k, -85, 85), S.var('lon%d' % k), S.var('alt%d' % k)]
        rph[k] = [S.var('roll%d' % k), S.declare_angle('pitch%d' % k, -85, 85), S.var('head%d' % k)]
        S.C.dom += [z3.Real('alt%d' % k) >= -1000, z3.Real('alt%d' % k) <= 30000]
    # record what _compute_increment_readings is called with and return recognisable tokens
    calls = {}

    def fake(dt, a, b, c, d, e):
        calls['args'] = (dt, a, b, c, d, e)
        nint = len(a)
        return (O([[S.var('G_%d_%d' % (k, i)) for i in range(3)] for k in range(nint)]), O([[S.var('A_%d_%d' % (k, i)) for i in range(3)] for k in range(nint)]))
    enga._set(SIM, '_compute_increment_readings', fake)
    cap.clear()
    traj, imu = SIM.generate_imu(time_arr, lla, rph, None, 'increment')
    meta = {'check': 'wiring'}
    obls = []
    Z = lambda name, e_: obls.append(enga.zero('increment wiring: ' + name, e_, 'increment-type wiring', meta=meta))
    H = lambda name, ok: obls.append(enga.holds('increment wiring: ' + name, z3.BoolVal(bool(ok)), 'increment-type wiring', meta=meta))
    H('one row per stamp', len(imu) == n and len(traj) == n)
    H('_compute_increment_readings called once with per-interval arrays', 'args' in calls and len(calls['args'][1]) == n - 1)
    if 'args' not in calls or len(imu) != n:
        return obls
    dt, a, b, c, d, e = calls['args']
    rc = cap['rot_c']
    acc = cap['poly'][-1]          # coefficients of the acceleration polynomial (derivative of the velocity spline)
    M, g = cap['mat_ib'], cap['g_i']
    gy = imu[['gyro_x', 'gyro_y', 'gyro_z']].values
    ac = imu[['accel_x', 'accel_y', 'accel_z']].values
    dt_flat = np.asarray(dt, dtype=object).reshape(-1)
    if dt_flat.size == 1 and n - 1 > 1:
        dt_flat = np.array([dt_flat[0]] * (n - 1), dtype=object)        # a scalar broadcasts over the intervals
    for k in range(n - 1):
        Z('dt of interval %d = stamp difference' % k, J(dt_flat[k]) - (ts[k + 1] - ts[k]))
        dk = np.dot(M[k].T, acc[1][k] - g[k])
        ek = np.dot(M[k].T, acc[0][k] - (g[k + 1] - g[k]) / (ts[k + 1] - ts[k]))
        for i in range(3):
            Z('interval %d: a = linear rotation-vector coefficient [%d]' % (k, i), J(a[k][i]) - rc[2][k][i])
            Z('interval %d: b = quadratic coefficient [%d]' % (k, i), J(b[k][i]) - rc[1][k][i])
            Z('interval %d: c = cubic coefficient [%d]' % (k, i), J(c[k][i]) - rc[0][k][i])
            Z('interval %d: d = C_ib(start)^T (acceleration - gravitation at the start) [%d]' % (k, i), J(d[k][i]) - dk[i])
            Z('interval %d: e = C_ib(start)^T (slope of acceleration - slope of gravitation) [%d]' % (k, i), J(e[k][i]) - ek[i])
            Z('row %d gyro = increment of interval %d [%d]' % (k + 1, k, i), J(gy[k + 1][i]) - S.var('G_%d_%d' % (k, i)))
            Z('row %d accel = increment of interval %d [%d]' % (k + 1, k, i), J(ac[k + 1][i]) - S.var('A_%d_%d' % (k, i)))
    for i in range(3):
        Z('first sample duplicated: gyro[0] = gyro[1] [%d]' % i, J(gy[0][i]) - J(gy[1][i]))
        Z('first sample duplicated: accel[0] = accel[1] [%d]' % i, J(ac[0][i]) - J(ac[1][i]))
    return obls


def section_initial_form(rep, mutate=None):
    """'initial position + velocity' form: with ideal interpolants and ideal antiderivatives
    (zero at the first node, free values elsewhere, derivative = the interpolated function) the
    trajectory generate_imu builds satisfies: first row = the supplied initial position; d alt/dt =
    -VD; d lat/dt = VN / R_N evaluated at the latitude of the previous pass of the fixed-point
    loop; d lon/dt = VE / ((R_E + h) cos lat) at the returned latitude; and the loop's contract:
    it leaves early only if the latitude changed by less than ACCURACY (in metres) at EVERY node
    in the last pass. The loop's data-dependent exits are explored by the path executor."""
    import numpy as np
    import z3
    from .. import symreal as S, enga, paths
    env = _Env(mutate, order=1, symconst=False)
    m, cap, dfun = env.m, env.cap, env.dfun
    SIM, T, E = m['SIM'], m['T'], m['E']
    J, O = S.J, S.O
    sv = S.formal(0)
    n = 2
    time_arr = O([S.var('T%d' % k) + sv for k in range(n)])
    S.C.dom += [z3.Real('T0') >= 0, z3.Real('T1') > z3.Real('T0'), z3.Real('T1') <= 1000]
    lat0 = S.declare_angle('lat_i', -80, 80)
    lon0, alt0 = S.var('lon_i'), S.var('alt_i')
    S.C.dom += [z3.Real('alt_i') >= -1000, z3.Real('alt_i') <= 30000]
    vel = np.empty((n, 3), dtype=object)
    rph = np.empty((n, 3), dtype=object)
    for k in range(n):
        vel[k] = [_series(S, 'vn%d' % k, 1), _series(S, 've%d' % k, 1), _series(S, 'vd%d' % k, 1)]
        S.declare_angle('pitch%d_0' % k, -85, 85)
        rph[k] = [_series(S, 'roll%d' % k, 1), _series(S, 'pitch%d' % k, 1), _series(S, 'head%d' % k, 1)]
    radii_calls = []
    real_radii = E.principal_radii

    class _Done(Exception):
        pass

    def radii(lat, alt):
        # contract-level model inside the block under test: three positive radii per node, fresh
        # for every call (what they are is C16's subject; which arguments they are asked for and
        # where the results go is decided here)
        idx = len(radii_calls)
        la = np.asarray(lat, dtype=object)
        al = np.asarray(alt, dtype=object)
        nn = max(la.size, al.size)
        out = []
        for nm in ('rn', 're', 'rp'):
            vals = []
            for k in range(nn):
                v = S.var('%s_c%d_%d' % (nm, idx, k))
                S.C.dom += [z3.Real('%s_c%d_%d' % (nm, idx, k)) >= 6.0e6, z3.Real('%s_c%d_%d' % (nm, idx, k)) <= 6.5e6] if nm != 'rp' else \
                           [z3.Real('%s_c%d_%d' % (nm, idx, k)) >= 1.0e6, z3.Real('%s_c%d_%d' % (nm, idx, k)) <= 6.5e6]
                vals.append(v)
            out.append(O(vals))
        radii_calls.append((lat, alt, out))
        return tuple(out)

    def stop(lat_in, lon_in):
        raise _Done((lat_in, lon_in))
    ex = paths.Exec(S.C.dom + [S.DEG > S.rat(S.DEG_LO), S.DEG < S.rat(S.DEG_HI)], timeout_ms=20000)
    orig = ex.decide

    def decide(cond):
        for c_ in S.C.dom[getattr(ex, '_nd', 0):]:
            ex.solver.add(c_)
        ex._nd = len(S.C.dom)
        for c_ in S.C.cons[getattr(ex, '_nc', 0):]:
            ex.solver.add(c_)
        ex._nc = len(S.C.cons)
        return orig(cond)
    ex.decide = decide
    n_dom0 = len(S.C.dom)

    def body():
        ex._nc = 0
        ex._nd = n_dom0
        cap.clear()
        del radii_calls[:]
        enga._set(E, 'principal_radii', radii)
        enga._set(T, 'mat_en_from_ll', stop)
        lla_out = None
        try:
            SIM.generate_imu(time_arr, O([lat0, lon0, alt0]), rph, vel.copy(), 'rate')
        except _Done as d_:
            lla_out = d_.args[0]
        finally:
            enga._set(E, 'principal_radii', real_radii)
            enga.restore_one(T, 'mat_en_from_ll') if hasattr(enga, 'restore_one') else None
        if lla_out is None:
            raise RuntimeError('generate_imu did not reach the inertial part')
        lat_in, lon_in = lla_out
        lon_back = O([J(lon_in[k]) - J(S.symnp.rad2deg(E.RATE)) * time_arr[k] for k in range(n)])
        return (lat_in, lon_back), list(cap.get('cubic', [])), list(cap.get('anti', [])), list(radii_calls)
    res, _ = ex.run(body, max_paths=200, max_decisions=80)
    per_path = []
    ACC = S.rat(SIM.generate_imu.__code__.co_consts[[i for i, c_ in enumerate(SIM.generate_imu.__code__.co_consts) if c_ == 0.01][0]]) if 0.01 in SIM.generate_imu.__code__.co_consts else S.rat(0.01)
    MAX_ITER = 3
    for pr in res:
        if pr.status == 'abort' and pr.out == 'INFEASIBLE':
            continue
        if pr.status != 'ok':
            raise RuntimeError('generate_imu (initial-position form) did not run symbolically: %s' % (pr.out,))
        (lat, lon), cubic, anti, rcalls = pr.out
        extra = list(pr.pc)
        meta = {'check': 'initial_form'}
        obls = []
        Z = lambda name, e_, fam: obls.append(enga.zero('initial-position form: ' + name, e_, fam, extra, meta))
        alt = alt0 + anti[0][1] if anti else None
        Z('first row latitude = initial latitude', J(lat[0]).part(0) - lat0, 'initial-position form')
        Z('first row longitude = initial longitude', J(lon[0]).part(0) - lon0, 'initial-position form')
        Z('first row altitude = initial altitude', J(alt[0]).part(0) - alt0, 'initial-position form')
        # radii calls inside generate_imu before the inertial part: one per pass of the loop (latitude of the
        # previous pass), then one for the longitude (returned latitude); later calls belong to lla_to_ecef etc.
        n_pass = len(anti) - 2                      # antiderivatives: altitude, one per pass, longitude
        obls.append(enga.holds('initial-position form: between 1 and %d passes of the latitude loop' % MAX_ITER, z3.BoolVal(1 <= n_pass <= MAX_ITER), 'initial-position form', extra, meta))
        if not (1 <= n_pass <= MAX_ITER) or len(rcalls) < n_pass + 1:
            per_path.append(obls)
            continue
        at = lambda a_, k_: a_[k_] if isinstance(a_, np.ndarray) and a_.ndim else (a_[()] if isinstance(a_, np.ndarray) else a_)
        lat_prev_deg, alt_used, radii_prev = rcalls[n_pass - 1]
        lat_final_deg, _alt2, radii_final = rcalls[n_pass]
        for k in range(n):
            Z('d alt/dt = -VD at node %d' % k, J(alt[k]).part(1) + J(vel[k][2]).part(0), 'initial-position form')
            rn_prev = J(at(radii_prev[0], k))
            Z('altitude handed to the radii of the last pass is the integrated one, node %d' % k, J(at(alt_used, k)).part(0) - J(alt[k]).part(0), 'initial-position form')
            Z('d lat/dt = VN / R_N(latitude of the previous pass) at node %d' % k, J(lat[k]).part(1).deg2rad() * rn_prev - J(vel[k][0]).part(0), 'initial-position form')
            rp_f = J(at(radii_final[2], k))
            Z('d lon/dt = VE / ((R_E + h) cos lat) at the returned latitude, node %d' % k, J(lon[k]).part(1).deg2rad() * rp_f - J(vel[k][1]).part(0), 'initial-position form')
            Z('latitude handed to the longitude step is the returned one, node %d' % k, J(at(lat_final_deg, k)).part(0) - J(lat[k]).part(0), 'initial-position form')
            if n_pass < MAX_ITER:
                # early exit: the last pass moved every node by less than ACCURACY metres
                d = (J(at(lat_prev_deg, k)).part(0) - J(lat[k]).part(0)).deg2rad() * rn_prev
                ob = enga.holds('early exit after %d pass(es) only if the last pass moved node %d by less than ACCURACY' % (n_pass, k),
                                z3.And(d.c0 < ACC, d.c0 > -ACC), 'initial-position form: loop contract', extra, meta)
                obls.append(ob)
        per_path.append(obls)
    rep.run.encode(SIM.generate_imu)
    return per_path


def section_kinematics(rep):
    """K: with a FREE curve r_e(t) and free attitude C_eb(t) in the Earth frame, the lemmas
    L1-L3 + F imply the C01 oracle equations: specific force f_b = C_eb^T (r_e'' + 2 W x r_e'
    + W x (W x r_e) - gravitation_e) and body rate [w x] = C_eb^T C_eb' + C_eb^T [W x] C_eb.
    Pure rotating-frame kinematics over free symbols (glue lemma)."""
    import numpy as np
    import z3
    from .. import symreal as S, enga
    S.new_ctx([('s', 2)])
    enga.install()
    J, O = S.J, S.O
    sv = S.formal(0)
    dfun = np.vectorize(lambda x: J(x).d(0), otypes=[object])
    W = S.var('W')
    T0 = S.var('T0')
    ang = W * (T0 + sv)
    # ang is in radians here: a plain symbolic angle (no degree structure)
    c0, s0 = S.var('cw'), S.var('sw')
    S.C.cons.append(z3.Real('cw') * z3.Real('cw') + z3.Real('sw') * z3.Real('sw') == 1)
    # cos/sin(W (T0+s)) expanded at s = 0 with (cw, sw) = cos/sin(W T0)
    u = W * sv
    cosu = 1 - u * u * Fr(1, 2)
    sinu = u
    ca, sa = c0 * cosu - s0 * sinu, s0 * cosu + c0 * sinu
    Rz = O([[ca, -sa, 0], [sa, ca, 0], [0, 0, 1]])
    r_e = O([_series(S, 're%d' % i) for i in range(3)])
    Ceb = O([[_series(S, 'Q%d%d' % (i, j)) for j in range(3)] for i in range(3)])
    g_e = O([S.var('ge%d' % i) for i in range(3)])
    We = O([0, 0, W])
    r_i = np.dot(Rz, r_e)
    C_ib = np.dot(Rz, Ceb)
    g_i = np.dot(Rz, g_e)
    obls = []
    meta = {'check': 'kinematics'}
    acc = np.dot(C_ib.T, dfun(dfun(r_i)) - g_i)
    want = np.dot(Ceb.T, dfun(dfun(r_e)) + 2 * np.cross(We, dfun(r_e)) + np.cross(We, np.cross(We, r_e)) - g_e)
    # orthonormality of Rz is all that is needed; Ceb is free
    for i in range(3):
        obls.append(enga.zero('K: C_ib^T (r_i\'\' - g_i) = C_eb^T (r_e\'\' + 2 W x r_e\' + W x (W x r_e) - g_e) [%d]' % i,
                              J(acc[i]).part(0) - J(want[i]).part(0), 'rotating-frame kinematics (glue)', meta=meta))
    Wm = np.dot(C_ib.T, dfun(C_ib))
    Wx = O([[0, -W, 0], [W, 0, 0], [0, 0, 0]])
    want2 = np.dot(Ceb.T, dfun(Ceb)) + np.dot(Ceb.T, np.dot(Wx, Ceb))
    for i in range(3):
        for j in range(3):
            obls.append(enga.zero('K: C_ib^T C_ib\' = C_eb^T C_eb\' + C_eb^T [W x] C_eb [%d,%d]' % (i, j),
                                  J(Wm[i, j]).part(0) - J(want2[i, j]).part(0), 'rotating-frame kinematics (glue)', meta=meta))
    return obls


def section_stationary(rep, mutate=None):
    """a body at rest senses exactly Earth rate and the reaction to gravity"""
    import numpy as np
    import z3
    from .. import symreal as S, enga
    env = _Env(mutate)
    m, cap = env.m, env.cap
    SIM, T, E = m['SIM'], m['T'], m['E']
    J, O = S.J, S.O
    sv = S.formal(0)
    n = 2
    time_arr = O([S.var('T%d' % k) + sv for k in range(n)])
    lat = S.declare_angle('lat', -85, 85)
    lon = S.declare_angle('lon', -180, 180)
    alt = S.var('alt')
    S.C.dom += [z3.Real('alt') >= -1000, z3.Real('alt') <= 30000]
    rphv = [S.declare_angle('roll', -180, 180), S.declare_angle('pitch', -85, 85), S.declare_angle('heading', -180, 180)]
    lla = O([[lat, lon, alt]] * n)
    rph = O([rphv] * n)
    obls = []
    for form, vel in (('position', None), ('position+velocity', O([[J(0)] * 3] * n))):
        traj, imu = SIM.generate_imu(time_arr, lla, rph, vel, 'rate')
        Cnb = T.mat_from_rph(O(rphv))
        wn = E.rate_n(lat)
        gn = E.gravity_n(lat, alt)
        gy_want = np.dot(Cnb.T, wn)
        ac_want = -np.dot(Cnb.T, gn)
        meta = {'check': 'stationary', 'params': {'form': form}}
        for k in range(n):
            gy = imu[['gyro_x', 'gyro_y', 'gyro_z']].values[k]
            ac = imu[['accel_x', 'accel_y', 'accel_z']].values[k]
            Vn = traj[['VN', 'VE', 'VD']].values[k]
            for i in range(3):
                obls.append(enga.zero('%s form, row %d: stationary gyro[%d] = (C_nb^T Earth rate)[%d]' % (form, k, i, i), J(gy[i]).part(0) - gy_want[i], 'body at rest', meta=meta))
                obls.append(enga.zero('%s form, row %d: stationary accel[%d] = -(C_nb^T gravity)[%d]' % (form, k, i, i), J(ac[i]).part(0) - ac_want[i], 'body at rest', meta=meta))
                obls.append(enga.zero('%s form, row %d: stationary velocity[%d] = 0' % (form, k, i), J(Vn[i]).part(0), 'body at rest', meta=meta))
    return obls


def section_increments(rep, K=6, mutate=None):
    """_compute_increment_readings(dt, a, b, c, d, e) = exact integrals over the interval of the body
    rate of C(tau) = exp([a tau + b tau^2 + c tau^3] x) and of C(tau)^T (d + e tau), through dt^K
    (Peano-Baker / exponential series in the jet algebra - independent of the coefficients in the code)"""
    import numpy as np
    from .. import symreal as S, enga
    from ..symscipy import _rotvec_matrix
    S.new_ctx([('tau', K)])
    m = enga.install()
    if mutate:
        mutate(m)
    SIM = m['SIM']
    J, O = S.J, S.O
    tau = S.formal(0)
    vec = lambda nm: O([S.var('%s%d' % (nm, i)) for i in range(3)])
    a, b, c, d, e = vec('a'), vec('b'), vec('c'), vec('d'), vec('e')
    gy, ac = SIM._compute_increment_readings(tau, a, b, c, d, e)
    dfun = np.vectorize(lambda x: J(x).d(0), otypes=[object])
    integ = np.vectorize(lambda x: J(x).integ(0), otypes=[object])
    theta = O([a[i] * tau + b[i] * tau * tau + c[i] * tau * tau * tau for i in range(3)])
    C = _rotvec_matrix(theta)
    Wm = np.dot(C.T, dfun(C))                       # exact through tau^(K-1)
    omega = O([Wm[2, 1], Wm[0, 2], Wm[1, 0]])
    gy_ex = integ(omega)
    f_b = np.dot(C.T, O([d[i] + e[i] * tau for i in range(3)]))
    ac_ex = integ(f_b)
    obls = []
    meta = {'check': 'increments'}
    # the code keeps terms through second order in the rotation vector: the gyro increment is
    # exact through dt^4, the accelerometer increment through dt^3 (the first neglected terms are
    # the n^2/24 and [theta x]^3/6 terms of the exponential map)
    for k in range(1, min(K, 4) + 1):
        for i in range(3):
            obls.append(enga.zero('gyro increment[%d], dt^%d = integral of the body rate of exp([a t + b t^2 + c t^3] x)' % (i, k), J(gy[i]).part(k) - J(gy_ex[i]).part(k), 'increment readings', meta=meta))
            if k <= 3:
                obls.append(enga.zero('accel increment[%d], dt^%d = integral of C(t)^T (d + e t)' % (i, k), J(ac[i]).part(k) - J(ac_ex[i]).part(k), 'increment readings', meta=meta))
    for i in range(3):
        obls.append(enga.zero('gyro increment[%d] vanishes for dt = 0' % i, J(gy[i]).part(0), 'increment readings', meta=meta))
        obls.append(enga.zero('accel increment[%d] vanishes for dt = 0' % i, J(ac[i]).part(0), 'increment readings', meta=meta))
    rep.run.encode(SIM._compute_increment_readings)
    return obls


CANARIES = [
    ('initial-position form: latitude loop leaves on a signed test', 'initial', ('SIM', 'generate_imu', 'if np.all(np.abs(delta) < ACCURACY):', 'if np.all(delta < ACCURACY):')),
    ('initial-position form: altitude integrates +VD', 'initial', ('SIM', 'generate_imu', 'VU_spline = CubicSpline(time, -velocity_n[:, 2])', 'VU_spline = CubicSpline(time, velocity_n[:, 2])')),
    ('body frame transposition dropped', 'rate', ('SIM', 'generate_imu', 'accel = util.mv_prod(mat_ib, v_i_spline(time, 1) - g_i, at=True)', 'accel = util.mv_prod(mat_ib, v_i_spline(time, 1) - g_i, at=False)')),
    ('gravitation added instead of subtracted', 'rate', ('SIM', 'generate_imu', 'v_i_spline(time, 1) - g_i, at=True)', 'v_i_spline(time, 1) + g_i, at=True)')),
    ('inertial longitude rate', 'rate', ('SIM', 'generate_imu', "lla_inertial[:, 1] += np.rad2deg(earth.RATE) * time", "lla_inertial[:, 1] += earth.RATE * time")),
    ('velocity without Earth rotation term', 'rate', ('SIM', 'generate_imu', 'mat_in, v_i_spline(time) - np.cross(earth_rate_i, r_i), True)', 'mat_in, v_i_spline(time), True)')),
    ('increment series coefficient omega[2]', 'inc', ('SIM', '_compute_increment_readings', 'omega[2] = 3 * c - 0.5 * ab', 'omega[2] = 3 * c + 0.5 * ab')),
    ('increment series coefficient f[2]', 'inc', ('SIM', '_compute_increment_readings', 'f[2] = -ae - bd + 0.5 * np.cross(a, ad)', 'f[2] = -ae - bd - 0.5 * np.cross(a, ad)')),
    ('increment wiring: end-of-interval attitude', 'wiring', ('SIM', 'generate_imu', 'd = util.mv_prod(mat_ib[:-1], d, at=True)', 'd = util.mv_prod(mat_ib[1:], d, at=True)')),
    ('increment wiring: gravitation slope dropped', 'wiring', ('SIM', 'generate_imu', 'e = a_s.c[0] - np.diff(g_i, axis=0) / dt', 'e = a_s.c[0]')),
    ('increment series: integration weight', 'inc', ('SIM', '_compute_increment_readings', 'accels += f[k] / (k + 1)', 'accels += f[k] / (k + 2)')),
]


def run(run):
    import z3
    from .. import enga, common
    from .. import symreal as S
    from .c17 import _mut
    box = {}
    for k in range(2):
        box.update({'lat%d_0' % k: (-80, 80), 'lon%d_0' % k: (-170, 170), 'alt%d_0' % k: (0, 10000), 'pitch%d_0' % k: (-80, 80),
                    'roll%d_0' % k: (-170, 170), 'head%d_0' % k: (-170, 170), 'T%d' % k: (0, 100)})
        for o in (1, 2):
            for nm in ('lat', 'lon'):
                box['%s%d_%d' % (nm, k, o)] = (-1e-4, 1e-4)
            box['alt%d_%d' % (k, o)] = (-5, 5)
            for nm in ('roll', 'pitch', 'head'):
                box['%s%d_%d' % (nm, k, o)] = (-20, 20)
    box.update({'lat': (-80, 80), 'lon': (-170, 170), 'alt': (0, 10000), 'roll': (-170, 170), 'pitch': (-80, 80), 'heading': (-170, 170)})
    for nm in 'abcde':
        for i in range(3):
            box['%s%d' % (nm, i)] = (-2, 2)
    rep = enga.AReport(run, box=box, consts=dict(enga.WGS84))
    rep.definedness = True
    run.assume('scipy CubicSpline / CubicHermiteSpline / RotationSpline are IDEAL interpolants of an arbitrary smooth motion: node values (and supplied node derivatives) reproduced, higher derivatives those of the underlying function (time-jets of order %d at each row). The size and decay of the real interpolation error ("within interpolation error that shrinks") is outside' % ORD,
               'decomposition at the scipy boundary: (L1) position nodes = inertial position, (L2) gravitation array, (L3) attitude nodes, (F) readings = definition applied to the captured quantities, (K) rotating-frame kinematics glue lemma over a free curve: together they give specific force and body rate of the motion, i.e. the C01 oracle equations; (V) returned velocity; (H1) Hermite node derivatives',
               'covered: position-only and position+velocity input forms, rate sensors; the closed-form increment integrals of _compute_increment_readings (gyro exact through dt^4, accelerometer through dt^3: the code keeps terms through second order in the rotation vector); a body at rest. the wiring of the increment-type branch of generate_imu (spline polynomial coefficients as free symbols of the local model: rotation-vector coefficients, specific force value and slope in the start-of-interval body frame, first sample duplicated). the initial-position form: ideal antiderivatives (zero at the first node, free values elsewhere, derivative = the interpolated function), trajectory rates and the contract of the fixed-point latitude loop on every exit path. NOT covered: that the spline coefficients scipy returns are those of the motion (interpolation error); Turntable',
               'symbolic ellipsoid constants; |lat| <= 85 deg; exact real arithmetic')
    timeout = 60 if run.tier == 'quick' else 300
    for form in ('position', 'position+velocity'):
        obls = section_rate(rep, form)
        rep.finish(rep.batch(obls, timeout_s=timeout), PROP)
        s = z3.Solver()
        s.add(S.C.cons)
        s.add(S.C.dom)
        run.witness('%s form: constraint set satisfiable' % form, s.check() == z3.sat)
    pp_ = section_initial_form(rep)
    run.witness('initial-position form: the latitude loop is explored with early and late exits', len(pp_) >= 2)
    rep.finish(rep.batch([o for p_ in pp_ for o in p_], timeout_s=timeout), PROP)
    rep.finish(rep.batch(section_kinematics(rep), timeout_s=timeout), PROP)
    rep.finish(rep.batch(section_stationary(rep), timeout_s=timeout), PROP)
    rep.finish(rep.batch(section_increments(rep, 5), timeout_s=timeout), PROP)
    rep.finish(rep.batch(section_increment_wiring(rep), timeout_s=timeout), PROP)
    rep.selfcheck(PROP, [{'check': 'rate', 'point': {}, 'params': {'form': 'position'}}, {'check': 'rate', 'point': {}, 'params': {'form': 'position+velocity'}},
                         {'check': 'stationary', 'point': {}, 'params': {'form': 'position'}}, {'check': 'wiring', 'point': {}}, {'check': 'initial_form', 'point': {}}] + [{'check': 'increments', 'point': pt} for pt in rep.points((3 if run.tier == 'quick' else 20))])
    for name, sec, spec in CANARIES:
        try:
            if sec == 'initial':
                obls = [o for p_ in section_initial_form(rep, _mut(spec)) for o in p_]
            else:
                obls = section_rate(rep, 'position', _mut(spec)) if sec == 'rate' else (
                    section_increment_wiring(rep, _mut(spec)) if sec == 'wiring' else section_increments(rep, 5, _mut(spec)))
        except common.HarnessError as e:
            run.canary(name, False, str(e))
            continue
        rep.canary(name, obls, timeout_s=8)
    enga.restore()
    run.bounds.update({'rows': 2, 'jet order per row': ORD, 'increment series': 'gyro dt^4, accel dt^3'})


def replay(spec):
    """numeric oracle: generate_imu on a smooth analytic motion sampled finely vs the analytic
    specific force / body rate computed independently in ECEF"""
    import numpy as np
    from pyins import sim, transform, earth
    chk = spec.get('check')
    fails = []
    if chk == 'increments':
        pt = spec['point']
        v = lambda nm: np.array([pt.get('%s%d' % (nm, i), 0.1 * (i + 1)) for i in range(3)])
        a, b, c, d, e = v('a'), v('b'), v('c'), v('d'), v('e')
        from scipy.spatial.transform import Rotation
        th = lambda t: a * t + b * t**2 + c * t**3
        errs = {}
        for dt in (0.04, 0.02):
            gy, ac = sim._compute_increment_readings(dt, a, b, c, d, e)
            N = 2000
            ts = (np.arange(N) + 0.5) * dt / N
            h = 1e-6
            gsum = np.zeros(3)
            asum = np.zeros(3)
            for t in ts:
                C = Rotation.from_rotvec(th(t)).as_matrix()
                Cd = (Rotation.from_rotvec(th(t + h)).as_matrix() - Rotation.from_rotvec(th(t - h)).as_matrix()) / (2 * h)
                Wm = C.T @ Cd
                gsum += np.array([Wm[2, 1], Wm[0, 2], Wm[1, 0]])
                asum += C.T @ (d + e * t)
            errs[dt] = (np.abs(gy - gsum * dt / N).max(), np.abs(ac - asum * dt / N).max())
        sc = max(1.0, np.abs(np.hstack([a, b, c, d, e])).max())
        for idx, (p, what) in enumerate(((5, 'gyro'), (4, 'accel'))):
            e1, e2 = errs[0.04][idx], errs[0.02][idx]
            # the error must fall at the documented order on halving (rounding-level errors exempt)
            if e1 > 3e-9 * sc and not (e2 > 0 and e1 / e2 > 2 ** (p - 0.6)):
                fails.append('%s increment error %.3g at dt=0.04 (%.3g at 0.02, ratio %.2f) does not fall like dt^%d' % (what, e1, e2, e1 / max(e2, 1e-300), p))
            elif e1 > 50 * sc ** (p + 1) * 0.04 ** p:
                fails.append('%s increment error %.3g at dt=0.04 far above the O(dt^%d) level' % (what, e1, p))
        return {'violated': bool(fails), 'detail': fails}
    if chk == 'initial_form':
        # initial position + velocity: the returned position must be the solution of
        # lat' = VN / (R_N + h), lon' = VE / ((R_E + h) cos lat), alt' = -VD  (independent RK4)
        from pyins import earth as E_
        for name, vn0, lat0 in (('northbound', 150.0, 20.0), ('southbound', -150.0, 20.0), ('southbound, southern hemisphere', -200.0, -40.0), ('oscillating', 0.0, 55.0)):
            dt_ = 0.5
            tt = np.arange(0, 600 + dt_, dt_)
            VN = vn0 + 20 * np.sin(0.01 * tt) + (80 * np.sin(0.02 * tt) if vn0 == 0 else 0)
            VE = 60 + 30 * np.cos(0.013 * tt)
            VD = 2 * np.sin(0.02 * tt)
            vel = np.vstack([VN, VE, VD]).T
            rph_ = np.zeros((len(tt), 3))
            rph_[:, 2] = 45.0
            tr_, _imu = sim.generate_imu(tt, np.array([lat0, 30.0, 1000.0]), rph_, vel, 'rate')
            vfun = lambda t: np.array([vn0 + 20 * np.sin(0.01 * t) + (80 * np.sin(0.02 * t) if vn0 == 0 else 0), 60 + 30 * np.cos(0.013 * t), 2 * np.sin(0.02 * t)])

            def rhs(t, y):
                rn, re, rp = E_.principal_radii(np.degrees(y[0]), y[2])
                v = vfun(t)
                return np.array([v[0] / rn, v[1] / rp, -v[2]])
            y = np.array([np.radians(lat0), np.radians(30.0), 1000.0])
            out = [y.copy()]
            h = dt_ / 4
            for k in range(len(tt) - 1):
                for j in range(4):
                    t = tt[k] + j * h
                    k1 = rhs(t, y)
                    k2 = rhs(t + h / 2, y + h / 2 * k1)
                    k3 = rhs(t + h / 2, y + h / 2 * k2)
                    k4 = rhs(t + h, y + h * k3)
                    y = y + h / 6 * (k1 + 2 * k2 + 2 * k3 + k4)
                out.append(y.copy())
            out = np.array(out)
            e_lat = np.abs(np.radians(tr_['lat'].values) - out[:, 0]).max() * 6.37e6
            e_lon = np.abs(np.radians(tr_['lon'].values) - out[:, 1]).max() * 6.37e6 * np.cos(np.radians(lat0))
            e_alt = np.abs(tr_['alt'].values - out[:, 2]).max()
            if max(e_lat, e_lon, e_alt) > 0.03:
                fails.append('initial-position form, %s track: returned position differs from the integral of the supplied velocity by %.3g m (lat) %.3g m (lon) %.3g m (alt)' % (name, e_lat, e_lon, e_alt))
            if tuple(tr_.iloc[0][['lat', 'lon', 'alt']].values) != (lat0, 30.0, 1000.0):
                fails.append('initial-position form: first row is not the supplied initial position')
        return {'violated': bool(fails), 'detail': fails}
    if chk == 'wiring':
        # increment-type sensor at rest on the rotating Earth: every increment is the constant
        # body-frame Earth rate / reaction to gravity times the interval, although in the inertial
        # frame in which generate_imu works attitude, acceleration and gravitation all rotate
        from pyins import transform as T_
        for mode_ in (0.1, 1.0, 'irregular'):
            for lla0, rph0 in (([50.0, 30.0, 1000.0], [10.0, -20.0, 100.0]), ([-35.0, -100.0, 50.0], [-170.0, 40.0, -60.0])):
                dt_ = mode_
                if mode_ == 'irregular':
                    # irregular stamps (jitter, a dropped sample, a rate change): every increment is the
                    # integral over ITS OWN interval
                    steps = np.array([0.05, 0.1, 0.1, 0.2, 0.1, 0.07, 0.13, 0.1, 0.3, 0.1, 0.1])
                    tt = np.concatenate([[0.0], np.cumsum(steps)])
                    dt_ = np.concatenate([[steps[0]], steps])[:, None]
                else:
                    tt = np.arange(0, 12 * dt_, dt_)
                lla_ = np.tile(lla0, (len(tt), 1))
                rph_ = np.tile(rph0, (len(tt), 1))
                tr_, imu_ = sim.generate_imu(tt, lla_, rph_, None, 'increment')
                C = T_.mat_from_rph(np.array(rph0))
                gy = C.T @ earth.rate_n(lla0[0]) * dt_
                ac = -C.T @ earth.gravity_n(lla0[0], lla0[2]) * dt_
                eg = np.abs(imu_[['gyro_x', 'gyro_y', 'gyro_z']].values - gy).max()
                ea = np.abs(imu_[['accel_x', 'accel_y', 'accel_z']].values - ac).max()
                dmax = float(np.max(dt_))
                lab = ('%g' % dt_) if np.ndim(dt_) == 0 else 'irregular 0.05..0.3'
                if eg > 1e-12 * max(1.0, dmax / 0.1):
                    fails.append('increment sensor at rest (dt=%s): gyro increments differ from the body-frame Earth rate times dt by %.3g rad' % (lab, eg))
                if ea > 2e-7 * max(1.0, 0.1 / float(np.min(dt_))):
                    fails.append('increment sensor at rest (dt=%s): accel increments differ from the reaction to gravity times dt by %.3g m/s' % (lab, ea))
                if len(imu_) != len(tt) or not np.array_equal(imu_.values[0], imu_.values[1]):
                    fails.append('increment sensor: one row per stamp with the first sample duplicated does not hold')
        return {'violated': bool(fails), 'detail': fails}
    # smooth analytic motion, around the replayed point (if it names a position) and around fixed
    # bases in both hemispheres and both east/west half-spaces
    form = (spec.get('params') or {}).get('form', 'position')
    pt = spec.get('point') or {}
    bases = [(50.0, 30.0, 1000.0), (-35.0, -100.0, 50.0)]
    plat = pt.get('lat0_0', pt.get('lat'))
    if plat is not None and abs(plat) <= 84.9:
        bases.insert(0, (float(plat), float(pt.get('lon0_0', pt.get('lon', 30.0))), float(pt.get('alt0_0', pt.get('alt', 1000.0)))))
    for (lat0, lon0, alt0) in bases:
        dt = 0.02
        t = np.arange(0, 8, dt)
        lat = lat0 + 1e-4 * np.sin(0.5 * t) + 2e-5 * t
        lon = lon0 + 2e-4 * np.cos(0.4 * t)
        alt = alt0 + 5 * np.sin(0.3 * t)
        rph = np.vstack([10 * np.sin(0.7 * t), 5 * np.cos(0.5 * t), 100 + 20 * np.sin(0.2 * t)]).T
        lla = np.vstack([lat, lon, alt]).T
        if chk == 'stationary':
            lla[:] = [lat0, lon0, alt0]
            rph[:] = [10.0, -20.0, 100.0]
        vel = None
        if form == 'position+velocity':
            tr0, _ = sim.generate_imu(t, lla, rph, None, 'rate')
            vel = tr0[['VN', 'VE', 'VD']].values
        traj, imu = sim.generate_imu(t, lla, rph, vel, 'rate')
        # independent oracle: central differences of the ECEF position and attitude (Earth frame);
        # the gravitation is rebuilt from the normal gravity and the centrifugal term, NOT taken from
        # earth.gravitation_ecef (which generate_imu itself uses)
        r_e = transform.lla_to_ecef(lla)
        W = np.array([0, 0, earth.RATE])
        k = np.arange(50, len(t) - 50)
        v_e = (r_e[k + 1] - r_e[k - 1]) / (2 * dt)
        a_e = (r_e[k + 1] - 2 * r_e[k] + r_e[k - 1]) / dt**2
        C_en = transform.mat_en_from_ll(lla[:, 0], lla[:, 1])
        C_nb = transform.mat_from_rph(rph)
        C_eb = np.einsum('kij,kjl->kil', C_en, C_nb)
        g_n = np.zeros((len(t), 3))
        g_n[:, 2] = earth.gravity(lla[:, 0], lla[:, 2])
        g_e = np.einsum('kij,kj->ki', C_en, g_n) + np.cross(W, np.cross(W, r_e))
        f_e = a_e + 2 * np.cross(W, v_e) + np.cross(W, np.cross(W, r_e[k])) - g_e[k]
        f_b = np.einsum('kji,kj->ki', C_eb[k], f_e)
        Cd = (C_eb[k + 1] - C_eb[k - 1]) / (2 * dt)
        Wm = np.einsum('kji,kjl->kil', C_eb[k], Cd)
        w_b = np.vstack([Wm[:, 2, 1], Wm[:, 0, 2], Wm[:, 1, 0]]).T + np.einsum('kji,j->ki', C_eb[k], W)
        ea = np.abs(imu[['accel_x', 'accel_y', 'accel_z']].values[k] - f_b).max()
        eg = np.abs(imu[['gyro_x', 'gyro_y', 'gyro_z']].values[k] - w_b).max()
        where = ' (motion around lat %.3f lon %.3f alt %.0f)' % (lat0, lon0, alt0)
        if ea > 2e-3:
            fails.append('accelerometer readings differ from the specific force of the motion by %.3g m/s^2' % ea + where)
        if eg > 2e-5:
            fails.append('gyro readings differ from the body rate of the motion by %.3g rad/s' % eg + where)
        vn = np.einsum('kji,kj->ki', C_en[k], v_e)
        if np.abs(traj[['VN', 'VE', 'VD']].values[k] - vn).max() > 1e-3:
            fails.append('returned velocity_n differs from C_en^T d/dt r_e by %.3g' % np.abs(traj[['VN', 'VE', 'VD']].values[k] - vn).max() + where)
    return {'violated': bool(fails), 'detail': fails}


RIM = {'lat': -84.6, 'lon': 150.0, 'alt': 15000.0, 'VN': 250.0, 'VE': -200.0, 'VD': 5.0, 'roll': 120.0, 'pitch': -60.0, 'heading': -170.0}


def FALLBACK(tier):
    """numeric oracle specs put to the compiled code when the symbolic run is inconclusive (main.py)"""
    return [{'check': 'rate', 'point': {}, 'params': {'form': 'position'}}, {'check': 'rate', 'point': {}, 'params': {'form': 'position+velocity'}}, {'check': 'stationary', 'point': {}, 'params': {'form': 'position'}}, {'check': 'wiring', 'point': {}}, {'check': 'initial_form', 'point': {}}, {'check': 'increments', 'point': {}}]
