"""C13 - no-altitude mode keeps altitude frozen and vertical velocity zero.
Engine B (real Integrator + real kernel source on symbolic sizes, invariant over all histories),
engine C (FloatingPoint lemmas for "exactly"), engine B on the feedback loop (the filter only ever
overwrites the state with a 2D correction of the latest state), engine A (2D output rows
identically zero; 2D correction returns alt/VD unchanged; position / NED-velocity models drop
their vertical row)."""
LEVEL = 'model_checking'
PROP = 'C13'


# ------------------------------------------------------------------------------------------
# (a) integrator invariant: every produced row has VD = 0.0 and the supplied altitude
# ------------------------------------------------------------------------------------------
_FP_CACHE = {}


def _flag(kind):
    """the no-altitude mode is selected by a FALSY with_altitude: the literal False, a numpy boolean
    (what any numpy / pandas comparison returns) and the integer 0 must all select it"""
    import numpy as np
    return {'False': False, 'np.bool_': np.bool_(False), '0': 0}[kind]


def _scenario_class():
    from . import c02

    class S13(c02.Scenario):
        """2D scenarios of C02 with the C13 obligations on every produced row"""

        def fp_alt_frozen(self, alt_new, alt_prev, what):
            """alt_new is FP-equal to alt_prev: term -> QF_FP, assuming finite increments"""
            import z3
            from .. import fp
            from ..symtime import K
            ig = self.integ
            ig.NOBL[0] += 1
            if alt_new is alt_prev or alt_new == alt_prev:
                return
            if not isinstance(alt_new, K):
                ig.VIOL.add('alt_changed', '%s: altitude is not the supplied altitude' % what)
                return
            ck = (alt_new.id, alt_prev.id if isinstance(alt_prev, K) else alt_prev)
            cached = _FP_CACHE.get(ck)
            if cached is not None:
                if cached != 'unsat':
                    ig.VIOL.add('alt_changed', '%s: altitude of a produced row is not exactly the latest supplied altitude (FloatingPoint query: %s)' % (what, cached))
                return
            tr = fp.Translator()
            a_new = tr.tr(alt_new)
            a_prev = tr.tr(alt_prev) if isinstance(alt_prev, K) else fp.fpval(alt_prev)
            assume = [fp.finite(v) for v in tr.leaves.values()]
            r, model, secs = fp.prove(z3.fpEQ(a_new, a_prev), assume, timeout_ms=20000)
            self.fp_stats = getattr(self, 'fp_stats', [0, 0.0])
            self.fp_stats[0] += 1
            self.fp_stats[1] += secs
            _FP_CACHE[ck] = r
            if r != 'unsat':
                ig.VIOL.add('alt_changed', '%s: altitude of a produced row is not exactly the latest supplied altitude (FloatingPoint query: %s)' % (what, r))

        def rows_ok(self, it, n0, m, alt_ref, what):
            """rows n0 .. n0+m-1 of the buffers: VD literal 0.0, altitude frozen"""
            ig = self.integ
            for k in range(m):
                row = n0 + k
                vd = it.velocity_n.cells.get((ig.ikey(row), (2,)))
                ig.NOBL[0] += 1
                if not (isinstance(vd, float) and vd == 0.0):
                    ig.VIOL.add('vd_nonzero', '%s: vertical velocity of produced row %d is not the literal 0.0' % (what, k))
                alt = it.lla.cells.get((ig.ikey(row), (2,)))
                self.fp_alt_frozen(ig.cellkey(alt), alt_ref, '%s row %d' % (what, k))

        def traj_rows_ok(self, rows, what):
            """trajectory rows built by hstack: the VD column entry is 0.0"""
            ig = self.integ
            for r in rows:
                k = ig._key(r)
                ig.NOBL[0] += 1
                if isinstance(k, ig.K) and k[0] == 'hrow':
                    vel = k[2]
                    if not (isinstance(vel, ig.K) and vel[0] == 'row' and vel[3] == 0.0):
                        ig.VIOL.add('vd_nonzero', '%s: VD entry of a trajectory row is not the literal 0.0' % what)

        def sc_integrate(self, m, wa, flag='False'):
            ig, h = self.integ, self.h
            it = h.state(self.n, self.cap, _flag(flag))
            alt0 = ig.cellkey(it.lla.cells[(ig.ikey(self.n - 1), (2,))])
            ret = it.integrate(ig.Chunk('c', m))
            self.rows_ok(it, self.n, m, alt0, 'integrate(%d)' % m)
            self.traj_rows_ok(it.trajectory.tail.rows[1:], 'integrate(%d)' % m)
            return {'new_cap': it.lla.cap}

        def sc_predict(self, wa, flag='False'):
            ig, h = self.integ, self.h
            it = h.state(self.n, self.cap, _flag(flag))
            alt0 = ig.cellkey(it.lla.cells[(ig.ikey(self.n - 1), (2,))])
            pr = it.predict(ig.Chunk('c', 1).row(0))
            self.traj_rows_ok([pr], 'predict')
            self.rows_ok(it, self.n, 1, alt0, 'predict')
            return {'new_cap': it.lla.cap}

        def sc_set_pva(self, m, wa, same=None, flag='False'):
            """overwrite with an ARBITRARY state (non-zero vertical velocity), then integrate"""
            ig, h = self.integ, self.h
            it = h.state(self.n, self.cap, _flag(flag))
            p = ig.Pva('P')
            it.set_pva(p)
            vd = it.velocity_n.cells.get((ig.ikey(self.n - 1), (2,)))
            self.check('stored vertical velocity after set_pva is the literal 0.0', isinstance(vd, float) and vd == 0.0)
            last = ig._key(it.trajectory.tail.rows[-1])
            self.check('trajectory row written by set_pva has VD = 0', isinstance(last, ig.K) and last[0] == 'rowof' and last[1][2] is True)
            self.check('set_pva does not modify its argument', p.vd0 is False)
            alt0 = ig.cellkey(it.lla.cells[(ig.ikey(self.n - 1), (2,))])
            self.check('altitude stored by set_pva is the supplied one', alt0 is ig.Tok('get', ig.Tok('pvacols', ig.mk('pva', 'P', False), ig.LLA), 2).key())
            it.integrate(ig.Chunk('c', m))
            self.rows_ok(it, self.n, m, alt0, 'integrate after set_pva')
            self.traj_rows_ok(it.trajectory.tail.rows[1:], 'integrate after set_pva')
            return {'new_cap': it.lla.cap}

        def sc_constructor(self, wa, flag='False'):
            ig, h = self.integ, self.h
            h.SD.Integrator.INITIAL_SIZE = self.isz
            p = ig.Pva('P')
            it = h.SD.Integrator(p, _flag(flag))
            vd = it.velocity_n.cells.get((ig.ikey(0), (2,)))
            self.check('constructor stores vertical velocity 0.0 for an arbitrary supplied VD', isinstance(vd, float) and vd == 0.0)
            first = ig._key(it.trajectory.tail.rows[0])
            self.check('first trajectory row has VD = 0', isinstance(first, ig.K) and first[0] == 'rowof' and first[1][2] is True)
            alt0 = ig.cellkey(it.lla.cells[(ig.ikey(0), (2,))])
            it.integrate(ig.Chunk('c', 2))
            self.rows_ok(it, 1, 2, alt0, 'integrate after the constructor')
            return {'new_cap': it.lla.cap}

        def sc_history(self, seq, wa):
            ig, h = self.integ, self.h
            h.SD.Integrator.INITIAL_SIZE = self.isz
            it = h.SD.Integrator(ig.Pva('P0'), False)
            alt = ig.cellkey(it.lla.cells[(ig.ikey(0), (2,))])
            nrows, used, npv = 1, 0, 0
            total = sum(int(o[1]) for o in seq if o[0] == 'i') + sum(1 for o in seq if o == 'p')
            big = ig.Chunk('c', total + 1)
            for o in seq:
                if o[0] == 'i':
                    mm = int(o[1])
                    it.integrate(big.sub(used, used + mm))
                    self.rows_ok(it, nrows, mm, alt, 'history %s' % (seq,))
                    used += mm
                    nrows += mm
                elif o == 'p':
                    pr = it.predict(big.sub(used, used + 1).row(0))
                    self.traj_rows_ok([pr], 'history predict')
                else:
                    npv += 1
                    it.set_pva(ig.Pva('P%d' % npv))
                    alt = ig.cellkey(it.lla.cells[(ig.ikey(nrows - 1), (2,))])
            self.traj_rows_ok(it.trajectory.tail.rows[1:], 'history %s' % (seq,))
            return {'new_cap': it.lla.cap}
    return S13


INTEG_CANARIES = [
    ('set_pva keeps the supplied vertical velocity (pre-fix behaviour)', 'set_pva', 'pva.VD = 0.0', 'pva.VD = pva.VD if False else 0.0 if False else pva_keep(pva)', None),
    ('kernel integrates vertical velocity in 2D', 'kernel', 'velocity_n[j + 1, 2] = 0.0', 'velocity_n[j + 1, 2] = V3 + dv3', ('integrate', dict(m=2, wa=False))),
    ('kernel altitude uses the unaveraged increment', 'kernel', 'lla[j + 1, 2] = lla[j, 2] - V3 * dt', 'lla[j + 1, 2] = lla[j, 2] - (V3 + dv3) * dt', ('integrate', dict(m=1, wa=False))),
    ('constructor keeps the supplied vertical velocity', '__init__', 'self.initial_pva.VD = 0.0', 'pass', ('constructor', dict(wa=False))),
]


# ------------------------------------------------------------------------------------------
# (b) feedback loop: the filter only overwrites the state with a 2D correction of the latest state
# ------------------------------------------------------------------------------------------
def _filter_checker():
    from .. import filtercheck as fc
    from ..symtime import K

    class C13Checker(fc.Checker):
        def extra_obligations(self, ex, res, log, out, add):
            init = [e for e in log if e[0] == 'init']
            out['nobl'] += 1
            if len(init) != 1 or init[0][2] is not False:
                add('integrator_mode', 'the filter does not construct exactly one integrator in the no-altitude mode')
            for e in log:
                if e[0] == 'set_pva':
                    out['nobl'] += 1
                    arg, prev = e[2], e[3]
                    ok = isinstance(arg, K) and arg[0] == 'correct_pva' and arg[1] is prev and arg[3] is False
                    if not ok:
                        add('set_pva_arg', 'the state written back is not the 2D correction of the latest integrator state (altitude / VD of another state could be written)')
            # every trajectory row comes from the integrator
            traj = res['trajectory']
            out['nobl'] += 1
            if getattr(traj, 'tname', None) != 'result':
                add('trajectory_source', 'returned trajectory is not the integrator\'s own table')
    return C13Checker


FILTER_CANARIES = [
    ('filter builds a 3D integrator', 'strapdown.Integrator(initial_pva, with_altitude)', 'strapdown.Integrator(initial_pva)'),
    ('filter corrects the predicted state instead of the latest', 'error_model.correct_pva(integrator.get_pva(), x[ins_block])', 'error_model.correct_pva(pva, x[ins_block])'),
]


# ------------------------------------------------------------------------------------------
# (c,d) FloatingPoint lemmas
# ------------------------------------------------------------------------------------------
def fp_lemmas(run):
    import z3
    from .. import fp
    F, RNE = fp.F64, fp.RNE
    v, p, alt, x1, x2, x3, dt = (fp.fpvar(n) for n in ('v', 'p', 'alt', 'x1', 'x2', 'x3', 'dt'))
    zero, one = fp.fpval(0.0), fp.fpval(1.0)
    mul = lambda a, b: z3.fpMul(RNE, a, b)
    add = lambda a, b: z3.fpAdd(RNE, a, b)
    lem = []
    # T_out (2D) entries of rows down / VD: 1*v + (-v)*1 with zero products in between, any order
    t1, t2 = mul(one, v), mul(z3.fpNeg(v), one)
    z_ = mul(zero, p)
    for nm, e in (('(1*v + 0*p) + (-v)*1', add(add(t1, z_), t2)), ('((-v)*1 + 0*p) + 1*v', add(add(t2, z_), t1)), ('1*v + (-v)*1', add(t1, t2))):
        lem.append(('T_out 2D zero entry %s is a zero' % nm, z3.fpIsZero(e), [fp.finite(v), fp.finite(p)]))
    # sd^2 entry: z1 * p * z2 = zero; sum of zeros is zero; sqrt(zero) is zero
    z1, z2 = fp.fpvar('z1'), fp.fpvar('z2')
    lem.append(('variance term z1*p*z2 is a zero for zero factors', z3.fpIsZero(mul(mul(z1, p), z2)), [z3.fpIsZero(z1), z3.fpIsZero(z2), fp.finite(p)]))
    lem.append(('sum of two zeros is a zero', z3.fpIsZero(add(z1, z2)), [z3.fpIsZero(z1), z3.fpIsZero(z2)]))
    lem.append(('square root of a zero is a zero (reported sd exactly 0)', z3.fpIsZero(z3.fpSqrt(RNE, z1)), [z3.fpIsZero(z1)]))
    # 2D correct_pva: altitude - (-(0*x1 + 0*x2 + 0*x3)) == altitude
    s = add(add(mul(zero, x1), mul(zero, x2)), mul(zero, x3))
    lem.append(('2D correction: alt - (-(0*x1 + 0*x2 + 0*x3)) == alt', z3.fpEQ(z3.fpSub(RNE, alt, z3.fpNeg(s)), alt),
                [fp.finite(x1), fp.finite(x2), fp.finite(x3), z3.Not(z3.fpIsNaN(alt))]))
    # kernel: alt - (0.5*(0+0))*dt == alt
    lem.append(('kernel: alt - (0.5*(0.0+0.0))*dt == alt', z3.fpEQ(z3.fpSub(RNE, alt, mul(mul(fp.fpval(0.5), add(zero, zero)), dt)), alt),
                [fp.finite(dt), z3.Not(z3.fpIsNaN(alt))]))
    n_ok = 0
    secs = 0.0
    for name, claim, assume in lem:
        r, model, t = fp.prove(claim, assume)
        secs += t
        if r == 'unsat':
            n_ok += 1
            run.sample({'fp_lemma': name, 'result': 'unsat', 'solver_s': round(t, 3)})
        elif r == 'sat':
            run.error('FloatingPoint lemma fails: %s (model %s)' % (name, model))
        else:
            run.unknown.append('FP lemma %s' % name)
    run.family('FloatingPoint lemmas (binary64, RNE)', len(lem), n_ok, secs)
    # canary: without finiteness the zero products are NaN
    r, _m, _t = fp.prove(z3.fpIsZero(add(mul(one, v), mul(z3.fpNeg(v), one))), [])
    run.canary('FP lemma without the finiteness assumption', r == 'sat', r)


def run(run):
    import z3
    from .. import common, paths, integ, enga, findings
    from .. import symreal as S
    from . import c02, c05, c06
    import pyins.strapdown as SD
    import pyins._numba_integrate as KN
    run.encode(SD.Integrator.__init__, SD.Integrator._integrate, SD.Integrator.set_pva, KN.integrate)
    run.assume('integrator: invariant "the stored vertical velocity of the latest state is the literal 0.0" over an arbitrary valid state (symbolic row count / capacity), established by the constructor and by set_pva for an arbitrary supplied state; "exactly equal altitude" is a QF_FP query on the kernel\'s own altitude term (finite increments assumed)',
               'feedback filter: Integrator / error model replaced by their contracts; decided here: one 2D integrator, every written-back state is the 2D correction of the latest integrator state, the returned trajectory is the integrator\'s table. With (c) "2D correct_pva returns alt and VD unchanged" (engine A + FP lemma) and the integrator invariant this gives the frozen altitude of the filter trajectory',
               'reported sd of down / VD exactly zero: T_out (2D) rows identically zero (engine A) + FP lemmas for 1*v + (-v)*1, zero products and sqrt, finite covariance entries assumed',
               'LAPACK / einsum summation order is modelled as left-to-right accumulation with zero terms in any position')
    # measurement objects in the no-altitude mode return two rows WHATEVER they were asked before (a 3D
    # query on the same object first): concrete call sequences on the real classes (the symbolic
    # version of "queries are independent of earlier queries" is a family of C06)
    seq_specs = [{'property': 'C06', 'kind': 'numeric', 'check': 'sequence', 'point': {}, 'params': {'wa': w_, 'rates': True, 'cls': c_}}
                 for c_ in ('Position', 'Position+lever', 'NedVelocity', 'NedVelocity+lever') for w_ in (True, False)]
    for sp_, r_ in zip(seq_specs, common.run_replays(seq_specs)):
        run.family('2D measurement rows after a 3D query on the same object', 1, 0 if r_.get('violated') or r_.get('error') else 1, 0.0)
        if r_.get('error'):
            run.error('measurement call-sequence replay failed to run: %s' % r_['error'])
        elif r_.get('violated'):
            sp2 = dict(sp_)
            sp2['observed'] = r_.get('detail')
            run.violation('%s: %s' % (sp_['params']['cls'], str(r_.get('detail'))[:300]), common.write_replay(PROP, sp2))
            break
    S13 = _scenario_class()
    scen = []
    for m in ((0, 1, 2, 3) if run.tier == 'quick' else (0, 1, 2, 3, 4)):
        scen.append(('integrate', dict(m=m, wa=False)))
    scen += [('predict', dict(wa=False)), ('set_pva', dict(m=0, wa=False)), ('set_pva', dict(m=2, wa=False)), ('constructor', dict(wa=False))]
    for fl in ('np.bool_', '0'):
        scen += [('integrate', dict(m=1, wa=False, flag=fl)), ('set_pva', dict(m=1, wa=False, flag=fl)), ('constructor', dict(wa=False, flag=fl))]
    for seq in (('i1', 's', 'i2'), ('s', 'p', 'i1'), ('i2', 'p', 's', 'i1'), ('s', 's', 'i1'), ('i0', 's', 'i2')):
        scen.append(('history', dict(seq=seq, wa=False)))
    total_paths = 0
    cand = {}
    fpq = [0, 0.0]
    valid = []
    for kind, params in scen:
        label = '2D %s %s' % (kind, params)
        s = S13(kind, params)
        ex = paths.Exec(s.pre)
        results, _ = ex.run(s.fn, on_path=s.on_path)
        st = getattr(s, 'fp_stats', [0, 0.0])
        fpq[0] += st[0]
        fpq[1] += st[1]
        n_obl = n_bad = 0
        for r in results:
            o = r.extra
            if o.get('harness_error'):
                run.error('%s: %s' % (label, o['harness_error']))
                continue
            if o.get('infeasible'):
                continue
            if o.get('unknown'):
                run.unknown.append(label)
                continue
            total_paths += 1
            n_obl += o['nobl']
            n_bad += min(o['nobl'], len(o['viol']))
            for v in o['viol']:
                cand.setdefault((label, v['code'], v['desc']), []).append((kind, params, v.get('model') or o.get('model')))
            if not o['viol'] and o.get('model'):
                valid.append(c02._spec(kind, params, o['model'], None))
        run.family('integrator: ' + label, n_obl, n_obl - n_bad, ex.query_s)
    run.cov['fp_queries_on_kernel_terms'] = fpq[0]
    run.solver_s += fpq[1]
    # replay candidates / sampled states on the compiled integrator
    specs, meta = [], []
    for (label, code, desc), lst in sorted(cand.items(), key=str):
        for kind, params, model in lst[:2]:
            specs.append(_spec(kind, params, model or {'n': 3, 'cap': 8, 'isz': 4}))
            meta.append((label, code, desc))
    res = common.run_replays(specs, timeout=900) if specs else []
    rep_ok = set()
    for spec, (label, code, desc), r in zip(specs, meta, res):
        if r.get('error'):
            run.error('replay error %s: %s' % (label, r['error']))
        elif r.get('violated') and (label, code) not in rep_ok:
            rep_ok.add((label, code))
            spec = dict(spec)
            spec['observed'] = r.get('failed')
            run.violation('%s [%s] %s; real code: %s' % (code, label, desc, r.get('failed')), common.write_replay(PROP, spec))
    for (label, code, desc) in cand:
        if (label, code) not in rep_ok:
            run.error('candidate %s in %s (%s) did not reproduce on the compiled integrator - inconclusive' % (code, label, desc))
    import random
    rng = random.Random(run.seed)
    rng.shuffle(valid)
    vs = [_spec(v['kind'], v['params'], {'n': v['n'], 'cap': v['cap'], 'isz': v['isz']}) for v in valid[:12]]
    vres = common.run_replays(vs, timeout=900) if vs else []
    n_valid = 0
    for spec, r in zip(vs, vres):
        if r.get('error'):
            run.error('validation replay error: %s' % r['error'])
        elif r.get('violated'):
            spec = dict(spec)
            spec['observed'] = r.get('failed')
            run.violation('witness replay: compiled 2D integrator violates the property: %s' % r.get('failed'), common.write_replay(PROP, spec))
        else:
            n_valid += 1
            run.sample({'scenario': spec['kind'], 'params': spec['params'], 'n': spec['n'], 'capacity': spec['cap']}, cap=6)
    # canaries on the integrator
    for name, target, old, new, sc in INTEG_CANARIES:
        if sc is None:
            sc = ('set_pva', dict(m=1, wa=False))
            new = 'pass'
        try:
            s = S13(sc[0], sc[1], patch=c02._canary_patch(target, old, new))
        except common.HarnessError as e:
            run.canary(name, False, str(e))
            continue
        ex = paths.Exec(s.pre)
        results, _ = ex.run(s.fn, on_path=s.on_path)
        codes = sorted({v['code'] for r in results for v in (r.extra.get('viol') or [])})
        run.canary(name, bool(codes), {'codes': codes[:5]})
    integ.IntegHarness()
    # ---- (b) feedback loop ------------------------------------------------------------------
    from .. import filterdrive
    P, V, BV = 'Position', 'NedVelocity', 'BodyVelocity'
    sub = type(run)(PROP, run.level, run.tier, run.seed)
    sub.t0 = run.t0
    cfgs = [dict(label='2D filter 3inc P1 V1', n_rows=3, sensors=[(P, 1, 2), (V, 1, 2)], with_altitude=False),
            dict(label='2D filter 2inc P2 B1 models', n_rows=2, sensors=[(P, 2, 2), (BV, 1, 3)], with_altitude=False, model_states=(3, 3))]
    filterdrive.drive(sub, PROP, 'feedback', 'run_feedback_filter', cfgs, FILTER_CANARIES,
                      dict(n_rows=2, sensors=[(P, 1, 2)], with_altitude=False), checker_cls=_filter_checker(), validate_cap=10)
    for k, v in sub.families.items():
        run.family('feedback filter: ' + k, v['obligations'], v['discharged'], v['solver_s'])
    run.errors += sub.errors
    run.unknown += sub.unknown
    run.violations += sub.violations
    run.canaries += sub.canaries
    run.witnesses += sub.witnesses
    run.queries += sub.queries
    run.functions.update(sub.functions)
    total_paths += sub.cov.get('states', 0)
    n_valid += sub.cov.get('traces_validated_against_impl', 0)
    # ---- (c,d) FP lemmas and engine A ---------------------------------------------------------
    fp_lemmas(run)
    rep = enga.AReport(run, box=dict(c05.PVA_BOX))
    obls, info = c05.section(rep, False, order=2)
    keep = [o for o in obls if o.family in ('no-altitude rows identically zero', 'no-altitude: correction never changes altitude / VD')]
    for o in keep:
        o.meta = dict(o.meta or {}, check='engineA')
    rep.finish(rep.batch(keep), PROP)
    obls = c06.section(rep, False, False, classes=('Position', 'NedVelocity', 'Position+lever'))
    keep = [o for o in obls if o.family == 'dimensions']
    for o in keep:
        o.meta = dict(o.meta or {}, check='engineA')
    rep.finish(rep.batch(keep), PROP)
    enga.restore()
    run.cov.update({'states': total_paths, 'transitions': max(1, run.queries), 'traces_validated_against_impl': n_valid,
                    'evaluations': total_paths, 'distinct_nontrivial': max(2, total_paths),
                    'rule': 'one evaluation = one feasible path of a 2D integrator scenario (arbitrary valid state) or of the 2D feedback loop'})
    run.bounds.update({'chunk lengths': '<= 3 (quick) / 4', 'filter schedules': '2-3 increments, 2-3 samples', 'histories': 'inductive step + 5 explicit histories'})


def _spec(kind, params, model, **extra):
    s = {'property': PROP, 'kind': kind, 'params': {k: (list(v) if isinstance(v, tuple) else v) for k, v in params.items()},
         'n': model.get('n', 3), 'cap': model.get('cap', 8), 'isz': model.get('isz', 4), 'time_limit': 120}
    s.update(extra)
    return s


def replay(spec):
    """concrete oracle: 2D integrator / 2D filter rows have VD == 0 and the latest supplied altitude"""
    import numpy as np
    import pandas as pd
    if spec.get('kind') in ('feedback', 'feedforward'):
        from ..filtercheck import replay_schedule
        r = replay_schedule(spec)
        return r
    if spec.get('check') == 'engineA':
        from . import c05 as c05m
        s2 = dict(spec)
        s2['params'] = {'wa': False}
        return c05m.replay(s2)
    from pyins import strapdown
    from .c02 import _increments, _pva
    kind, P = spec['kind'], spec['params']
    n, cap, isz = spec['n'], spec['cap'], spec['isz']
    fails = []

    def mk(size, pva):
        cls = type('It', (strapdown.Integrator,), {'INITIAL_SIZE': int(size)})
        return cls(pva, _flag(P.get('flag', 'False')))

    def check(it, alts, what):
        tr = it.trajectory
        if np.any(tr['VD'].values != 0.0):
            fails.append('%s: a trajectory row has VD != 0 (max |VD| %.3g)' % (what, np.abs(tr['VD'].values).max()))
        if len(alts) == len(tr) and not np.array_equal(tr['alt'].values, np.array(alts)):
            fails.append('%s: altitude of a row differs from the latest supplied altitude (max diff %.3g)' % (what, np.abs(tr['alt'].values - np.array(alts)).max()))
    inc = _increments(n + 12)
    inc[['dv_z']] = inc[['dv_z']] * 3           # large vertical specific force
    if kind == 'history':
        seq = list(P['seq']) + ['i2']
        pva = _pva(0, 10.0)
        it = mk(isz, pva)
        alts = [pva['alt']]
        used, npv = 0, 0
        for o in seq:
            if o[0] == 'i':
                mm = int(o[1])
                it.integrate(inc.iloc[used:used + mm])
                used += mm
                alts += [alts[-1]] * mm
            elif o == 'p':
                pr = it.predict(inc.iloc[used])
                if pr['VD'] != 0.0 or pr['alt'] != alts[-1]:
                    fails.append('predict returned a row with VD != 0 or a changed altitude')
            else:
                npv += 1
                p = _pva(npv, it.get_time())
                it.set_pva(p)
                alts[-1] = p['alt']
        check(it, alts, 'history %s' % (seq,))
    else:
        pva = _pva(0, 10.0)
        it = mk(cap if kind != 'constructor' else isz, pva)
        alts = [pva['alt']]
        if n > 1 and kind != 'constructor':
            it.integrate(inc.iloc[:n - 1])
            alts += [pva['alt']] * (n - 1)
        if kind == 'set_pva':
            p = _pva(1, it.get_time())
            it.set_pva(p)
            alts[-1] = p['alt']
        m = max(2, P.get('m', 2))
        k0 = len(alts) - 1
        if kind == 'predict':
            pr = it.predict(inc.iloc[k0])
            if pr['VD'] != 0.0 or pr['alt'] != alts[-1]:
                fails.append('predict returned a row with VD != 0 or a changed altitude')
        it.integrate(inc.iloc[k0:k0 + m])
        alts += [alts[-1]] * m
        check(it, alts, kind)
    return {'violated': bool(fails), 'failed': fails}
