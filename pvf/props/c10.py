"""C10 - feedforward filter terminates and consumes every schedule exactly once (engine B)."""
LEVEL = 'model_checking'
PROP = 'C10'
KIND = 'feedforward'
FUNC = 'run_feedforward_filter'

P, V, BV = 'Position', 'NedVelocity', 'BodyVelocity'


def configs(tier):
    c = [
        dict(label='4rows P1 V1', n_rows=4, sensors=[(P, 1, 2), (V, 1, 2)]),
        dict(label='3rows P2 V1', n_rows=3, sensors=[(P, 2, 2), (V, 1, 2)]),
        dict(label='3rows P3 +increments', n_rows=3, sensors=[(P, 3, 2)], with_increments=True),
        dict(label='4rows none', n_rows=4, sensors=[], meas_mode='none'),
        dict(label='4rows empty default-models', n_rows=4, sensors=[], meas_mode='empty', default_models=True),
        dict(label='3rows default-step P1', n_rows=3, sensors=[(P, 1, 2)], default_step=True),
        dict(label='3rows P1 B1 2D models +increments', n_rows=3, sensors=[(P, 1, 2), (BV, 1, 3)],
             with_altitude=False, model_states=(3, 3), with_increments=True),
        dict(label='4rows P1 V1, time+time_step replaced by ANY value >= both operands (rounding-robustness; step bound not asserted)', n_rows=4,
             sensors=[(P, 1, 2), (V, 1, 2)], havoc_add=True, sample_mod=0),
    ]
    if tier == 'thorough':
        c += [
            dict(label='5rows P2 V1', n_rows=5, sensors=[(P, 2, 2), (V, 1, 2)]),
            dict(label='4rows P2 V2', n_rows=4, sensors=[(P, 2, 2), (V, 2, 2)]),
            dict(label='4rows P1 V1 B1 +increments', n_rows=4, sensors=[(P, 1, 2), (V, 1, 2), (BV, 1, 3)],
                 with_increments=True),
            dict(label='3rows P4', n_rows=3, sensors=[(P, 4, 2)]),
            dict(label='6rows P1 V1', n_rows=6, sensors=[(P, 1, 2), (V, 1, 2)]),
            dict(label='5rows P2 V1, time+time_step arbitrary', n_rows=5, sensors=[(P, 2, 2), (V, 1, 2)], havoc_add=True, sample_mod=0),
            # deepest bounds that finish in minutes (measured: 75 k and 49 k paths; 5.5 and 3 min)
            dict(label='5rows P2 V2', n_rows=5, sensors=[(P, 2, 2), (V, 2, 2)], sample_mod=499),
            dict(label='6rows P2 V1 +increments', n_rows=6, sensors=[(P, 2, 2), (V, 1, 2)], with_increments=True, sample_mod=499),
        ]
    return c


CANARIES = [
    ('searchsorted off by one', "side='right') - 1", "side='right')"),
    ('no progress guard', 'next_index = index + 1', 'next_index = index'),
    ('one epoch per interval (pre-fix behaviour)', 'while measurement_times[measurement_time_index] < next_time:',
     'if measurement_times[measurement_time_index] < next_time:'),
    ('measurement due test <=', 'measurement_times[measurement_time_index] < next_time',
     'measurement_times[measurement_time_index] <= next_time'),
    ('span clip drops start', '(measurement_times >= start_time)', '(measurement_times > start_time)'),
    ('step ignores time_step', 'next_time = min(time + time_step,', 'next_time = min(time + 2 * time_step,',
     dict(n_rows=4, sensors=[(P, 1, 2)])),
]
CANARY_CFG = dict(n_rows=3, sensors=[(P, 2, 2), (V, 1, 2)])


def run(run):
    from ..filterdrive import drive
    drive(run, PROP, KIND, FUNC, configs(run.tier), CANARIES, CANARY_CFG)


def replay(spec):
    from ..filtercheck import replay_schedule
    return replay_schedule(spec)


def FALLBACK(tier):
    """canned schedules put to the compiled filter when the symbolic exploration is inconclusive
    (main.py): epochs on stamps, between them, clustered in one interval, shared between sensors,
    at the start, in the last interval, outside the span, gaps, steps below / above everything"""
    from ..filtercheck import witness_to_spec
    Fr = lambda a, b=1: (a, b)      # witnesses carry rationals as (numerator, denominator)
    stamps = [Fr(0), Fr(1, 8), Fr(1, 4), Fr(3, 4), Fr(7, 8), Fr(1)]
    scheds = [
        {'Position': [Fr(0), Fr(3, 16), Fr(7, 32)], 'NedVelocity': [Fr(3, 16), Fr(1, 2)], 'BodyVelocity': [Fr(15, 16)]},
        {'Position': [Fr(-1), Fr(1, 8), Fr(1)], 'NedVelocity': [Fr(1, 8), Fr(5, 16), Fr(3, 8), Fr(7, 16)]},
        {'Position': [Fr(29, 32), Fr(15, 16), Fr(31, 32)], 'BodyVelocity': [Fr(2)]},
    ]
    out = []
    for sens in scheds:
        for step in (Fr(1, 32), Fr(3, 10), Fr(5)):
            for wa in (True, False):
                for ms in ((0, 0), (3, 3)):
                    cfg = dict(with_altitude=wa, model_states=ms, with_increments=(ms != (0, 0)))
                    w = {'stamps': stamps, 'step': step, 'sensors': sens, 'exact': True}
                    out.append(witness_to_spec('feedforward', cfg, w, config='canned', property=PROP))
    for mm in ('none', 'empty'):
        out.append(witness_to_spec('feedforward', dict(meas_mode=mm, default_models=True, default_step=True), {'stamps': stamps, 'step': Fr(1, 10), 'sensors': {}, 'exact': True}, config='canned', property=PROP))
    return out
