"""C10 - feedforward filter terminates and consumes every schedule exactly once (engine B)."""
LEVEL = 'model_checking'
PROP = 'C10'
KIND = 'feedforward'
FUNC = 'run_feedforward_filter'

P, V, BV = 'Position', 'NedVelocity', 'BodyVelocity'


def configs(tier):
    c = [
        dict(label='4rows P1 V1', n_rows=4, sensors=[(P, 1, 2), (V, 1, 2)]),
        dict(label='3rows P2 V1', n_rows=3, sensors=[(P, 2, 2), (V, 1, 2)]),
        dict(label='3rows P3 +increments', n_rows=3, sensors=[(P, 3, 2)], with_increments=True),
        dict(label='4rows none', n_rows=4, sensors=[], meas_mode='none'),
        dict(label='4rows empty default-models', n_rows=4, sensors=[], meas_mode='empty', default_models=True),
        dict(label='3rows default-step P1', n_rows=3, sensors=[(P, 1, 2)], default_step=True),
        dict(label='3rows P1 B1 2D models +increments', n_rows=3, sensors=[(P, 1, 2), (BV, 1, 3)],
             with_altitude=False, model_states=(3, 3), with_increments=True),
        dict(label='4rows P1 V1, time+time_step replaced by ANY value >= both operands (rounding-robustness; step bound not asserted)', n_rows=4,
             sensors=[(P, 1, 2), (V, 1, 2)], havoc_add=True, sample_mod=0),
    ]
    if tier == 'thorough':
        c += [
            dict(label='5rows P2 V1', n_rows=5, sensors=[(P, 2, 2), (V, 1, 2)]),
            dict(label='4rows P2 V2', n_rows=4, sensors=[(P, 2, 2), (V, 2, 2)]),
            dict(label='4rows P1 V1 B1 +increments', n_rows=4, sensors=[(P, 1, 2), (V, 1, 2), (BV, 1, 3)],
                 with_increments=True),
            dict(label='3rows P4', n_rows=3, sensors=[(P, 4, 2)]),
            dict(label='6rows P1 V1', n_rows=6, sensors=[(P, 1, 2), (V, 1, 2)]),
            dict(label='5rows P2 V1, time+time_step arbitrary', n_rows=5, sensors=[(P, 2, 2), (V, 1, 2)], havoc_add=True, sample_mod=0),
            # deepest bounds that finish in minutes (measured: 75 k and 49 k paths; 5.5 and 3 min)
            dict(label='5rows P2 V2', n_rows=5, sensors=[(P, 2, 2), (V, 2, 2)], sample_mod=499),
            dict(label='6rows P2 V1 +increments', n_rows=6, sensors=[(P, 2, 2), (V, 1, 2)], with_increments=True, sample_mod=499),
        ]
    return c


CANARIES = [
    ('searchsorted off by one', "side='right') - 1", "side='right')"),
    ('no progress guard', 'next_index = index + 1', 'next_index = index'),
    ('one epoch per interval (pre-fix behaviour)', 'while measurement_times[measurement_time_index] < next_time:',
     'if measurement_times[measurement_time_index] < next_time:'),
    ('measurement due test <=', 'measurement_times[measurement_time_index] < next_time',
     'measurement_times[measurement_time_index] <= next_time'),
    ('span clip drops start', '(measurement_times >= start_time)', '(measurement_times > start_time)'),
    ('step ignores time_step', 'next_time = min(time + time_step,', 'next_time = min(time + 2 * time_step,',
     dict(n_rows=4, sensors=[(P, 1, 2)])),
]
CANARY_CFG = dict(n_rows=3, sensors=[(P, 2, 2), (V, 1, 2)])


def run(run):
    from ..filterdrive import drive
    drive(run, PROP, KIND, FUNC, configs(run.tier), CANARIES, CANARY_CFG)


def replay(spec):
    from ..filtercheck import replay_schedule
    return replay_schedule(spec)
