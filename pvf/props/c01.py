"""C01 - strapdown integration converges to the true navigation solution, claimed as LOCAL
CONSISTENCY (engine A): increments from compute_increments_from_imu followed by one step of the
real kernel reproduce Newton's law in the Earth-fixed frame to first order in the sampling
interval, for every state and every smooth signal. (Consistency + Lipschitz stability =>
convergence is the Dahlquist/Lax theorem, cited, not mechanised.)"""
LEVEL = 'other'
PROP = 'C01'


def section(rep, stype, mutate=None, order=1):
    import numpy as np
    import pandas as pd
    import z3
    from .. import symreal as S, enga
    from pyins.util import GYRO_COLS, ACCEL_COLS, THETA_COLS, DV_COLS
    S.new_ctx([('t', order)])
    m = enga.install(symconst=True)
    if mutate:
        mutate(m)
    K, T, E, SD = m['K'], m['T'], m['E'], m['SD']
    J, O = S.J, S.O
    t = S.formal(0)
    lat = S.declare_angle('lat', -85, 85)
    lon = S.declare_angle('lon', -180, 180)
    alt = S.var('alt')
    S.C.dom += [z3.Real('alt') >= -500, z3.Real('alt') <= 20000]
    lat.deg2rad().cos()
    V = O([S.var('VN'), S.var('VE'), S.var('VD')])
    Cm = O([[S.var('C%d%d' % (i, j)) for j in range(3)] for i in range(3)])      # any matrix: attitude free
    a = O([S.var('a%d' % i) for i in range(3)])
    b = O([S.var('b%d' % i) for i in range(3)])
    d = O([S.var('d%d' % i) for i in range(3)])
    e = O([S.var('e%d' % i) for i in range(3)])
    w = lambda tt: O([a[i] + b[i] * tt for i in range(3)])
    f = lambda tt: O([d[i] + e[i] * tt for i in range(3)])
    integ = np.vectorize(lambda x: J(x).integ(0), otypes=[object])
    if stype == 'ideal':
        theta, dv, dt = O([a[i] * t for i in range(3)]), O([d[i] * t for i in range(3)]), t
    else:
        if stype == 'rate':
            rows = [list(w(J(0))) + list(f(J(0))), list(w(t)) + list(f(t))]
        else:
            rows = [list(integ(w(-t))) + list(integ(f(-t))), list(integ(w(t))) + list(integ(f(t)))]
        imu = pd.DataFrame(rows, columns=GYRO_COLS + ACCEL_COLS, index=pd.Index([J(0), t], dtype=object), dtype=object)
        inc = SD.compute_increments_from_imu(imu, stype)
        theta, dv, dt = inc[THETA_COLS].values[0], inc[DV_COLS].values[0], inc['dt'].values[0]
    lla = S.symnp.empty((2, 3))
    vel = S.symnp.empty((2, 3))
    mat = S.symnp.empty((2, 3, 3))
    lla[0] = [lat, lon, alt]
    vel[0] = V
    mat[0] = Cm
    K.integrate(O([dt]), lla, vel, mat, O([list(theta)]), O([list(dv)]), 0, True)
    lla1, vel1, mat1 = lla[1], vel[1], mat[1]
    meta = {'check': 'consistency', 'params': {'type': stype}}
    obls = []
    Z = lambda name, ee, fam: obls.append(enga.zero('%s: %s' % (stype, name), ee, fam, meta=meta))
    # order zero: the state at t = 0 is the input state
    for i, nm in enumerate(('lat', 'lon', 'alt')):
        Z('order 0: %s(0) = input' % nm, J(lla1[i]).part(0) - [lat, lon, alt][i], 'order zero')
    for i in range(3):
        Z('order 0: V[%d](0) = input' % i, J(vel1[i]).part(0) - V[i], 'order zero')
        for j in range(3):
            Z('order 0: C[%d,%d](0) = input' % (i, j), J(mat1[i, j]).part(0) - Cm[i, j], 'order zero')
    # oracle: Newton's law in the Earth-fixed frame, written with the library's geodesy (C16)
    lla0 = O([lat, lon, alt])
    C_en = T.mat_en_from_ll(lat, lon)
    r_e_t = T.lla_to_ecef(lla1)
    CenV = np.dot(C_en, V)
    for i in range(3):
        Z('(A) d/dt r_e(lla(t)) = C_en V  [%d]' % i, J(r_e_t[i]).part(1) - CenV[i], 'position kinematics')
    Cen_t = T.mat_en_from_ll(lla1[0], lla1[1])
    g_n = E.gravity_n(lat, alt)
    We = O([0, 0, E.RATE])
    lhsB = np.dot(Cen_t, vel1)
    rhsB = np.dot(C_en, np.dot(Cm, d)) + np.dot(C_en, g_n) - 2 * np.cross(We, CenV)
    for i in range(3):
        Z('(B) d/dt [C_en V] = C_en C f + C_en g_n - 2 W x (C_en V)  [%d]' % i, J(lhsB[i]).part(1) - rhsB[i], 'velocity dynamics (specific force, gravity, Coriolis)')
    lhsC = np.dot(Cen_t, mat1)
    Wx = O([[0, -a[2], a[1]], [a[2], 0, -a[0]], [-a[1], a[0], 0]])
    Ex = O([[0, -E.RATE, 0], [E.RATE, 0, 0], [0, 0, 0]])
    CenC = np.dot(C_en, Cm)
    rhsC = np.dot(CenC, Wx) - np.dot(Ex, CenC)
    for i in range(3):
        for j in range(3):
            Z('(C) d/dt [C_en C] = C_en C [w x] - [W x] C_en C  [%d,%d]' % (i, j), J(lhsC[i, j]).part(1) - rhsC[i, j], 'attitude kinematics')
    rep.run.encode(K.integrate, K.mat_from_rotvec, K.gravity, SD.compute_increments_from_imu, T.lla_to_ecef, T.mat_en_from_ll, E.gravity_n)
    return obls


def section_paths(rep, stype, max_paths=12):
    """the section under a path executor: [(obligations with the path condition, context)] per path"""
    from .. import symreal as S, paths
    ex = paths.Exec([], timeout_ms=4000)
    orig_decide = ex.decide
    state = {}

    def decide(cond):
        if state.get('ctx') is not S.C:
            state.update(ctx=S.C, nc=0, nd=0)
            for c_ in S.deg_domain():
                ex.solver.add(c_)
        for c_ in S.C.cons[state['nc']:]:
            ex.solver.add(c_)
        for c_ in S.C.dom[state['nd']:]:
            ex.solver.add(c_)
        state['nc'], state['nd'] = len(S.C.cons), len(S.C.dom)
        return orig_decide(cond)
    ex.decide = decide

    def body():
        state.clear()
        obls = section(rep, stype)
        return obls, S.C
    res, _ = ex.run(body, max_paths=max_paths)
    out = []
    for pr in res:
        if pr.status == 'abort' and pr.out == 'INFEASIBLE':
            continue
        if pr.status != 'ok':
            raise RuntimeError('a path of the kernel step could not be executed symbolically: %s' % (pr.out,))
        obls, ctx = pr.out
        for ob in obls:
            ob.extra = list(ob.extra) + list(pr.pc)
        out.append((obls, ctx))
    return out


CANARIES = [
    ('kernel: Coriolis term halved', ('K', 'integrate', '+ (chi3 + Omega3) * V2', '+ (chi3) * V2'), 'ideal'),
    ('kernel: east position rate uses rn', ('K', 'integrate', 'rho1 = V2 / re\n        rho2 = -V1 / rn\n        rho3 = -rho1 * tan_lat\n        chi1 = Omega1 + rho1\n        chi2 = Omega2 + rho2\n        chi3 = Omega3 + rho3\n        lla[j + 1, 0]', 'XX'), None),
    ('kernel: longitude rate misses 1/cos(lat)', ('K', 'integrate', 'transform.RAD_TO_DEG * rho1 / cos_lat * dt', 'transform.RAD_TO_DEG * rho1 * dt'), 'ideal'),
    ('kernel: gravity sign', ('K', 'integrate', '+ gravity(lat, alt - 0.5 * V3 * dt)', '- gravity(lat, alt - 0.5 * V3 * dt)'), 'ideal'),
    ('kernel: attitude update order', ('K', 'integrate', 'np.dot(mat_nb[j], dBb, C)', 'np.dot(dBb, mat_nb[j], C)'), 'ideal'),
    ('kernel: transport rate sign', ('K', 'integrate', 'xi[0] = -chi1 * dt', 'xi[0] = chi1 * dt'), 'ideal'),
    ('increments: rate samples not averaged', ('SD', 'compute_increments_from_imu', 'accel_increment = (a_accel + 0.5 * b_accel) * dt', 'accel_increment = (a_accel + 0.5 * b_accel) * dt * 2'), 'rate'),
    ('kernel: altitude rate sign', ('K', 'integrate', 'lla[j + 1, 2] = lla[j, 2] - V3 * dt', 'lla[j + 1, 2] = lla[j, 2] + V3 * dt'), 'ideal'),
]


def run(run):
    import z3
    from .. import enga, common
    from .. import symreal as S
    from .c17 import _mut
    box = {'lat': (-85, 85), 'lon': (-179, 179), 'alt': (-400, 19000), 'VN': (-300, 300), 'VE': (-300, 300), 'VD': (-100, 100)}
    for i in range(3):
        for nm in 'abde':
            box['%s%d' % (nm, i)] = (-3, 3)
        for j in range(3):
            box['C%d%d' % (i, j)] = (-1, 1)
    rep = enga.AReport(run, box=box, consts=dict(enga.WGS84))
    rep.definedness = True
    run.assume('claimed form: local consistency of the composed map (increment computation + one kernel step) with Newton\'s law in the Earth-fixed frame: no O(1) and no O(t) local defect for any state and any smooth signal, both sensor types. Consistency + Lipschitz stability => convergence (Dahlquist / Lax) is cited, not mechanised; the quantitative "<= small multiple of the change on halving" at finite 1..50 ms and rounding drift over long horizons are outside',
               'oracle uses the library\'s own geodesy functions lla_to_ecef, mat_en_from_ll, gravity_n, whose coherence with the ellipsoid is C16; the interval t is a formal parameter (the trig branch of mat_from_rotvec is not traversed here; its agreement with the Taylor branch is C17)',
               'attitude matrix is a free 3x3 matrix (the identities hold without orthonormality); ellipsoid constants E2, A, RATE, GE, GP symbolic; |lat| <= 85 deg, altitude -500..20000 m; exact real arithmetic',
               'signals are linear in time over the interval (a + b t, d + e t): their samples / interval integrals feed the real compute_increments_from_imu')
    timeout = 60 if run.tier == 'quick' else 300
    for stype in ('ideal', 'rate', 'increment'):
        try:
            obls = section(rep, stype)
        except S.SymbolicBranch as e0:
            # a branch of the code depends on a symbolic value (none does in the unmodified tree):
            # explore every outcome with the path executor; the obligations of a path hold under
            # its path condition
            handled = False
            try:
                pths = section_paths(rep, stype)
                for obls_p, ctx_p in pths:
                    S.set_ctx(ctx_p)
                    rep.finish(rep.batch(obls_p, timeout_s=timeout, ctx=ctx_p), PROP, ctx_p)
                handled = bool(pths)
            except (S.SymbolicBranch, RuntimeError) as e1:
                e0 = e1
            if handled:
                continue
            e = e0
            # with a formal (infinitesimal) step no branch of the unmodified code depends on a
            # symbolic value; a change that makes one do so (e.g. a step that does not vanish with
            # the sampling interval) is put to the compiled code at a generic state
            spec = {'kind': 'numeric', 'check': 'consistency', 'point': {}, 'params': {'type': stype}, 'obligation': '%s: local consistency' % stype}
            res = common.run_replays([dict(spec, property=PROP)])[0]
            if res.get('violated'):
                run.violation('%s: the computation branches on a quantity that should vanish with the step (%s); real code: %s' % (stype, str(e)[:120], res.get('detail')), common.write_replay(PROP, spec), res.get('detail'))
            else:
                run.error('%s: symbolic execution met a data-dependent branch (%s) and the compiled code satisfies the oracle - inconclusive' % (stype, str(e)[:160]))
            run.family('local consistency', 1, 0, 0.0)
            continue
        rep.finish(rep.batch(obls, timeout_s=timeout), PROP)
        s = z3.Solver()
        s.add(S.C.cons)
        s.add(S.C.dom)
        run.witness('%s: constraint set satisfiable' % stype, s.check() == z3.sat)
    fam = {'Coriolis': 'velocity dynamics (specific force, gravity, Coriolis)', 'longitude': 'position kinematics', 'gravity': 'velocity dynamics (specific force, gravity, Coriolis)',
           'attitude update': 'attitude kinematics', 'transport': 'attitude kinematics', 'increments': 'velocity dynamics (specific force, gravity, Coriolis)', 'altitude': 'position kinematics'}
    rep.selfcheck(PROP, [{'check': 'consistency', 'point': pt, 'params': {'type': st}} for st in ('ideal', 'rate', 'increment') for pt in rep.points((3 if run.tier == 'quick' else 20))])
    for ci, (name, spec, stype) in enumerate(CANARIES):
        if stype is None or (run.tier == 'quick' and ci % 2 == 1):
            continue
        try:
            obls = section(rep, stype, _mut(spec))
        except common.HarnessError as e:
            run.canary(name, False, str(e))
            continue
        rep.canary(name, obls, timeout_s=5, families=[v for k, v in fam.items() if k in name])
    enga.restore()
    run.bounds.update({'steps': 'one step from an arbitrary state', 'series order': 't^1 (local defect of order 0 and 1)'})


def replay(spec):
    """numeric oracle on the compiled code: the same three equations by finite differences"""
    import numpy as np
    import pandas as pd
    from pyins import transform, earth, strapdown
    from pyins.util import TRAJECTORY_COLS, GYRO_COLS, ACCEL_COLS
    pt = spec['point']
    stype = (spec.get('params') or {}).get('type', 'ideal')
    lat, lon, alt = pt.get('lat', 40.0), pt.get('lon', 30.0), pt.get('alt', 1000.0)
    V = np.array([pt.get('VN', 50.0), pt.get('VE', -30.0), pt.get('VD', 3.0)])
    rph = np.array([10.0, -20.0, 100.0])
    a = np.array([pt.get('a%d' % i, 0.1 * (i + 1)) for i in range(3)])
    b = np.array([pt.get('b%d' % i, 0.05) for i in range(3)])
    d = np.array([pt.get('d%d' % i, [0.5, -0.3, -9.8][i]) for i in range(3)])
    e = np.array([pt.get('e%d' % i, 0.1) for i in range(3)])
    pva = pd.Series([lat, lon, alt, *V, *rph], index=TRAJECTORY_COLS, name=0.0)
    Cm = transform.mat_from_rph(rph)
    C_en = transform.mat_en_from_ll(lat, lon)
    We = np.array([0, 0, earth.RATE])
    g_n = earth.gravity_n(lat, alt)
    fails = []
    # two pairs of steps: multiples of a microsecond, and binary fractions that are not (a change that
    # quantises time stamps must not hide behind round numbers)
    for h2, h1 in ((2e-3, 1e-3), (1 / 512, 1 / 1024)):
      out = {}
      for h in (h2, h1):
          if stype == 'ideal':
              inc = pd.DataFrame([np.hstack([[h], a * h, d * h])], index=[h], columns=['dt', 'theta_x', 'theta_y', 'theta_z', 'dv_x', 'dv_y', 'dv_z'])
          else:
              w = lambda t: a + b * t
              f = lambda t: d + e * t
              W = lambda t: a * t + b * t * t / 2
              Fi = lambda t: d * t + e * t * t / 2
              rows = [np.hstack([w(0), f(0)]), np.hstack([w(h), f(h)])] if stype == 'rate' else [np.hstack([-W(-h), -Fi(-h)]), np.hstack([W(h), Fi(h)])]
              inc = strapdown.compute_increments_from_imu(pd.DataFrame(rows, columns=GYRO_COLS + ACCEL_COLS, index=[0.0, h]), stype)
          it = strapdown.Integrator(pva)
          it.integrate(inc)
          p1 = it.get_pva()
          lla1 = p1[['lat', 'lon', 'alt']].values
          A = (transform.lla_to_ecef(lla1) - transform.lla_to_ecef([lat, lon, alt])) / h
          Cen1 = transform.mat_en_from_ll(lla1[0], lla1[1])
          B = (Cen1 @ p1[['VN', 'VE', 'VD']].values - C_en @ V) / h
          Cc = (Cen1 @ transform.mat_from_rph(p1[['roll', 'pitch', 'heading']]) - C_en @ Cm) / h
          out[h] = (A, B, Cc)
      # Richardson: first-order defect extrapolated to h -> 0
      ex = [2 * out[h1][k] - out[h2][k] for k in range(3)]
      wantA = C_en @ V
      wantB = C_en @ Cm @ d + C_en @ g_n - 2 * np.cross(We, C_en @ V)
      Wx = np.array([[0, -a[2], a[1]], [a[2], 0, -a[0]], [-a[1], a[0], 0]])
      Ex = np.array([[0, -earth.RATE, 0], [earth.RATE, 0, 0], [0, 0, 0]])
      wantC = C_en @ Cm @ Wx - Ex @ C_en @ Cm
      # Richardson-extrapolated one-step rates are accurate to O(h^2) ~ 1e-6 relative; the tolerances sit
      # just above that so that dt-independent defects of a few 1e-5 m/s^2 (e.g. a wrong radius in a
      # transport-rate term at 250 m/s) are still seen
      for nm, got, want, tol in (('position kinematics', ex[0], wantA, 2e-6 * max(1, np.abs(wantA).max()) + 1e-6),
                                 ('velocity dynamics', ex[1], wantB, 2e-6 * max(1, np.abs(wantB).max()) + 3e-6),
                                 ('attitude kinematics', ex[2], wantC, 4e-5 * max(1, np.abs(wantC).max()))):
          if np.abs(got - want).max() > tol:
              fails.append('%s: one-step rate of the integrator (steps %.6g, %.6g s) differs from Newton\'s law in ECEF by %.3g (tolerance %.3g)' % (nm, h2, h1, np.abs(got - want).max(), tol))
    return {'violated': bool(fails), 'detail': fails}


RIM = {'lat': -84.6, 'lon': 150.0, 'alt': 15000.0, 'VN': 250.0, 'VE': -200.0, 'VD': 5.0, 'roll': 120.0, 'pitch': -60.0, 'heading': -170.0}


def FALLBACK(tier):
    """numeric oracle specs put to the compiled code when the symbolic run is inconclusive (main.py)"""
    return [{'check': 'consistency', 'point': p, 'params': {'type': st}} for st in ('ideal', 'rate', 'increment') for p in ({}, RIM)]
