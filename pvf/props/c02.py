"""C02 - Integrator result is independent of call history (engine B: inductive step over an
arbitrary valid state + bounded histories from the constructor; bit-identity by term identity)."""
import itertools

LEVEL = 'model_checking'
PROP = 'C02'


# ------------------------------------------------------------------------------------------
# symbolic scenarios
# ------------------------------------------------------------------------------------------
def _mk_scenarios(tier):
    ms = (0, 1, 2, 3) if tier == 'quick' else (0, 1, 2, 3, 4, 5)
    sc = []
    for wa in (True, False):
        for m in ms:
            sc.append(('integrate', dict(m=m, wa=wa)))
        for m in ((1, 2) if tier == 'quick' else (1, 2, 3)):
            sc.append(('window', dict(m=m, wa=wa)))
        sc.append(('predict', dict(wa=wa)))
        for m in ((0, 2) if tier == 'quick' else (0, 1, 3)):
            sc.append(('set_pva', dict(m=m, wa=wa)))
        for grp in ('rph', 'lla', 'vel'):
            sc.append(('set_pva', dict(m=2, wa=wa, same=grp)))
        sc.append(('constructor', dict(wa=wa)))
        for m1, m2 in (((1, 1), (0, 2), (2, 1)) if tier == 'quick' else ((1, 1), (0, 2), (2, 1), (2, 2), (3, 0), (1, 3))):
            sc.append(('split', dict(m1=m1, m2=m2, wa=wa)))
    ops = ['i0', 'i1', 'i2', 'p', 's']
    # 'r': set_pva with roll/pitch/heading bit-identical to the initially supplied attitude
    for seq in (('i1', 'r', 'i1'), ('i2', 'r', 'p', 'i1'), ('i1', 's', 'i1', 'r', 'i2'), ('r', 'i2')):
        for wa in (True, False):
            sc.append(('history', dict(seq=seq, wa=wa)))
    L = 2 if tier == 'quick' else 3
    for k in range(1, L + 1):
        for seq in itertools.product(ops, repeat=k):
            if tier == 'thorough' and k == 3 and sum(o == 'i0' for o in seq) > 1:
                continue
            sc.append(('history', dict(seq=seq, wa=True)))
    for seq in (('i1', 's', 'i2'), ('s', 'p', 'i1'), ('i2', 'p', 's')):
        sc.append(('history', dict(seq=seq, wa=False)))
    return sc


class Scenario:
    def __init__(self, kind, params, patch=None):
        import z3
        from .. import integ
        self.kind = kind
        self.params = params
        self.h = integ.IntegHarness(patch)
        self.integ = integ
        self.n = integ.I.var('n')
        self.cap = integ.I.var('cap')
        self.isz = integ.I.var('isz')
        n, cap, isz = z3.Int('n'), z3.Int('cap'), z3.Int('isz')
        self.pre = [n >= 1, cap >= n, cap <= 1000000, isz >= 1, isz <= 64]
        self.zvars = {'n': n, 'cap': cap, 'isz': isz}
        if kind == 'window':
            w = z3.Int(integ.WINDOW_BASE)
            self.pre += [w >= 0, w <= 1000000]
            self.zvars['w'] = w

    # ---- helpers ----------------------------------------------------------------------
    def check(self, name, ok, detail=None):
        self.integ.NOBL[0] += 1
        if not ok:
            self.integ.VIOL.add('term:' + name, '%s%s' % (name, (': ' + detail) if detail else ''))

    def fold(self, cells, chunk, wa):
        rows = []
        for k in range(len(chunk.ids)):
            cells, row = self.h.reference_step(cells, chunk, k, wa)
            rows.append(row)
        return cells, rows

    def caps_equal(self, it):
        ig = self.integ
        a, b, c = it.lla.cap, it.velocity_n.cap, it.mat_nb.cap
        self.check('three buffers share one capacity', ig.ikey(a) is ig.ikey(b) and ig.ikey(b) is ig.ikey(c))

    def invariant(self, it, n_expected, cells_expected=None):
        ig = self.integ
        ig.must(ig.iz(it.trajectory.n) == ig.iz(n_expected), 'row_count', 'trajectory row count')
        ig.must(ig.iz(it.lla.cap) >= ig.iz(it.trajectory.n), 'capacity_invariant', 'capacity >= rows after the operation')
        self.caps_equal(it)
        if cells_expected is not None:
            self.check('latest buffer row = state that produced the latest trajectory row',
                       self.h.latest_cells(it) == cells_expected)

    # ---- scenarios --------------------------------------------------------------------
    def fn(self):
        ig = self.integ
        ig.VIOL.items = []
        ig.NOBL[0] = 0
        self.h.nbuf = 0
        info = getattr(self, 'sc_' + self.kind)(**self.params)
        return {'viol': list(ig.VIOL.items), 'nobl': ig.NOBL[0], 'info': info}

    def sc_integrate(self, m, wa):
        ig, h = self.integ, self.h
        it = h.state(self.n, self.cap, wa)
        cells0 = h.latest_cells(it)
        chunk = ig.Chunk('c', m)
        ret = it.integrate(chunk)
        cells, rows = self.fold(cells0, chunk, wa)
        got = [ig._key(r) for r in it.trajectory.tail.rows[1:]]
        self.check('appended rows = single-call fold of the kernel step', got == rows)
        self.check('time index = previous stamps + every increment stamp once',
                   it.trajectory.tail.times == ['t_last'] + chunk.index)
        self.check('integrate returns previous last row + appended rows',
                   [ig._key(r) for r in ret.rows] == [ig.mk('row_last', 'S')] + rows and ret.times == ['t_last'] + chunk.index)
        self.invariant(it, self.n + m, cells)
        self.check('get_time = latest stamp', it.get_time() == (['t_last'] + chunk.index)[-1])
        self.check('get_pva = latest row', ig._key(it.get_pva()) is ([ig.mk('row_last', 'S')] + rows)[-1])
        return {'new_cap': it.lla.cap}

    def sc_window(self, m, wa):
        """call-position independence (the chunk-split law for a prefix of ANY length): the m rows
        are processed as rows w .. w + m - 1 of a longer kernel call, w >= 0 symbolic; every
        appended row must be the term a fresh one-row call produces"""
        ig, h = self.integ, self.h
        it = h.state(self.n, self.cap, wa)
        cells0 = h.latest_cells(it)
        chunk = ig.Chunk('c', m)
        ig.WINDOW[0] = True
        try:
            it.integrate(chunk)
        finally:
            ig.WINDOW[0] = False
        cells, rows = self.fold(cells0, chunk, wa)
        got = [ig._key(r) for r in it.trajectory.tail.rows[1:]]
        self.check('rows processed at call-local position w + k (any w >= 0) = rows of fresh one-row calls', got == rows)
        self.invariant(it, self.n + m, cells)
        return {'new_cap': it.lla.cap}

    def sc_predict(self, wa):
        ig, h = self.integ, self.h
        it = h.state(self.n, self.cap, wa)
        cells0 = h.latest_cells(it)
        chunk = ig.Chunk('c', 1)
        snap = (ig.ikey(it.trajectory.n), list(it.trajectory.tail.rows), list(it.trajectory.tail.times), cells0)
        pr = it.predict(chunk.row(0))
        cells, rows = self.fold(cells0, chunk, wa)
        self.check('predict returns the row the next integrate appends', ig._key(pr) is rows[0])
        self.check('predict changes nothing observable',
                   (ig.ikey(it.trajectory.n), list(it.trajectory.tail.rows), list(it.trajectory.tail.times),
                    h.latest_cells(it)) == snap)
        ig.must(ig.iz(it.lla.cap) >= ig.iz(it.trajectory.n), 'capacity_invariant', 'capacity >= rows after predict')
        self.caps_equal(it)
        it.integrate(chunk)
        self.check('integrate after predict appends the predicted row', it.trajectory.tail.rows[-1] is ig._key(pr))
        self.invariant(it, self.n + 1, cells)
        return {'new_cap': it.lla.cap}

    def sc_set_pva(self, m, wa, same=None):
        ig, h = self.integ, self.h
        it = h.state(self.n, self.cap, wa)
        # `same`: the named column group of the new state is bit-identical to the state the
        # integrator was constructed with
        mkp = lambda: ig.Pva('P', same_as={same: 'Pinit'} if same else None)
        p = mkp()
        it.set_pva(p)
        ig.must(ig.iz(it.trajectory.n) == ig.iz(self.n), 'row_count', 'set_pva changes the row count')
        self.h.SD.Integrator.INITIAL_SIZE = self.isz
        fresh = self.h.SD.Integrator(mkp(), wa)
        self.check('set_pva overwrites the latest trajectory row with the first row of a fresh integrator',
                   it.trajectory.tail.rows[-1] is fresh.trajectory.tail.rows[0])
        self.check('set_pva does not modify its argument', p.vd0 is False)
        self.check('state after set_pva = state of a fresh integrator started from that pva',
                   h.latest_cells(it) == h.latest_cells(fresh),
                   'stored latest state differs (e.g. vertical velocity kept in 2D mode)')
        chunk = ig.Chunk('c', m)
        it.integrate(chunk)
        fresh.integrate(chunk)
        self.check('continuation after set_pva = continuation of a fresh integrator',
                   list(it.trajectory.tail.rows[1:]) == list(fresh.trajectory.tail.rows[1:]))
        self.invariant(it, self.n + m)
        return {'new_cap': it.lla.cap}

    def sc_constructor(self, wa):
        ig, h = self.integ, self.h
        h.SD.Integrator.INITIAL_SIZE = self.isz
        p = ig.Pva('P')
        it = h.SD.Integrator(p, wa)
        ig.must(ig.iz(it.trajectory.n) == 1, 'row_count', 'fresh integrator holds one row')
        self.check('fresh trajectory = initial pva at its own time', it.trajectory.tail.times == ['t_pva'])
        self.invariant(it, 1)
        self.check('constructor does not modify its argument', p.vd0 is False)
        cells = h.latest_cells(it)
        self.check('row 0 defined', all(c is not None for cs in cells for c in cs))
        if not wa:
            self.check('2D: stored vertical velocity is the literal 0.0', cells[1][2] == 0.0)
        return {'new_cap': it.lla.cap}

    def sc_split(self, m1, m2, wa):
        ig, h = self.integ, self.h
        a = h.state(self.n, self.cap, wa)
        b = h.state(self.n, self.cap, wa)
        chunk = ig.Chunk('c', m1 + m2)
        a.integrate(chunk)
        r1 = b.integrate(chunk.sub(0, m1))
        r2 = b.integrate(chunk.sub(m1, m1 + m2))
        self.check('chunk split law: rows', list(a.trajectory.tail.rows) == list(b.trajectory.tail.rows))
        self.check('chunk split law: stamps', a.trajectory.tail.times == b.trajectory.tail.times)
        self.check('chunk split law: latest state', h.latest_cells(a) == h.latest_cells(b))
        self.check('second call returns previous last row first', r2.rows[0] is r1.rows[-1])
        self.invariant(b, self.n + m1 + m2)
        return {'new_cap': b.lla.cap}

    def sc_history(self, seq, wa):
        """bounded history from the constructor with symbolic INITIAL_SIZE"""
        ig, h = self.integ, self.h
        h.SD.Integrator.INITIAL_SIZE = self.isz
        it = h.SD.Integrator(ig.Pva('P0'), wa)
        cells = h.latest_cells(it)
        exp_rows = [it.trajectory.tail.rows[0]]
        exp_times = ['t_pva']
        used = 0
        total = sum(int(o[1]) for o in seq if o[0] == 'i') + sum(1 for o in seq if o == 'p')
        big = ig.Chunk('c', total + 1)
        npv = 0
        for o in seq:
            if o[0] == 'i':
                m = int(o[1])
                ch = big.sub(used, used + m)
                used += m
                ret = it.integrate(ch)
                prev_last = exp_rows[-1]
                cells, rows = self.fold(cells, ch, wa)
                exp_rows += rows
                exp_times += ch.index
                self.check('history: returned chunk', [ig._key(r) for r in ret.rows] == [prev_last] + rows)
            elif o == 'p':
                ch = big.sub(used, used + 1)
                pr = it.predict(ch.row(0))
                _c, rows = self.fold(cells, ch, wa)
                self.check('history: predict = next appended row', ig._key(pr) is rows[0])
            elif o in ('s', 'r'):
                npv += 1
                mkp = lambda: ig.Pva('P%d' % npv, same_as={'rph': 'P0'} if o == 'r' else None)
                p = mkp()
                it.set_pva(p)
                fresh = h.SD.Integrator(mkp(), wa)
                cells_f = h.latest_cells(fresh)
                self.check('history: state after set_pva = fresh integrator state', h.latest_cells(it) == cells_f)
                cells = h.latest_cells(it)
                exp_rows[-1] = fresh.trajectory.tail.rows[0]
            self.check('history: trajectory rows', [ig._key(r) for r in it.trajectory.tail.rows] == exp_rows)
            self.check('history: time index', it.trajectory.tail.times == exp_times)
            ig.must(ig.iz(it.lla.cap) >= ig.iz(it.trajectory.n), 'capacity_invariant', 'capacity >= rows')
        ig.must(ig.iz(it.trajectory.n) == len(exp_rows), 'row_count', 'history: row count')
        return {'new_cap': it.lla.cap}

    # ---- reduction to plain data ------------------------------------------------------
    def on_path(self, ex, pr):
        import z3
        ig = self.integ
        out = {'status': pr.status, 'viol': [], 'nobl': 0}
        if pr.status == 'abort':
            if pr.out in ('OOB', 'TAIL'):
                out['viol'] = list(ig.VIOL.items)
                out['nobl'] = ig.NOBL[0]
            elif pr.out == 'INFEASIBLE':
                out['infeasible'] = True
            elif pr.out == 'UNKNOWN':
                out['unknown'] = True
            else:
                out['harness_error'] = 'abort %s' % pr.out
            return out
        if pr.status == 'exception':
            name, msg, tb = pr.out
            if name in ('NotImplementedError',) or 'pvf/' in tb.strip().split('\n')[-2]:
                out['harness_error'] = '%s: %s | %s' % (name, msg, tb[-500:])
            else:
                out['viol'] = [{'code': 'exception:' + name, 'desc': '%s: %s' % (name, msg[:200]), 'model': self._model(ex)}]
                out['nobl'] = 1
            return out
        r = pr.out
        out['viol'] = r['viol']
        out['nobl'] = r['nobl']
        m = self._model(ex)
        out['model'] = m
        nc = r['info'].get('new_cap')
        if m is not None and nc is not None:
            mm = ex.model_for(z3.And(*[self.zvars[k] == v for k, v in m.items()]))
            if mm is not None:
                out['new_cap'] = mm.eval(ig.iz(nc), model_completion=True).as_long()
        out['decisions'] = len(pr.decisions)
        return out

    def _model(self, ex):
        import z3
        small = z3.And(self.zvars['n'] <= 40, self.zvars['cap'] <= 80)
        if 'w' in self.zvars:
            small = z3.And(self.zvars['n'] <= 3, self.zvars['cap'] <= 4000, self.zvars['w'] <= 3000)
        m = ex.model_for(z3.And(small, self.zvars['n'] >= 3)) or ex.model_for(small) or ex.model_for()
        if m is None:
            return None
        return {k: m.eval(v, model_completion=True).as_long() for k, v in self.zvars.items()}


CANARIES = [
    ('capacity test off by one', '_integrate', 'if required_size > size:', 'if required_size > size + 1:', ('integrate', dict(m=2, wa=True))),
    ('growth misses the required size', '_integrate', 'new_size = max(2 * size, required_size)', 'new_size = max(2 * size, required_size - 1)', ('integrate', dict(m=3, wa=True))),
    ('kernel offset shifted', '_integrate', 'theta, dv, n_data - 1, self.with_altitude)', 'theta, dv, n_data, self.with_altitude)', ('integrate', dict(m=1, wa=True))),
    ('returned tail one row short', '_integrate', 'return self.trajectory.iloc[-n_readings - 1:]', 'return self.trajectory.iloc[-n_readings:]', ('integrate', dict(m=2, wa=True))),
    ('set_pva writes the wrong row', 'set_pva', 'i = len(self.trajectory) - 1', 'i = len(self.trajectory) - 2', ('set_pva', dict(m=1, wa=True))),
    ('set_pva forgets the attitude buffer', 'set_pva', 'self.mat_nb[i] = transform.mat_from_rph(pva[RPH_COLS])', 'pass', ('set_pva', dict(m=1, wa=True))),
    ('kernel writes two rows ahead', 'kernel', 'lla[j + 1, 2] = lla[j, 2] - V3 * dt', 'lla[j + 2, 2] = lla[j, 2] - V3 * dt', ('integrate', dict(m=1, wa=True))),
    ('kernel loop runs one past the chunk', 'kernel', 'for i in range(len(theta)):', 'for i in range(len(theta) + 1):', ('integrate', dict(m=1, wa=True))),
    ('predict stores its row', '_integrate', "return trajectory", "self.trajectory = pd.concat([self.trajectory, trajectory]); return trajectory", ('predict', dict(wa=True))),
]


def _canary_patch(target, old, new):
    from .. import common

    def patch(h):
        SD = h.SD
        if target == 'kernel':
            h.kernel = common.mutate_source(SD._pvf_orig['integrate'], old, new, h.KN.__dict__)
            SD._pvf_orig_kernel_mutated = True
            h.reference_kernel = SD._pvf_orig['integrate']
        else:
            f = common.mutate_source(SD._pvf_orig['methods'][target], old, new, SD.__dict__)
            setattr(SD.Integrator, target, f)
    return patch


def run(run):
    import z3
    from .. import common, paths, integ
    import pyins.strapdown as SD
    import pyins._numba_integrate as KN
    run.encode(SD.Integrator.__init__, SD.Integrator._integrate, SD.Integrator.integrate, SD.Integrator.predict,
               SD.Integrator.get_time, SD.Integrator.get_pva, SD.Integrator.set_pva, KN.integrate)
    run.assume(
        'bit-identity is concluded from term identity: both sides apply the same deterministic float operations (the kernel source, executed with NUMBA_DISABLE_JIT) to the same operands',
        'numba compiles the kernel source faithfully (no fastmath); pandas concat/iloc and ndarray.resize preserve values (checked concretely by the replays)',
        'mat_from_rotvec, gravity, mat_from_rph, mat_to_rph are uninterpreted deterministic functions here (their content: C17, C16)',
        'chunk lengths are concrete per scenario (kernel body is uniform in i); row count n and capacity are symbolic integers, 1 <= n <= capacity <= 10^6, INITIAL_SIZE in [1,64] for constructor histories')
    scen = _mk_scenarios(run.tier)
    total_paths = total_dec = 0
    cand = {}
    valid_specs = []
    distinct = set()
    for kind, params in scen:
        label = '%s %s' % (kind, params)
        s = Scenario(kind, params)
        ex = paths.Exec(s.pre)
        results, _ = ex.run(s.fn, on_path=s.on_path)
        run.queries += ex.nq
        n_obl = n_bad = 0
        for r in results:
            o = r.extra
            if o.get('harness_error'):
                run.error('%s: %s' % (label, o['harness_error']))
                continue
            if o.get('unknown'):
                run.unknown.append(label)
                continue
            if o.get('infeasible'):
                continue
            total_paths += 1
            total_dec += o.get('decisions', 0)
            n_obl += o['nobl']
            n_bad += min(o['nobl'], len(o['viol']))
            for v in o['viol']:
                cand.setdefault((label, v['code'], v['desc']), []).append((kind, params, v.get('model')))
            if not o['viol'] and o.get('model'):
                distinct.add((label, tuple(r.decisions)))
                valid_specs.append(_spec(kind, params, o['model'], o.get('new_cap')))
        run.family(label, n_obl, n_obl - n_bad, ex.query_s)
        if not results:
            run.error('%s: no path' % label)
    run.witness('resize branch taken on some path and not taken on another',
                len({(s['kind'], s.get('expect_new_cap') == s.get('cap')) for s in valid_specs if s['kind'] == 'integrate'}) >= 2)
    # ---- replay candidates -------------------------------------------------------------
    specs, meta = [], []
    for (label, code, desc), lst in sorted(cand.items(), key=lambda kv: str(kv[0])):
        for kind, params, model in lst[:2]:
            if model is None:
                continue
            specs.append(_spec(kind, params, model, None, expect_code=code))
            meta.append((label, code, desc))
    results = common.run_replays(specs, timeout=1200, env_extra={'NUMBA_BOUNDSCHECK': '1'}) if specs else []
    from .. import findings
    kf = findings.for_property(PROP)
    reproduced = set()
    for spec, (label, code, desc), res in zip(specs, meta, results):
        if res.get('error'):
            run.error('replay error %s: %s' % (label, res['error']))
            continue
        if res.get('violated'):
            if (label, code) in reproduced:
                continue
            reproduced.add((label, code))
            fid = findings.match(kf, spec, code, res)
            if fid is not None:
                run.known_finding(fid['id'], fid['what'])
                continue
            spec = dict(spec)
            spec['observed'] = res.get('failed')
            path = common.write_replay(PROP, spec)
            run.violation('%s [%s] %s; real code: %s' % (code, label, desc, res.get('failed')), path)
    for (label, code, desc) in cand:
        if (label, code) not in reproduced:
            run.error('candidate %s in %s (%s) did not reproduce on the real code - inconclusive (terms differ but values may agree)' % (code, label, desc))
    # ---- validate explored paths against the implementation ------------------------------
    import random
    rng = random.Random(run.seed)
    rng.shuffle(valid_specs)
    chosen = valid_specs[:(40 if run.tier == 'quick' else 150)]
    vres = common.run_replays(chosen, timeout=1800, env_extra={'NUMBA_BOUNDSCHECK': '1'}) if chosen else []
    n_valid = 0
    for spec, res in zip(chosen, vres):
        if res.get('error'):
            run.error('validation replay error: %s' % res['error'])
        elif res.get('violated'):
            spec = dict(spec)
            spec['observed'] = res.get('failed')
            path = common.write_replay(PROP, spec)
            run.violation('witness replay: real Integrator violates the property on an explored state: %s' % res.get('failed'), path)
        elif res.get('cap_mismatch'):
            run.error('capacity after the operation differs between symbolic path and real run: %s %s' % (spec, res))
        else:
            n_valid += 1
            run.sample({'scenario': spec['kind'], 'params': spec['params'], 'n': spec['n'], 'capacity': spec['cap'],
                        'INITIAL_SIZE': spec['isz'], 'capacity_after': res.get('new_cap')}, cap=10)
    # ---- canaries ----------------------------------------------------------------------
    for name, target, old, new, (kind, params) in CANARIES:
        try:
            s = Scenario(kind, params, patch=_canary_patch(target, old, new))
        except common.HarnessError as e:
            run.canary(name, False, str(e))
            continue
        ex = paths.Exec(s.pre)
        results, _ = ex.run(s.fn, on_path=s.on_path)
        codes = sorted({v['code'] for r in results for v in (r.extra.get('viol') or [])})
        herr = [r.extra.get('harness_error') for r in results if r.extra.get('harness_error')]
        run.canary(name, bool(codes), {'codes': codes[:6], 'harness_errors': herr[:1]})
    integ.IntegHarness()        # restore originals
    run.bounds.update({'chunk lengths': 'concrete, <= %d' % (3 if run.tier == 'quick' else 5),
                       'histories': 'inductive step from an arbitrary valid state (unbounded history) + explicit histories of <= %d operations from the constructor' % (2 if run.tier == 'quick' else 3),
                       'n, capacity': 'symbolic, 1 <= n <= capacity <= 10^6'})
    run.cov.update({'states': total_paths, 'transitions': max(1, total_dec), 'traces_validated_against_impl': n_valid,
                    'evaluations': total_paths, 'distinct_nontrivial': len(distinct), 'scenarios': len(scen),
                    'rule': 'one evaluation = one feasible path of a scenario (arbitrary valid pre-state, one operation or a short history); distinct = distinct (scenario, branch decisions)'})


def _spec(kind, params, model, new_cap, **extra):
    s = {'property': PROP, 'kind': kind, 'params': {k: (list(v) if isinstance(v, tuple) else v) for k, v in params.items()},
         'n': model['n'], 'cap': model['cap'], 'isz': model['isz'], 'expect_new_cap': new_cap, 'time_limit': 120}
    if 'w' in model:
        s['w'] = model['w']
    s.update(extra)
    return s


# ------------------------------------------------------------------------------------------
# concrete replay on the real Integrator (clean subprocess, NUMBA_BOUNDSCHECK=1)
# ------------------------------------------------------------------------------------------
def _increments(n, seed=1):
    import numpy as np
    import pandas as pd
    rng = np.random.RandomState(seed)
    dt = rng.uniform(0.005, 0.02, n)
    t = 10.0 + np.cumsum(dt)
    data = np.hstack([dt[:, None], rng.randn(n, 3) * 1e-3, rng.randn(n, 3) * 0.05 + np.array([0, 0, -9.8]) * dt[:, None]])
    # rows with special VALUES: an exactly zero rotation (gyro dead band / zero-filled dropout), an
    # exactly zero velocity increment - code that tests the data for zero must not depend on where
    # the chunk boundaries fall
    for k in range(n):
        if k % 3 == 1:
            data[k, 1:4] = 0.0
        if k % 5 == 3:
            data[k, 4:7] = 0.0
    df = pd.DataFrame(data, index=pd.Index(t, name='time'),
                      columns=['dt', 'theta_x', 'theta_y', 'theta_z', 'dv_x', 'dv_y', 'dv_z'])
    # an increments table is identified by its column NAMES: the replays use another column order
    return df[['dv_y', 'theta_z', 'dt', 'theta_x', 'dv_x', 'dv_z', 'theta_y']]


def _pva(k, t, same=None):
    """k-th supplied state; `same`: column group bit-identical to the initial state (k = 0)"""
    import pandas as pd
    from pyins.util import TRAJECTORY_COLS
    v = [55.0 + k, 37.0 - k, 150.0 + 10 * k, 3.0 + k, -2.0, 0.7 + 0.3 * k, 2.0 * k, -3.0, 45.0 + 20 * k]
    v0 = [55.0, 37.0, 150.0, 3.0, -2.0, 0.7, 0.0, -3.0, 45.0]
    sl = {'lla': slice(0, 3), 'vel': slice(3, 6), 'rph': slice(6, 9)}.get(same)
    if sl is not None:
        v[sl] = v0[sl]
    return pd.Series(v, index=TRAJECTORY_COLS, name=t)


def _same(a, b):
    import numpy as np
    a = np.asarray(a, dtype=float)
    b = np.asarray(b, dtype=float)
    return a.shape == b.shape and a.tobytes() == b.tobytes()


def replay(spec):
    try:
        return _replay(spec)
    except Exception as e:      # noqa: BLE001 - an exception out of the Integrator API is a violation
        import traceback
        tb = traceback.format_exc(limit=4)
        if 'pyins/' not in tb and 'numba' not in tb:
            raise
        return {'violated': True, 'failed': ['exception %s: %s' % (type(e).__name__, str(e)[:200])]}


def _replay(spec):
    import numpy as np
    import pandas as pd
    from pyins import strapdown
    kind, P = spec['kind'], spec['params']
    wa = P.get('wa', True)
    failed = []
    n, cap, isz = spec['n'], spec['cap'], spec['isz']

    def mk(size, pva):
        cls = type('It', (strapdown.Integrator,), {'INITIAL_SIZE': int(size)})
        return cls(pva, wa)

    def ref_rows(pva, inc):
        """single call on a default-size integrator"""
        r = strapdown.Integrator(pva, wa)
        r.integrate(inc)
        return r.trajectory

    if kind in ('integrate', 'predict', 'set_pva', 'split'):
        m = {'integrate': P.get('m', 0), 'predict': 1, 'set_pva': max(2, P.get('m', 0)), 'split': sum((P.get('m1', 0), P.get('m2', 0)))}[kind]
        inc = _increments(n - 1 + m + 1)
        pva0 = _pva(0, 10.0)
        it = mk(cap, pva0)
        if n > 1:
            it.integrate(inc.iloc[:n - 1])
        if len(it.lla) != cap:
            return {'violated': False, 'error': 'pre-state not reached: capacity %d != %d' % (len(it.lla), cap)}
        ch = inc.iloc[n - 1:n - 1 + m]
        full = ref_rows(pva0, inc.iloc[:n - 1 + m])
        if kind == 'integrate':
            ret = it.integrate(ch)
            if not _same(it.trajectory.values, full.values) or not _same(it.trajectory.index, full.index):
                failed.append('trajectory after chunked integration is not bit-identical to a single call')
            if not _same(ret.values, full.values[-m - 1:]) or not _same(ret.index, full.index[-m - 1:]):
                failed.append('integrate did not return previous last row + appended rows')
            if it.get_time() != full.index[-1] or not _same(it.get_pva().values, full.values[-1]):
                failed.append('get_time/get_pva do not return the latest row')
        elif kind == 'predict':
            # rows with special values first: no time passed (dt exactly 0, all-zero row - what the
            # feedback filter predicts with when an epoch falls on the current time) and an impulsive
            # row (dt = 0, non-zero increments): predict = the row a twin integrator's integrate appends
            for label, row0 in (('all-zero row with dt = 0', ch.iloc[0] * 0.0), ('impulsive row with dt = 0', ch.iloc[0].where(ch.columns != 'dt', 0.0))):
                row0 = row0.copy()
                row0.name = ch.index[0]
                twin = mk(cap, pva0)
                if n > 1:
                    twin.integrate(inc.iloc[:n - 1])
                pr0 = it.predict(row0)
                app = twin.integrate(row0.to_frame().transpose()).iloc[-1]
                if not _same(pr0.values, app.values) or pr0.name != app.name:
                    failed.append('predict(%s) differs from the row the next integrate of that increment appends (max |diff| %.3g, stamps %r / %r)' % (
                        label, np.abs(np.asarray(pr0.values, dtype=float) - np.asarray(app.values, dtype=float)).max(), pr0.name, app.name))
            before = it.trajectory.copy()
            pr = it.predict(ch.iloc[0])
            if not _same(it.trajectory.values, before.values) or len(it.trajectory) != len(before):
                failed.append('predict changed the stored trajectory')
            it.integrate(ch)
            if not _same(pr.values, it.trajectory.values[-1]) or pr.name != it.trajectory.index[-1]:
                failed.append('predict did not return the row the next integrate appends')
            if not _same(it.trajectory.values, full.values):
                failed.append('trajectory after predict+integrate differs from a single call')
        elif kind == 'set_pva':
            m = max(m, 2)       # the stored state is only observable through a continuation
            ch = inc.iloc[n - 1:n - 1 + m]
            p = _pva(1, it.get_time(), P.get('same'))
            it.set_pva(p)
            it.integrate(ch)
            fresh = ref_rows(p, ch)
            if not _same(it.trajectory.values[-m:] if m else np.empty((0, 9)), fresh.values[1:]):
                failed.append('continuation after set_pva is not bit-identical to a fresh integrator started from that state')
        elif kind == 'split':
            m1 = P['m1']
            r1 = it.integrate(ch.iloc[:m1])
            r2 = it.integrate(ch.iloc[m1:])
            if not _same(it.trajectory.values, full.values) or not _same(it.trajectory.index, full.index):
                failed.append('split integration is not bit-identical to a single call')
            if not _same(r2.values[0], r1.values[-1]):
                failed.append('second call does not return the previous last row first')
        new_cap = len(it.lla)
    elif kind == 'window':
        # the m rows as rows w .. w + m - 1 of ONE call, against the same rows in a call of their own
        # (and against row-by-row calls); several prefix lengths around the solver's w
        m = P.get('m', 1)
        w0 = int(spec.get('w', 0))
        pva0 = _pva(0, 10.0)
        for w in sorted({w0, max(0, w0 - 1), w0 + 1, 199, 200, 255, 256, 999, 1000, 1023, 1024}):
            inc = _increments(w + m)
            single = ref_rows(pva0, inc)
            it = mk(max(isz, 1), pva0)
            it.integrate(inc.iloc[:w])
            it.integrate(inc.iloc[w:])
            if not _same(it.trajectory.values, single.values) or not _same(it.trajectory.index, single.index):
                failed.append('a single call of %d rows is not bit-identical to calls of %d and %d rows (first difference at row %d)' % (
                    w + m, w, m, int(np.nonzero(np.any(it.trajectory.values != single.values, axis=1))[0][0])))
            rb = mk(max(isz, 1), pva0)
            for k in range(w + m):
                rb.integrate(inc.iloc[k:k + 1])
            if not _same(rb.trajectory.values, single.values):
                failed.append('a single call of %d rows is not bit-identical to row-by-row calls (first difference at row %d)' % (
                    w + m, int(np.nonzero(np.any(rb.trajectory.values != single.values, axis=1))[0][0])))
            if failed:
                break
        new_cap = None
    elif kind == 'constructor':
        it = mk(isz, _pva(0, 10.0))
        if len(it.trajectory) != 1 or it.get_time() != 10.0:
            failed.append('fresh integrator does not hold exactly the initial row')
        new_cap = len(it.lla)
    elif kind == 'history':
        seq = list(P['seq']) + ['i2']       # a final continuation makes the stored state observable
        total = sum(int(o[1]) for o in seq if o[0] == 'i') + sum(1 for o in seq if o == 'p') + 1
        inc = _increments(total)
        pva = _pva(0, 10.0)
        it = mk(isz, pva)
        seg_start, seg_from, used, npv = pva, 0, 0, 0
        exp_head = None       # rows before the current segment (values)
        for o in seq:
            if o[0] == 'i':
                mm = int(o[1])
                prev_last = it.trajectory.values[-1].copy()
                ret = it.integrate(inc.iloc[used:used + mm])
                used += mm
                if len(ret) != mm + 1 or not _same(ret.values[0], prev_last):
                    failed.append('integrate did not return previous last row + appended rows')
            elif o == 'p':
                before = it.trajectory.copy()
                pr = it.predict(inc.iloc[used])
                if not _same(it.trajectory.values, before.values):
                    failed.append('predict changed the stored trajectory')
                probe = strapdown.Integrator(seg_start, wa)
                probe.integrate(inc.iloc[seg_from:used + 1])
                if not _same(pr.values, probe.trajectory.values[-1]):
                    failed.append('predict differs from the row a single call would append')
            elif o in ('s', 'r'):
                npv += 1
                p = _pva(npv, it.get_time(), 'rph' if o == 'r' else None)
                it.set_pva(p)
                seg_start, seg_from = p, used
            seg = ref_rows(seg_start, inc.iloc[seg_from:used])
            k = len(seg)
            if not _same(it.trajectory.values[-k + 1:] if k > 1 else np.empty((0, 9)), seg.values[1:]):
                failed.append('rows since the last supplied state are not bit-identical to a single call from that state (after %r)' % (o,))
            exp_idx = np.concatenate([[10.0], inc.index[:used]])
            if not _same(it.trajectory.index, exp_idx):
                failed.append('time index is not start + every increment time once')
        new_cap = len(it.lla)
    else:
        return {'violated': False, 'error': 'unknown scenario %s' % kind}
    out = {'violated': bool(failed), 'failed': failed, 'new_cap': new_cap}
    if spec.get('expect_new_cap') is not None and not failed and kind in ('integrate', 'predict', 'split', 'constructor') and new_cap != spec['expect_new_cap']:
        out['cap_mismatch'] = True
    return out
