"""C14 - sensor error simulation and estimation models are exact mutual inverses (engine A with
path forking over the enable masks: the sign of each symbolic sd decides its enable bit)."""
import itertools

import fractions
Fr = fractions.Fraction
LEVEL = 'other'
PROP = 'C14'
XYZ = 'xyz'


def sm_masks(tier, seed):
    """scale/misalignment enable masks (9 bits). quick: a structured handful; thorough: ALL 512 (with the
    bias / walk / noise forks of every path that is every admissible enable mask of the property)"""
    import random
    # structured masks first: none, all, diagonal, checkerboard, a single entry in output row x (index
    # 0 is falsy!), one full row each, one column - then random ones
    base = [0b000000000, 0b111111111, 0b100010001, 0b010101010, 0b000000001, 0b000000111, 0b000111000, 0b111000000,
            0b001001001, 0b000000100, 0b001100110, 0b110001100]
    rng = random.Random(seed)
    n = 10 if tier == 'quick' else 512
    masks = list(base)
    while len(masks) < n:
        m = rng.randrange(512)
        if m not in masks:
            masks.append(m)
    return masks[:n]


class Harness:
    """one sm mask; bias / walk / noise are symbolic and fork"""

    def __init__(self, mask, mutate=None, light=False, reduced=False):
        import z3
        from .. import symreal as S, enga
        self.S = S
        self.mask = mask
        self.light = light
        S.new_ctx()
        self.m = enga.install()
        if mutate:
            mutate(self.m)
        self.IS = self.m['IS']
        sv = lambda nm, i: S.var('%s%d' % (nm, i)) if (not reduced or i >= 1) else S.J(0)
        self.bias = S.O([sv('bsd', i) for i in range(3)])
        self.walk = S.O([sv('wlk', i) for i in range(3)])
        self.noise = S.O([sv('nse', i) for i in range(3)])
        self.sm = S.symnp.zeros((3, 3))
        pre = []
        for k in range(9):
            if mask >> k & 1:
                v = S.var('ssd%d%d' % (k // 3, k % 3))
                self.sm[k // 3, k % 3] = v
                pre.append(z3.Real('ssd%d%d' % (k // 3, k % 3)) > 0)
        for nm in ('bsd', 'wlk', 'nse'):
            pre += [z3.Real('%s%d' % (nm, i)) >= -1 for i in range(3)] + [z3.Real('%s%d' % (nm, i)) <= 1 for i in range(3)]
        self.pre = pre + S.deg_domain()
        self.obls = []
        self.stats = {'paths': 0, 'raising': 0}

    # the function run on every path ------------------------------------------------------
    def fn(self):
        import numpy as np
        import z3
        from .. import enga, paths
        S = self.S
        J, O = S.J, S.O
        IS = self.IS
        ex = paths.CUR
        out = {'obls': [], 'raised': None}
        # the enable bits are decided up front (one path per sign pattern), so that a constructor
        # that fails to look at some entry is still run on every pattern
        for arr in (self.bias, self.walk, self.noise):
            for v in arr:
                bool(v > 0)
        try:
            model = IS.EstimationModel(bias_sd=self.bias, noise=self.noise, bias_walk=self.walk, scale_misal_sd=self.sm)
        except ValueError as e:
            out['raised'] = str(e)
            model = None
        en = lambda v: ex.valid(v.c0 > 0)
        b_on = [en(self.bias[i]) for i in range(3)]
        w_on = [en(self.walk[i]) for i in range(3)]
        n_on = [en(self.noise[i]) for i in range(3)]
        s_on = [[bool(self.mask >> (3 * i + j) & 1) for j in range(3)] for i in range(3)]
        out['mask'] = (tuple(b_on), tuple(w_on), tuple(n_on), self.mask)
        meta = {'check': 'model', 'params': {'bias': b_on, 'walk': w_on, 'noise': n_on, 'sm': self.mask}}
        pc = list(ex.pc)
        tag = 'b%s w%s n%s sm%03x' % (''.join('01'[x] for x in b_on), ''.join('01'[x] for x in w_on), ''.join('01'[x] for x in n_on), self.mask)
        H = lambda name, ok, fam: out['obls'].append(enga.holds('%s: %s' % (tag, name), z3.BoolVal(bool(ok)), fam, pc, meta))
        Z = lambda name, e, fam: out['obls'].append(enga.zero('%s: %s' % (tag, name), e, fam, pc, meta))
        illegal = any(w_on[i] and not b_on[i] for i in range(3))
        H('bias walk without bias raises ValueError, every other mask is accepted', (model is None) == illegal, 'admissible masks')
        if model is None or illegal:
            return out
        # expected layout from the enable bits
        states = ['bias_%s' % XYZ[i] for i in range(3) if b_on[i]] + \
                 ['sm_%s%s' % (XYZ[i], XYZ[j]) for i in range(3) for j in range(3) if s_on[i][j]]
        ns = len(states)
        nw = sum(1 for i in range(3) if b_on[i] and w_on[i])
        nn = sum(n_on)
        H('state names and order', list(model.states) == states, 'layout and naming')
        H('dimensions of states, P, F, G, H mutually consistent',
          model.n_states == ns and np.shape(model.P) == (ns, ns) and np.shape(model.F) == (ns, ns) and np.shape(model.G) == (ns, nw)
          and np.shape(model.H) == (3, ns), 'layout and naming')
        H('dimensions of q, v, J consistent', model.n_noises == nw and np.shape(model.q) == (nw,) and model.n_output_noises == nn and
          np.shape(model.v) == (nn,) and np.shape(model.J) == (3, nn), 'layout and naming')
        H('scale_misal_modelled flag', model.scale_misal_modelled == any(any(r) for r in s_on), 'layout and naming')
        if list(model.states) != states or np.shape(model.P) != (ns, ns) or np.shape(model.G) != (ns, nw) or np.shape(model.J) != (3, nn):
            return out
        # P = diag(sd^2), q = enabled walks in state order, v = enabled noises
        sds = [self.bias[i] for i in range(3) if b_on[i]] + [self.sm[i, j] for i in range(3) for j in range(3) if s_on[i][j]]
        for a in range(ns):
            for b in range(ns):
                Z('P[%d,%d] = diag(sd^2)' % (a, b), J(model.P[a, b]) - (sds[a] * sds[a] if a == b else 0), 'initial covariance and noise')
        walks = [self.walk[i] for i in range(3) if b_on[i] and w_on[i]]
        wstate = [k for k, i in enumerate([i for i in range(3) if b_on[i]]) if w_on[i]]
        for k in range(nw):
            Z('q[%d] = walk of the %d-th walking bias' % (k, k), J(model.q[k]) - walks[k], 'initial covariance and noise')
            for a in range(ns):
                Z('G[%d,%d] selects the walking bias state' % (a, k), J(model.G[a, k]) - (1 if a == wstate[k] else 0), 'initial covariance and noise')
        noises = [self.noise[i] for i in range(3) if n_on[i]]
        naxis = [i for i in range(3) if n_on[i]]
        for k in range(nn):
            Z('v[%d] = noise of axis %s' % (k, XYZ[naxis[k]]), J(model.v[k]) - noises[k], 'initial covariance and noise')
            for i in range(3):
                Z('J[%d,%d] maps noise %d to its axis' % (i, k, k), J(model.J[i, k]) - (1 if i == naxis[k] else 0), 'initial covariance and noise')
        for a in range(ns):
            for b in range(ns):
                Z('F[%d,%d] = 0 (constant / random-walk states)' % (a, b), J(model.F[a, b]), 'initial covariance and noise')
        # names identical to the simulator's parameter table (concrete non-nominal entries)
        import pandas as pd
        tr = np.eye(3) + np.array([[0.01 * (1 + i + j) if s_on[i][j] else 0.0 for j in range(3)] for i in range(3)])
        bs = np.array([0.1 * (i + 1) if b_on[i] else 0.0 for i in range(3)])
        wk = np.array([0.01 if (b_on[i] and w_on[i]) else 0.0 for i in range(3)])
        import numpy as realnp
        from .. import enga as _e
        saved = self.IS.np
        self.IS.np = realnp
        self.m['U'].np = realnp
        try:
            par = IS.Parameters(transform=tr, bias=bs, bias_walk=wk, rng=0)
            par.apply(pd.DataFrame(realnp.ones((3, 3)), index=[0.0, 0.1, 0.3], columns=['gyro_x', 'gyro_y', 'gyro_z']), 'rate')
            cols = list(par.data_frame.columns)
            # boundary value: the constant part of a WALKING bias is exactly zero - the state (and
            # the time-varying bias in the readings) still exists
            bs0 = np.array([0.0 if (b_on[i] and w_on[i]) else bs[i] for i in range(3)])
            par0 = IS.Parameters(transform=tr, bias=bs0, bias_walk=wk, rng=0)
            par0.apply(pd.DataFrame(realnp.ones((3, 3)), index=[0.0, 0.1, 0.3], columns=['gyro_x', 'gyro_y', 'gyro_z']), 'increment')
            cols0 = list(par0.data_frame.columns)
        finally:
            self.IS.np = saved
            self.m['U'].np = saved
        H('state names = column names of the simulator parameter table, same order', cols == states, 'layout and naming')
        H('state names = table columns also when the constant part of a walking bias is exactly zero', cols0 == states, 'layout and naming')
        if self.light:
            return out
        # output matrix times state = (T - I) r + b on the enabled entries
        r = O([S.var('r0'), S.var('r1'), S.var('r2')])
        x = O([S.var('x_' + s) for s in states])
        Hx = np.dot(S.symnp.asarray(model.output_matrix(r)), x) if ns else O([J(0)] * 3)
        exp = [J(0)] * 3
        for s_, xv in zip(states, x):
            it = s_.split('_')
            if it[0] == 'bias':
                exp[XYZ.index(it[1])] = exp[XYZ.index(it[1])] + xv
            else:
                exp[XYZ.index(it[1][0])] = exp[XYZ.index(it[1][0])] + xv * r[XYZ.index(it[1][1])]
        for i in range(3):
            Z('(output_matrix(r) x)[%d] = ((T-I) r + b)[%d]' % (i, i), J(Hx[i]) - exp[i], 'output matrix = simulated reading error')
        # stacked readings agree with single
        if ns and model.scale_misal_modelled:
            Hs = S.symnp.asarray(model.output_matrix(O([[1, 2, 3], list(r)])))
            Hr = S.symnp.asarray(model.output_matrix(r))
            for i in range(3):
                for a in range(ns):
                    Z('stacked output_matrix row = single [%d,%d]' % (i, a), J(Hs[1][i, a]) - J(Hr[i, a]), 'output matrix = simulated reading error')
        # accumulation: update(x1); update(x2) == update(x1 + x2); get_estimates returns the sum
        x1 = O([S.var('u_' + s) for s in states])
        x2 = O([S.var('v_' + s) for s in states])
        model.reset_estimates()
        model.update_estimates(x1)
        model.update_estimates(x2)
        est = model.get_estimates()
        T12, b12 = model.transform.copy(), model.bias.copy()
        model.reset_estimates()
        model.update_estimates(x1 + x2)
        for i in range(3):
            Z('accumulated bias[%d] = single update with the sum' % i, J(b12[i]) - J(model.bias[i]), 'estimates accumulate')
            for j in range(3):
                Z('accumulated transform[%d,%d] = single update with the sum' % (i, j), J(T12[i, j]) - J(model.transform[i, j]), 'estimates accumulate')
        H('get_estimates is indexed by the state names', list(est.index) == states, 'estimates accumulate')
        for k in range(ns):
            Z('get_estimates[%s] = x1 + x2' % states[k], J(est.iloc[k]) - (x1[k] + x2[k]), 'estimates accumulate')
        # correction undoes the noise-free simulated error (increment readings, irregular stamps)
        model.reset_estimates()
        model.update_estimates(x)
        dts = [S.var('dt1'), S.var('dt2')]
        times = [J(0), dts[0], dts[0] + dts[1]]
        clean = pd.DataFrame([[S.var('c%d_%d' % (k, i)) for i in range(3)] for k in range(3)], columns=['gyro_x', 'gyro_y', 'gyro_z'],
                             index=pd.Index(times, dtype=object), dtype=object)
        Tm = S.symnp.eye(3)
        bv = O([J(0)] * 3)
        for s_, xv in zip(states, x):
            it = s_.split('_')
            if it[0] == 'bias':
                bv[XYZ.index(it[1])] = xv
            else:
                Tm[XYZ.index(it[1][0]), XYZ.index(it[1][1])] = J(Tm[XYZ.index(it[1][0]), XYZ.index(it[1][1])]) + xv
        par = IS.Parameters(transform=Tm, bias=bv, rng=_ZeroRNG(S))
        sim = par.apply(clean, 'increment')
        inc = sim.iloc[1:]
        dtcol = pd.Series(dts, index=inc.index, dtype=object)
        corr = model.correct_increments(dtcol, inc)
        for k in range(2):
            for i in range(3):
                Z('correct_increments(simulated increments) row %d axis %s = clean increments' % (k + 1, XYZ[i]),
                  J(corr.values[k][i]) - clean.values[k + 1][i], 'correction undoes the simulated error')
        # Series form agrees
        cs = model.correct_increments(dts[0], inc.iloc[0])
        for i in range(3):
            Z('Series form of correct_increments axis %s' % XYZ[i], J(cs.values[i]) - clean.values[1][i], 'correction undoes the simulated error')
        return out

    def on_path(self, ex, pr):
        if pr.status == 'ok':
            return pr.out
        if pr.status == 'abort' and pr.out == 'INFEASIBLE':
            return {'infeasible': True}
        return {'error': '%s %s' % (pr.status, pr.out)}


class _ZeroRNG:
    """noise-free simulation: every draw is 0"""

    def __init__(self, S):
        self.S = S

    def randn(self, *shape):
        import numpy as np
        a = np.empty(shape, dtype=object)
        a.fill(0)
        return a


class _UnitRNG:
    """symbolic draws: call k returns fresh symbols g<k>_<row>_<col>"""

    def __init__(self, S):
        self.S = S
        self.k = 0

    def randn(self, *shape):
        import numpy as np
        a = np.empty(shape, dtype=object)
        for idx in np.ndindex(shape):
            a[idx] = self.S.var('g%d_%s' % (self.k, '_'.join(map(str, idx))))
        self.k += 1
        return a


def section_noise(rep, mutate=None):
    """coefficient of each random draw: rate noise/sqrt(dt), increment noise*sqrt(dt), walk
    increment walk*sqrt(dt) - the variances the estimator's v^2 and q^2 dt assume"""
    import numpy as np
    import pandas as pd
    import z3
    from .. import symreal as S, enga
    S.new_ctx()
    m = enga.install()
    if mutate:
        mutate(m)
    IS = m['IS']
    J, O = S.J, S.O
    dts = [S.var('dt1'), S.var('dt2')]
    S.C.dom += [z3.Real('dt1') > 0, z3.Real('dt2') > 0, z3.Real('dt1') <= 10, z3.Real('dt2') <= 10]
    times = [J(0), dts[0], dts[0] + dts[1]]
    noise = O([S.var('ns%d' % i) for i in range(3)])
    walk = O([S.var('wk%d' % i) for i in range(3)])
    S.C.dom += [z3.Real('ns%d' % i) >= 0 for i in range(3)] + [z3.Real('wk%d' % i) >= 0 for i in range(3)]
    clean = pd.DataFrame([[S.var('c%d_%d' % (k, i)) for i in range(3)] for k in range(3)], columns=['gyro_x', 'gyro_y', 'gyro_z'],
                         index=pd.Index(times, dtype=object), dtype=object)
    obls = []
    for stype in ('rate', 'increment'):
        rng = _UnitRNG(S)
        par = IS.Parameters(noise=noise, bias_walk=walk, bias=O([S.var('b%d' % i) for i in range(3)]), rng=rng)
        res = par.apply(clean, stype)
        meta = {'check': 'noise', 'params': {'type': stype}}
        for k in (1, 2):
            dt = dts[k - 1]
            sq = dt.sqrt()
            for i in range(3):
                e = J(res.values[k][i])
                # split off the deterministic part and the draws: e is linear in the draws
                gn = z3.Real('g1_%d_%d' % (k, i))          # second call: output noise
                c_noise = _coef(e, gn)
                want = noise[i] / sq if stype == 'rate' else noise[i] * sq
                obls.append(enga.zero('%s: coefficient of the noise draw, row %d axis %s = noise %s sqrt(dt)' % (stype, k, XYZ[i], '/' if stype == 'rate' else '*'),
                                      c_noise - want, 'simulated noise variances', meta=meta))
                gw = z3.Real('g0_%d_%d' % (k, i))          # first call: bias walk draws
                c_walk = _coef(e, gw)
                wantw = walk[i] * sq * (1 if stype == 'rate' else dt)
                obls.append(enga.zero('%s: coefficient of the walk draw of its own step, row %d axis %s = walk sqrt(dt)%s' % (stype, k, XYZ[i], '' if stype == 'rate' else ' dt'),
                                      c_walk - wantw, 'simulated noise variances', meta=meta))
    rep.run.encode(IS.Parameters.apply)
    return obls


FROM_MODEL_CASES = [
    # (scale_misal_sd pattern: 1 = enabled, bias_sd)  - asymmetric patterns on purpose
    ([[1, 1, 0], [0, 1, 0], [0, 0, 0]], [0.0, 0.0, 0.02]),
    ([[0, 0, 1], [0, 0, 0], [0, 1, 0]], [0.01, 0.0, 0.03]),
    ([[1, 1, 1], [1, 1, 1], [1, 1, 1]], [0.01, 0.02, 0.03]),
    ([[0, 0, 0], [0, 0, 0], [0, 0, 0]], [0.0, 0.02, 0.0]),
]


def section_from_model(rep, mutate=None):
    """Parameters.from_EstimationModel with symbolic standard draws: the simulated transform and bias
    are random with EXACTLY the standard deviations of the model, element by element (the variance
    of entry (i, j) is scale_misal_sd[i, j]^2 - not that of the transposed entry), their means are
    the nominal values, and noise / bias walk are handed through"""
    import numpy as np
    import z3
    from .. import symreal as S, enga
    obls = []
    for ci, (pat, bsd) in enumerate(FROM_MODEL_CASES):
        S.new_ctx()
        m = enga.install()
        if mutate:
            mutate(m)
        IS = m['IS']
        J = S.J
        sd = np.array([[1e-3 * (1 + 3 * i + j) if pat[i][j] else 0.0 for j in range(3)] for i in range(3)])
        kw = {'scale_misal_sd': sd} if sd.any() else {}
        model = IS.EstimationModel(bias_sd=np.array(bsd), noise=np.array([1e-3, 0.0, 2e-3]), bias_walk=np.array([0.0, 0.0, 1e-4]) if bsd[2] else 0, **kw)
        rng = _UnitRNG(S)
        par = IS.Parameters.from_EstimationModel(model, rng)
        draws = []
        for k in range(rng.k):
            for shape in ((3, 3), (3,)):
                for idx in np.ndindex(shape):
                    draws.append(z3.Real('g%d_%s' % (k, '_'.join(map(str, idx)))))
        zero_all = [(g, S.ZERO) for g in draws]
        meta = {'check': 'from_model', 'params': {'case': ci}}
        T = np.asarray(par.transform, dtype=object)
        b = np.asarray(par.bias, dtype=object)
        for i in range(3):
            for j in range(3):
                e = J(T[i, j])
                mean = S.const(z3.simplify(z3.substitute(e.c0, *zero_all)))
                var = sum((_coef(e, g) * _coef(e, g) for g in draws), J(0))
                obls.append(enga.zero('case %d: mean of the simulated transform[%d,%d] = nominal' % (ci, i, j), mean - (1 if i == j else 0), 'Parameters.from_EstimationModel', meta=meta))
                obls.append(enga.zero('case %d: variance of the simulated transform[%d,%d] = scale_misal_sd[%d,%d]^2 of the model' % (ci, i, j, i, j), var - S.const(S.rat(Fr(float(sd[i, j])) ** 2)), 'Parameters.from_EstimationModel', meta=meta))
            e = J(b[i])
            mean = S.const(z3.simplify(z3.substitute(e.c0, *zero_all)))
            var = sum((_coef(e, g) * _coef(e, g) for g in draws), J(0))
            obls.append(enga.zero('case %d: mean of the simulated bias[%d] = 0' % (ci, i), mean, 'Parameters.from_EstimationModel', meta=meta))
            obls.append(enga.zero('case %d: variance of the simulated bias[%d] = bias_sd^2 of the model' % (ci, i), var - S.const(S.rat(Fr(float(bsd[i])) ** 2)), 'Parameters.from_EstimationModel', meta=meta))
            obls.append(enga.zero('case %d: noise[%d] handed through' % (ci, i), J(np.asarray(par.noise, dtype=object)[i]) - S.const(S.rat(Fr(float(model.noise[i])))), 'Parameters.from_EstimationModel', meta=meta))
            obls.append(enga.zero('case %d: bias walk[%d] handed through' % (ci, i), J(np.asarray(par.bias_walk, dtype=object)[i]) - S.const(S.rat(Fr(float(model.bias_walk[i])))), 'Parameters.from_EstimationModel', meta=meta))
        rep.run.encode(IS.Parameters.from_EstimationModel)
        yield obls
        obls = []


def _coef(e, g):
    """coefficient of the z3 variable g in the (linear in g) term e.c0"""
    import z3
    from .. import symreal as S
    t = e.c0
    one = z3.substitute(t, (g, S.ONE))
    zero = z3.substitute(t, (g, S.ZERO))
    return S.const(z3.simplify(one - zero))


CANARIES = [
    ('state order: scale states before bias', ('IS', 'EstimationModel.update_estimates', "self.bias[axis] += xi", "self.bias[axis] -= xi"), 0b100010001),
    ('walk noise mapped to the wrong state', ('IS', 'EstimationModel.__init__', 'G[n_states, n_noises] = 1', 'G[n_noises, n_noises] = 1'), 0),
    ('scale/misalignment name transposed', ('IS', 'EstimationModel.__init__', 'f"sm_{INDEX_TO_XYZ[output_axis]}{INDEX_TO_XYZ[input_axis]}")', 'f"sm_{INDEX_TO_XYZ[input_axis]}{INDEX_TO_XYZ[output_axis]}")'), 0b000000010),
    ('output matrix uses output axis reading', ('IS', 'EstimationModel.output_matrix', 'H[output_axes, states] = readings[input_axes]', 'H[output_axes, states] = readings[output_axes]'), 0b000000010),
    ('correct_increments forgets dt on the bias', ('IS', 'EstimationModel.correct_increments', '(increments.values - self.bias * dt).T', '(increments.values - self.bias).T'), 0b000000001),
    ('initial covariance not squared', ('IS', 'EstimationModel.__init__', 'P[n_states, n_states] = bias_sd[axis] ** 2', 'P[n_states, n_states] = bias_sd[axis]'), 0),
    ('walk allowed without bias', ('IS', 'EstimationModel.__init__', 'if np.any(bias_walk[bias_sd <= 0] > 0):', 'if False:'), 0),
    ('get_estimates forgets the nominal diagonal', ('IS', 'EstimationModel.get_estimates', '(1 if axis_out == axis_in else 0)', '0'), 0b000000001),
    ('increment noise scaled like rate noise', 'noise', ('IS', 'Parameters.apply', 'result += self.noise * dt**0.5 * self.rng.randn(*readings.shape)', 'result += self.noise * dt**-0.5 * self.rng.randn(*readings.shape)')),
]


def _mask_job(args):
    """explore one scale-misalignment mask and discharge its obligations inside a pool worker;
    returns plain data"""
    import z3
    from .. import enga, common
    from .. import symreal as S
    mask, light, tier, seed = args
    run = common.Run(PROP, LEVEL, tier, seed)
    rep = enga.AReport(run, box={'dt1': (0.01, 1), 'dt2': (0.01, 1)})
    h, outs, ex = _explore(mask, light=light)
    res = {'mask': mask, 'paths': 0, 'layouts': [], 'errors': [], 'families': {}, 'unknown': [], 'cands': [], 'triv': 0, 'samples': []}
    obls = []
    for o in outs:
        if o.get('infeasible'):
            continue
        if o.get('error'):
            res['errors'].append('mask %03x: %s' % (mask, o['error']))
            continue
        res['paths'] += 1
        res['layouts'].append(o['mask'])
        obls += o['obls']
    hard = []
    for ob in obls:
        if z3.is_false(z3.simplify(ob.neg)):
            f = res['families'].setdefault(ob.family, [0, 0, 0.0])
            f[0] += 1
            f[1] += 1
            res['triv'] += 1
        else:
            hard.append(ob)
    res['n_hard_distinct'] = len({ob.name for ob in hard})
    out = enga.discharge(hard, timeout_s=30 if tier == 'quick' else 120, pool=1, ctx=S.C)
    for ob, r in zip(hard, out):
        f = res['families'].setdefault(ob.family, [0, 0, 0.0])
        f[0] += 1
        f[2] += r['secs']
        if r['result'] == 'unsat':
            f[1] += 1
            if len(res['samples']) < 2:
                res['samples'].append({'obligation': ob.name, 'family': ob.family, 'result': 'unsat', 'solver_s': round(r['secs'], 3)})
            continue
        tr = rep.refute(ob, r, S.C)
        if tr is None and ob.expr is None and r['result'] == 'sat':
            tr = ({}, float('nan'))
        if tr is None:
            res['unknown'].append('%s (%s)' % (ob.name, r['result']))
        else:
            res['cands'].append({'name': ob.name, 'meta': ob.meta, 'point': tr[0], 'value': tr[1]})
    return res


def _explore(mask, mutate=None, light=False, reduced=False):
    from .. import paths
    h = Harness(mask, mutate, light, reduced)
    ex = paths.Exec(h.pre)
    res, _ = ex.run(h.fn, on_path=h.on_path)
    return h, [r.extra for r in res], ex


def run(run):
    import z3
    from .. import enga, common, paths
    from .. import symreal as S
    from .c05 import _mut_method
    box = {}
    rep = enga.AReport(run, box={'dt1': (0.01, 1), 'dt2': (0.01, 1)})
    run.assume('exact real arithmetic; enable bits = signs of symbolic standard deviations (bias / walk / noise fork on every path; scale-misalignment masks are enumerated: %s)' % ('10 structured masks' if run.tier == 'quick' else '64 masks (12 structured + random)'),
               'np.linalg.solve is the explicit 3x3 adjugate/det solve, det(transform) != 0 assumed; rational identities decided after multiplying out the reciprocal',
               'RNG replaced by symbolic draws (coefficients of noise terms are read off); sample statistics of the generator are outside',
               'state-name comparison against Parameters.apply uses concrete non-nominal values on the enabled entries')
    masks = sm_masks(run.tier, run.seed)
    n_paths = 0
    layouts = set()
    import multiprocessing as mp
    jobs = [(mask, False, run.tier, run.seed) for k, mask in enumerate(masks)]
    with mp.get_context('fork').Pool(min(16, len(jobs))) as pool:
        results = pool.map(_mask_job, jobs, chunksize=1)
    specs = []
    for res in results:
        for e in res['errors']:
            run.error(e)
        n_paths += res['paths']
        layouts.update(tuple(map(tuple, l[:3])) + (l[3],) for l in res['layouts'])
        for fam, (n, ok, secs) in res['families'].items():
            run.family(fam, n, ok, secs)
        run.cov['syntactically_discharged'] = run.cov.get('syntactically_discharged', 0) + res['triv']
        run.cov['distinct_nontrivial'] = run.cov.get('distinct_nontrivial', 0) + res['n_hard_distinct']
        run.unknown += res['unknown']
        for smp in res['samples']:
            run.sample(smp)
        for c in res['cands'][:3]:
            specs.append(({'property': PROP, 'kind': 'numeric', 'check': (c['meta'] or {}).get('check'), 'point': c['point'],
                           'obligation': c['name'], 'params': (c['meta'] or {}).get('params')}, c))
    if specs:
        rr = common.run_replays([s_ for s_, _c in specs])
        seen = set()
        for (spec, c), r in zip(specs, rr):
            if r.get('error'):
                run.error('replay error for "%s": %s' % (c['name'], r['error']))
            elif r.get('violated'):
                key = str(r.get('detail'))
                if key in seen:
                    continue
                seen.add(key)
                spec = dict(spec)
                spec['observed'] = r.get('detail')
                run.violation('%s; real code: %s' % (c['name'], r.get('detail')), common.write_replay(PROP, spec))
            else:
                run.error('obligation "%s" fails symbolically but the compiled code satisfies the numeric oracle - inconclusive' % c['name'])
    run.cov['rule'] = ('evaluations = obligations generated over all mask paths; distinct_nontrivial = distinct obligation names (mask tag included) '
                       'whose negation did not simplify to false syntactically and was decided by the normal form or the solver (counted per mask job)')
    run.cov['mask_paths'] = n_paths
    run.cov['distinct_masks'] = len(layouts)
    run.witness('both admissible and raising masks were reached', n_paths > 100)
    obls = section_noise(rep)
    rep.finish(rep.batch(obls), PROP)
    for obls_fm in section_from_model(rep):
        rep.finish(rep.batch(obls_fm), PROP)
    rep.selfcheck(PROP, [{'check': 'from_model', 'point': {}}, {'check': 'noise', 'point': {}}] + [{'check': 'model', 'point': {}, 'params': {'bias': list(b), 'walk': list(w), 'noise': list(n_), 'sm': sm}}
                                                            for (b, w, n_, sm) in [((True, True, True), (True, False, True), (True, True, True), 0b100010001), ((True, False, True), (False, False, True), (False, True, False), 0b000000110),
                                                                                   ((False, False, False), (False, False, False), (False, False, False), 0), ((True, True, False), (False, False, True), (True, False, False), 0)]])
    for can in CANARIES:
        name = can[0]
        try:
            if can[1] == 'noise':
                obls = section_noise(rep, _mut_method(can[2]))
            else:
                h, outs, ex = _explore(can[2], _mut_method(can[1]), reduced=True)
                obls = [ob for o in outs if not o.get('infeasible') and not o.get('error') for ob in o['obls']]
                errs = [o['error'] for o in outs if o.get('error')]
                if errs and not obls:
                    run.canary(name, True, 'mutant raises: %s' % errs[0][:200])
                    continue
                obls = [ob for ob in obls if not z3.is_false(z3.simplify(ob.neg))][:400]
        except common.HarnessError as e:
            run.canary(name, False, str(e))
            continue
        rep.canary(name, obls, timeout_s=5)
    enga.restore()
    run.bounds.update({'masks': '27 bias/walk x 8 noise masks (all, by forking) x %d scale-misalignment masks' % len(masks),
                       'stamps': 'three samples with symbolic positive irregular intervals'})


def replay(spec):
    import numpy as np
    import pandas as pd
    from pyins import inertial_sensor as IS
    pr = spec.get('params') or {}
    fails = []
    if spec.get('check') == 'from_model':
        # sample statistics of Parameters.from_EstimationModel against the model's standard deviations,
        # entry by entry, for asymmetric enable patterns; and names of the simulator table = state names
        import numpy as np
        import pandas as pd
        from pyins import inertial_sensor as IS_
        fails = []
        for ci, (pat, bsd) in enumerate(FROM_MODEL_CASES):
            sd = np.array([[1e-3 * (1 + 3 * i + j) if pat[i][j] else 0.0 for j in range(3)] for i in range(3)])
            kw = {'scale_misal_sd': sd} if sd.any() else {}
            model = IS_.EstimationModel(bias_sd=np.array(bsd), noise=np.array([1e-3, 0.0, 2e-3]), bias_walk=np.array([0.0, 0.0, 1e-4]) if bsd[2] else 0, **kw)
            rs = np.random.RandomState(7)
            Ts, bs = [], []
            for _ in range(400):
                p_ = IS_.Parameters.from_EstimationModel(model, rs)
                Ts.append(np.asarray(p_.transform, dtype=float) - np.eye(3))
                bs.append(np.asarray(p_.bias, dtype=float))
            Ts, bs = np.array(Ts), np.array(bs)
            est = np.sqrt((Ts ** 2).mean(axis=0))
            if np.any((sd == 0) & (np.abs(Ts).max(axis=0) > 0)) or np.any(np.abs(est - sd)[sd > 0] > 0.25 * sd[sd > 0]):
                fails.append('case %d: simulated scale/misalignment errors do not have the standard deviations of the model entry by entry: rms %s vs model %s' % (ci, np.round(est, 5).tolist(), sd.tolist()))
            bse = np.sqrt((bs ** 2).mean(axis=0))
            if np.any((np.array(bsd) == 0) & (np.abs(bs).max(axis=0) > 0)) or np.any(np.abs(bse - bsd)[np.array(bsd) > 0] > 0.25 * np.array(bsd)[np.array(bsd) > 0]):
                fails.append('case %d: simulated biases do not have the standard deviations of the model: rms %s vs %s' % (ci, bse.tolist(), bsd))
            t_ = np.array([0.0, 0.01, 0.03, 0.04])
            clean = pd.DataFrame(np.random.RandomState(1).randn(4, 3), index=t_, columns=['gyro_x', 'gyro_y', 'gyro_z'])
            p_ = IS_.Parameters.from_EstimationModel(model, 3)
            p_.apply(clean, 'rate')
            if list(p_.data_frame.columns) != list(model.states):
                fails.append('case %d: simulator table columns %s != state names %s' % (ci, list(p_.data_frame.columns), list(model.states)))
        return {'violated': bool(fails), 'detail': fails[:4]}
    if spec.get('check') == 'noise':
        t = np.array([0.0, 0.02, 0.07])
        clean = pd.DataFrame(np.ones((3, 3)), index=t, columns=['gyro_x', 'gyro_y', 'gyro_z'])
        for stype in ('rate', 'increment'):
            class R:
                def __init__(s): s.k = 0
                def randn(s, *shape):
                    s.k += 1
                    return np.ones(shape) if s.k == 2 else np.zeros(shape)
            par = IS.Parameters(noise=[0.1, 0.2, 0.3], rng=0)
            par.rng = R()
            res = par.apply(clean, stype).values - clean.values
            dt = np.array([0.02, 0.02, 0.05])[:, None]
            want = np.array([0.1, 0.2, 0.3]) * (dt ** -0.5 if stype == 'rate' else dt ** 0.5)
            if not np.allclose(res, want):
                fails.append('%s: simulated white noise is not noise %s sqrt(dt)' % (stype, '/' if stype == 'rate' else '*'))
        return {'violated': bool(fails), 'detail': fails}
    b_on, w_on, n_on, mask = pr.get('bias', [True] * 3), pr.get('walk', [False] * 3), pr.get('noise', [True] * 3), pr.get('sm', 0)
    s_on = [[bool(mask >> (3 * i + j) & 1) for j in range(3)] for i in range(3)]
    bsd = [0.1 * (i + 1) if b_on[i] else 0.0 for i in range(3)]
    wlk = [0.01 * (i + 1) if w_on[i] else 0.0 for i in range(3)]
    nse = [0.02 * (i + 1) if n_on[i] else 0.0 for i in range(3)]
    ssd = [[0.001 * (1 + i + 3 * j) if s_on[i][j] else 0.0 for j in range(3)] for i in range(3)]
    illegal = any(w_on[i] and not b_on[i] for i in range(3))
    try:
        model = IS.EstimationModel(bias_sd=bsd, noise=nse, bias_walk=wlk, scale_misal_sd=ssd)
    except ValueError:
        return {'violated': not illegal, 'detail': ['admissible mask rejected'] if not illegal else []}
    if illegal:
        return {'violated': True, 'detail': ['bias walk without bias was accepted']}
    states = ['bias_%s' % XYZ[i] for i in range(3) if b_on[i]] + ['sm_%s%s' % (XYZ[i], XYZ[j]) for i in range(3) for j in range(3) if s_on[i][j]]
    ns = len(states)
    if list(model.states) != states:
        fails.append('state names %s != %s' % (model.states, states))
        return {'violated': True, 'detail': fails}
    sds = [bsd[i] for i in range(3) if b_on[i]] + [ssd[i][j] for i in range(3) for j in range(3) if s_on[i][j]]
    if not np.allclose(model.P, np.diag(np.square(sds))):
        fails.append('P != diag(sd^2)')
    nw = sum(1 for i in range(3) if b_on[i] and w_on[i])
    if model.G.shape != (ns, nw) or len(model.q) != nw or model.J.shape != (3, sum(n_on)) or model.H.shape != (3, ns):
        fails.append('dimensions inconsistent')
    else:
        wstate = [k for k, i in enumerate([i for i in range(3) if b_on[i]]) if w_on[i]]
        Gexp = np.zeros((ns, nw))
        for k, a in enumerate(wstate):
            Gexp[a, k] = 1
        if not np.array_equal(model.G, Gexp) or not np.allclose(model.q, [wlk[i] for i in range(3) if b_on[i] and w_on[i]]):
            fails.append('G / q do not map the enabled walks to their bias states')
    rng = np.random.RandomState(3)
    x = rng.randn(ns) * 0.01
    r = rng.randn(3)
    T = np.eye(3)
    b = np.zeros(3)
    for s_, xv in zip(states, x):
        it = s_.split('_')
        if it[0] == 'bias':
            b[XYZ.index(it[1])] = xv
        else:
            T[XYZ.index(it[1][0]), XYZ.index(it[1][1])] += xv
    if ns and not np.allclose(model.output_matrix(r) @ x, (T - np.eye(3)) @ r + b):
        fails.append('output_matrix(r) x != (T - I) r + b')
    par = IS.Parameters(transform=T, bias=b, bias_walk=[0.01 if (b_on[i] and w_on[i]) else 0 for i in range(3)], rng=0)
    t = np.array([0.0, 0.013, 0.05, 0.06])
    clean = pd.DataFrame(rng.randn(4, 3), index=t, columns=['gyro_x', 'gyro_y', 'gyro_z'])
    par2 = IS.Parameters(transform=T, bias=b, rng=0)
    sim = par2.apply(clean, 'increment')
    par.apply(clean, 'rate')
    if list(par.data_frame.columns) != [s for s in states if not (s.startswith('bias') and b[XYZ.index(s[-1])] == 0)] and list(par.data_frame.columns) != states:
        fails.append('simulator parameter table columns %s != state names %s' % (list(par.data_frame.columns), states))
    wk_ = np.array([0.01 if (b_on[i] and w_on[i]) else 0.0 for i in range(3)])
    b0_ = np.array([0.0 if wk_[i] else (0.1 * (i + 1) if b_on[i] else 0.0) for i in range(3)])
    par0 = IS.Parameters(transform=T, bias=b0_, bias_walk=wk_, rng=0)
    par0.apply(clean, 'increment')
    if list(par0.data_frame.columns) != states:
        fails.append('with a walking bias whose constant part is exactly zero the simulator parameter table columns %s != state names %s' % (list(par0.data_frame.columns), states))
    model.reset_estimates()
    model.update_estimates(x * 0.4)
    model.update_estimates(x * 0.6)
    est = model.get_estimates()
    if not np.allclose(est.values, x) or list(est.index) != states:
        fails.append('accumulated estimates != sum of the updates')
    inc = sim.iloc[1:]
    corr = model.correct_increments(pd.Series(np.diff(t), index=inc.index), inc)
    if not np.allclose(corr.values, clean.values[1:], atol=1e-12):
        fails.append('correct_increments does not undo the noise-free simulated error (max diff %.3g)' % np.abs(corr.values - clean.values[1:]).max())
    return {'violated': bool(fails), 'detail': fails}


RIM = {'lat': -84.6, 'lon': 150.0, 'alt': 15000.0, 'VN': 250.0, 'VE': -200.0, 'VD': 5.0, 'roll': 120.0, 'pitch': -60.0, 'heading': -170.0}


def FALLBACK(tier):
    """numeric oracle specs put to the compiled code when the symbolic run is inconclusive (main.py)"""
    return [{'check': 'from_model', 'point': {}}, {'check': 'noise', 'point': {}}] + [{'check': 'model', 'point': {}, 'params': {'bias': list(b), 'walk': list(w), 'noise': list(n_), 'sm': sm}} for (b, w, n_, sm) in [((True, True, True), (True, False, True), (True, True, True), 0b100010001), ((True, False, True), (False, False, True), (False, True, False), 0b000000110), ((False, False, False), (False, False, False), (False, False, False), 0), ((True, True, False), (False, False, True), (True, False, False), 0)]]
