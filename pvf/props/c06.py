"""C06 - measurement models: residual sign/units right and H is the Jacobian of z (engine A)."""
LEVEL = 'other'
PROP = 'C06'

CLASSES = ('Position', 'Position+lever', 'NedVelocity', 'NedVelocity+lever', 'BodyVelocity')


def _measurements(M, lever, pva):
    """real measurement objects; data = real pandas frames with a concrete time index and
    symbolic values. The measured quantity equals the state's own at order 0 (both are within
    O(eps) of the truth); an additional symbolic offset `m_*` times eps models the measurement
    error scale."""
    import pandas as pd
    from .. import symreal as S
    J = S.J
    eps = S.formal(0)
    mo = lambda n: S.var('m_' + n) * eps
    pos = pd.DataFrame([[pva['lat'] + mo('lat'), pva['lon'] + mo('lon'), pva['alt'] + mo('alt')]], columns=['lat', 'lon', 'alt'], index=[1.0], dtype=object)
    ned = pd.DataFrame([[S.var('mVN'), S.var('mVE'), S.var('mVD')]], columns=['VN', 'VE', 'VD'], index=[1.0], dtype=object)
    body = pd.DataFrame([[S.var('mVX'), S.var('mVY'), S.var('mVZ')]], columns=['VX', 'VY', 'VZ'], index=[1.0], dtype=object)
    sd = S.var('sd')
    return {
        'Position': M.Position(pos, sd),
        'Position+lever': M.Position(pos, sd, lever),
        'NedVelocity': M.NedVelocity(ned, sd),
        'NedVelocity+lever': M.NedVelocity(ned, sd, lever),
        'BodyVelocity': M.BodyVelocity(body, sd),
    }


def section(rep, wa, with_rates, mutate=None, classes=CLASSES):
    import numpy as np
    import pandas as pd
    import z3
    from .. import symreal as S, enga
    from .c05 import sym_pva
    from pyins.util import TRAJECTORY_COLS, RATE_COLS, LLA_COLS, VEL_COLS, RPH_COLS
    S.new_ctx([('eps', 1)])
    m = enga.install()
    EM, T, M = m['EM'], m['T'], m['M']
    if mutate:
        mutate(m)
    J, O = S.J, S.O
    eps = S.formal(0)
    pva = sym_pva(with_rates=with_rates)
    em = EM.InsErrorModel(wa)
    n = em.n_states
    x = O([S.var('x%d' % i) for i in range(n)])
    lever = O([S.var('lx'), S.var('ly'), S.var('lz')])
    S.C.dom += [z3.Real(v) >= -10 for v in ('lx', 'ly', 'lz')] + [z3.Real(v) <= 10 for v in ('lx', 'ly', 'lz')]
    S.C.dom += [z3.Real('sd') > 0, z3.Real('sd') <= 100]
    pc = em.correct_pva(pva[TRAJECTORY_COLS], x * eps)
    if with_rates:
        pc = pd.concat([pc, pva[RATE_COLS]])
    meas = _measurements(M, lever, pva)
    tag = '%s,%s' % ('3D' if wa else '2D', 'rates' if with_rates else 'no rates')
    obls = []
    Cnb = T.mat_from_rph(pva[RPH_COLS])
    for cname in classes:
        ms = meas[cname]
        meta = {'check': 'H', 'params': {'wa': wa, 'rates': with_rates, 'cls': cname}}
        Z = lambda name, e_, fam: obls.append(enga.zero('%s %s: %s' % (cname, tag, name), e_, fam, meta=meta))
        Hh = lambda name, ok, fam: obls.append(enga.holds('%s %s: %s' % (cname, tag, name), z3.BoolVal(bool(ok)), fam, meta=meta))
        # (d) a time absent from the data returns nothing
        Hh('compute_matrices at a time absent from the data returns None', ms.compute_matrices(2.0, pva, em) is None, 'absent time')
        # absent but CLOSE times on long time axes (run time, GPS seconds of week, Unix time): one
        # ulp, 1e-9 and 1e-6 relative away from the only stamp - equality of stamps is exact
        import numpy as realnp
        for t0 in (1.0, 1000.0, 345600.0, 1.7e9):
            probe = type(ms)(ms.data.set_axis([t0]), S.var('sd'), *([lever] if getattr(ms, 'imu_to_antenna_b', None) is not None else []))
            for dt_ in (float(realnp.nextafter(t0, realnp.inf)) - t0, -1e-9 * t0, 1e-6 * t0):
                try:
                    got = probe.compute_matrices(t0 + dt_, pva, em)
                except Exception as e_:      # noqa: BLE001
                    got = e_
                Hh('stamp %g: a time %.3g s away from it is absent and returns None' % (t0, dt_), got is None, 'absent time')
        ret = ms.compute_matrices(1.0, pva, em)
        Hh('compute_matrices at a time present in the data returns (z, H, R)', ret is not None and len(ret) == 3, 'present time')
        if ret is None:
            continue
        z1, H, R = ret
        z2 = ms.compute_matrices(1.0, pc, em)[0]
        z1, z2, H, R = S.symnp.asarray(z1), S.symnp.asarray(z2), S.symnp.asarray(H), S.symnp.asarray(R)
        rows = 3 if (wa or cname == 'BodyVelocity') else 2
        Hh('dimensions: z has %d rows, H is %dx%d, R is %dx%d' % (rows, rows, n, rows, rows),
           z1.shape == (rows,) and H.shape == (rows, n) and R.shape == (rows, rows), 'dimensions')
        if z1.shape != (rows,) or H.shape != (rows, n):
            continue
        # (c) noise matrix
        for i in range(R.shape[0]):
            for j in range(R.shape[1]):
                Z('R[%d,%d] = sd^2 * I' % (i, j), J(R[i, j]) - (S.var('sd') * S.var('sd') if i == j else 0), 'noise matrix')
        # (b) H is the derivative of the residual under the library's own correction convention
        Hx = np.dot(H, x)
        for i in range(rows):
            Z('d/d eps [z(pva) - z(correct_pva(pva, eps x))][%d] = (H x)[%d]' % (i, i), (J(z1[i]) - J(z2[i])).part(1) - J(Hx[i]), 'H = dz/dx')
        # (a) residual = INS-predicted minus measured, documented units (independent oracle)
        if cname.startswith('Position'):
            # predicted antenna position minus measured, in NED metres: first order in eps
            off = np.dot(Cnb, lever) if 'lever' in cname else O([0, 0, 0])
            meas_err = O([S.var('m_lat'), S.var('m_lon'), S.var('m_alt')])
            rn, re, rp = m['E'].principal_radii(pva['lat'], pva['alt'])
            deg = S.const(S.DEG)
            want = [-(meas_err[0] * deg * rn) + off[0], -(meas_err[1] * deg * rp) + off[1], meas_err[2] + off[2]]
            for i in range(rows):
                Z('z[%d] order 0 = lever arm in NED' % i, J(z1[i]).part(0) - off[i], 'residual = predicted - measured')
                Z('z[%d] order 1 = -(measured - true) in NED metres' % i, J(z1[i]).part(1) - (want[i] - off[i]), 'residual = predicted - measured')
        elif cname.startswith('NedVelocity'):
            extra = O([0, 0, 0])
            if 'lever' in cname and with_rates:
                extra = np.dot(Cnb, np.cross(pva[RATE_COLS].values, lever))
            mv = O([S.var('mVN'), S.var('mVE'), S.var('mVD')])
            for i in range(rows):
                Z('z[%d] = V_ins (+ C (w x l)) - V_measured' % i, J(z1[i]) - (pva[VEL_COLS].values[i] + extra[i] - mv[i]), 'residual = predicted - measured')
        else:
            vb = np.dot(Cnb.T, pva[VEL_COLS].values)
            mv = O([S.var('mVX'), S.var('mVY'), S.var('mVZ')])
            for i in range(rows):
                Z('z[%d] = (C^T V_ins)[%d] - measured' % (i, i), J(z1[i]) - (vb[i] - mv[i]), 'residual = predicted - measured')
    # results do not depend on earlier queries of the same object (other altitude mode, other state, absent time)
    other = EM.InsErrorModel(not wa)
    for cname in classes:
        ms = meas[cname]
        meta = {'check': 'sequence', 'params': {'wa': wa, 'rates': with_rates, 'cls': cname}}
        first = ms.compute_matrices(1.0, pva, em)
        ms.compute_matrices(1.0, pc, other)
        ms.compute_matrices(2.0, pva, other)
        again = ms.compute_matrices(1.0, pva, em)
        if first is None or again is None:
            continue
        same_shape = all(np.shape(a) == np.shape(b) for a, b in zip(first, again))
        obls.append(enga.holds('%s %s: a query in the other altitude mode does not change the shapes of later results' % (cname, tag),
                               z3.BoolVal(bool(same_shape)), 'queries are independent of earlier queries', meta=meta))
        if same_shape:
            for a, b, nm in zip(first, again, 'zHR'):
                a, b = S.symnp.asarray(a), S.symnp.asarray(b)
                for idx in np.ndindex(a.shape):
                    d = J(a[idx]) - J(b[idx])
                    for k in d.co:
                        obls.append(enga.zero('%s %s: %s%s unchanged by intervening queries (eps^%d)' % (cname, tag, nm, list(idx), k[0]),
                                              d.part(*k), 'queries are independent of earlier queries', meta=meta))
    rep.run.encode(M.Position.compute_matrices, M.NedVelocity.compute_matrices, M.BodyVelocity.compute_matrices,
                   EM.InsErrorModel.position_error_jacobian, EM.InsErrorModel.ned_velocity_error_jacobian,
                   EM.InsErrorModel.body_velocity_error_jacobian, EM.InsErrorModel.correct_pva)
    return obls


def section_sim(rep, mutate=None):
    """simulated measurements with a symbolic error e, evaluated at the true state: z = -e + O(e^2)"""
    import numpy as np
    import pandas as pd
    import z3
    from .. import symreal as S, enga
    from .c05 import sym_pva
    from pyins.util import TRAJECTORY_COLS
    S.new_ctx([('eps', 1)])
    m = enga.install()
    EM, M, SIM = m['EM'], m['M'], m['SIM']
    if mutate:
        mutate(m)
    J, O = S.J, S.O
    eps = S.formal(0)
    pva = sym_pva()
    traj = pva.to_frame().transpose()
    traj.index = [1.0]
    err = O([S.var('n0'), S.var('n1'), S.var('n2')])

    class RNG:
        def randn(self, *shape):
            return np.broadcast_to(err * eps, shape).copy() if shape else err[0] * eps
    for nm in ('SIM',):
        enga._set(m[nm], 'check_random_state', lambda r: RNG())
    em = EM.InsErrorModel(True)
    obls = []
    gens = (('Position', SIM.generate_position_measurements, lambda d: M.Position(d, 1.0)),
            ('NedVelocity', SIM.generate_ned_velocity_measurements, lambda d: M.NedVelocity(d, 1.0)),
            ('BodyVelocity', SIM.generate_body_velocity_measurements, lambda d: M.BodyVelocity(d, 1.0)))
    for cname, gen, mk in gens:
        data = gen(traj, 1.0, rng=0)
        z = S.symnp.asarray(mk(data).compute_matrices(1.0, pva, em)[0])
        meta = {'check': 'sim', 'params': {'cls': cname}}
        for i in range(3):
            obls.append(enga.zero('%s: noise-free simulated measurement at the true state gives zero residual [%d]' % (cname, i), J(z[i]).part(0), 'simulated measurements', meta=meta))
            obls.append(enga.zero('%s: injected error e gives residual -e to first order [%d]' % (cname, i), J(z[i]).part(1) + err[i], 'simulated measurements', meta=meta))
    rep.run.encode(SIM.generate_position_measurements, SIM.generate_ned_velocity_measurements, SIM.generate_body_velocity_measurements)
    return obls


CANARIES = [
    ('Position residual sign', ('M', 'Position.compute_matrices', 'z = transform.compute_lla_difference(', 'z = -transform.compute_lla_difference('), dict(wa=True, with_rates=False, classes=('Position',))),
    ('Position lever arm sign in H', ('EM', 'InsErrorModel.position_error_jacobian', 'result[:, self.PHI] = util.skew_matrix(mat_nb @ imu_to_antenna_b)', 'result[:, self.PHI] = -util.skew_matrix(mat_nb @ imu_to_antenna_b)'), dict(wa=True, with_rates=False, classes=('Position+lever',))),
    ('NedVelocity H ignores the lever arm (pre-fix behaviour)', ('M', 'NedVelocity.compute_matrices', 'error_model.ned_velocity_error_jacobian(pva, self.imu_to_antenna_b)', 'error_model.ned_velocity_error_jacobian(pva)'), dict(wa=True, with_rates=True, classes=('NedVelocity+lever',))),
    ('BodyVelocity H not transposed', ('EM', 'InsErrorModel.body_velocity_error_jacobian', 'result[:, self.DV] = mat_nb.transpose()', 'result[:, self.DV] = mat_nb'), dict(wa=True, with_rates=False, classes=('BodyVelocity',))),
    ('BodyVelocity residual uses C instead of C^T', ('M', 'BodyVelocity.compute_matrices', 'z = mat_nb.T @ pva[VEL_COLS]', 'z = mat_nb @ pva[VEL_COLS]'), dict(wa=True, with_rates=False, classes=('BodyVelocity',))),
    ('2D Position keeps three rows of R', ('M', 'Position.compute_matrices', 'R = R[:2, :2]', 'R = R'), dict(wa=False, with_rates=False, classes=('Position',))),
    ('NedVelocity attitude coupling sign', ('EM', 'InsErrorModel.ned_velocity_error_jacobian', 'result[:, self.PHI] = util.skew_matrix(velocity_n)', 'result[:, self.PHI] = -util.skew_matrix(velocity_n)'), dict(wa=True, with_rates=False, classes=('NedVelocity',))),
    ('membership test inverted', ('M', 'NedVelocity.compute_matrices', 'if time not in self.data.index:', 'if time in self.data.index:'), dict(wa=True, with_rates=False, classes=('NedVelocity',))),
    ('simulated body velocity uses C instead of C^T', 'sim', ('SIM', 'generate_body_velocity_measurements', 'util.mv_prod(mat_nb, trajectory[VEL_COLS], at=True)', 'util.mv_prod(mat_nb, trajectory[VEL_COLS], at=False)')),
]


def run(run):
    import z3
    from .. import enga, common
    from .. import symreal as S
    from .c05 import PVA_BOX, _mut_method
    box = dict(PVA_BOX)
    for i in range(9):
        box['x%d' % i] = (-1, 1)
    for k in ('lx', 'ly', 'lz'):
        box[k] = (-5, 5)
    for k in ('mVN', 'mVE', 'mVD', 'mVX', 'mVY', 'mVZ'):
        box[k] = (-100, 100)
    for k in ('m_lat', 'm_lon', 'm_alt', 'n0', 'n1', 'n2'):
        box[k] = (-1, 1)
    box['sd'] = (0.1, 10)
    rep = enga.AReport(run, box=box)
    rep.definedness = True
    run.assume('exact real arithmetic; |lat|,|pitch| <= 85 deg; error vector scaled by the formal parameter eps, H compared with the eps^1 coefficient of z(pva) - z(correct_pva(pva, eps x))',
               'the measured position equals the state position at order 0 (measurement and state are both within O(eps) of the truth): with an unrelated measured position the mean-latitude radii of compute_lla_difference contribute residual x error cross terms that are second order in the filter\'s sense',
               'measurement tables are real pandas frames with a concrete time index {1.0}; membership of a symbolic time is decided in C09/C10\'s stand-in contract',
               'Rotation / linalg stubs as in C05; RNG of the simulators replaced by symbolic draws')
    timeout = 60 if run.tier == 'quick' else 300
    for wa in (True, False):
        for rates in (True, False):
            obls = section(rep, wa, rates)
            rep.finish(rep.batch(obls, timeout_s=timeout), PROP)
    obls = section_sim(rep)
    rep.finish(rep.batch(obls, timeout_s=timeout), PROP)
    s = z3.Solver()
    s.add(S.C.cons)
    s.add(S.C.dom)
    run.witness('constraint set satisfiable', s.check() == z3.sat)
    rep.selfcheck(PROP, [{'check': 'H', 'point': pt, 'params': {'wa': wa, 'rates': rt, 'cls': c}} for wa in (True, False) for rt in (True, False) for c in CLASSES for pt in rep.points(1 if run.tier == 'quick' else 5)] +
                  [{'check': 'sim', 'point': pt} for pt in rep.points(2)] + [{'check': 'sequence', 'point': {}, 'params': {'wa': w_, 'rates': True, 'cls': c}} for c in CLASSES for w_ in (True, False)])
    for can in CANARIES:
        name = can[0]
        try:
            if can[1] == 'sim':
                obls = section_sim(rep, _mut_method(can[2]))
            else:
                obls = section(rep, mutate=_mut_method(can[1]), **can[2])
        except common.HarnessError as e:
            run.canary(name, False, str(e))
            continue
        except (KeyError, IndexError, ValueError, TypeError) as e:
            # the mutant crashes on valid input: that is a detection too
            run.canary(name, True, 'mutant raises %s: %s' % (type(e).__name__, e))
            continue
        rep.canary(name, obls, timeout_s=10)
    enga.restore()
    run.bounds.update({'series order': 'eps^1', 'configurations': '3 classes x lever arm in {None, symbolic} x body rates in {present, absent} x 2 altitude modes'})


def replay(spec):
    import numpy as np
    import pandas as pd
    from pyins import error_model, transform, measurements, sim
    from pyins.util import TRAJECTORY_COLS, RATE_COLS
    pt = spec['point']
    pr = spec.get('params') or {}
    defaults = dict(lat=40.0, lon=30.0, alt=1000.0, VN=20.0, VE=-10.0, VD=3.0, roll=10.0, pitch=-20.0, heading=100.0,
                    rate_x=0.5, rate_y=-0.3, rate_z=0.8)
    fails = []
    if spec.get('check') == 'sim':
        pva = pd.Series([pt.get(k, defaults[k]) for k in TRAJECTORY_COLS], index=TRAJECTORY_COLS)
        traj = pva.to_frame().transpose()
        traj.index = [1.0]
        em = error_model.InsErrorModel(True)
        for cname, gen, cls in (('Position', sim.generate_position_measurements, measurements.Position),
                                ('NedVelocity', sim.generate_ned_velocity_measurements, measurements.NedVelocity),
                                ('BodyVelocity', sim.generate_body_velocity_measurements, measurements.BodyVelocity)):
            z0 = cls(gen(traj, 0.0, rng=0), 1.0).compute_matrices(1.0, pva, em)[0]
            if np.abs(np.asarray(z0, dtype=float)).max() > 1e-6:
                fails.append('%s: noise-free simulated measurement at the true state gives residual %s' % (cname, np.asarray(z0).tolist()))
            sdv = 1e-3
            e = sdv * np.random.RandomState(5).randn(1, 3)[0]
            z1 = cls(gen(traj, sdv, rng=5), 1.0).compute_matrices(1.0, pva, em)[0]
            if np.abs(np.asarray(z1, dtype=float) + e).max() > 1e-2 * sdv:
                fails.append('%s: injected error e does not give residual -e' % cname)
        return {'violated': bool(fails), 'detail': fails}
    wa, rates, cname = pr.get('wa', True), pr.get('rates', False), pr.get('cls', 'Position')
    cols = TRAJECTORY_COLS + (RATE_COLS if rates else [])
    pva = pd.Series([pt.get(k, defaults[k]) for k in cols], index=cols)
    em = error_model.InsErrorModel(wa)
    n = em.n_states
    x = np.array([pt.get('x%d' % i, 0.3 * (i % 3) - 0.2) for i in range(n)])
    lever = np.array([pt.get('lx', 1.0), pt.get('ly', -2.0), pt.get('lz', 0.5)])
    sd = pt.get('sd', 2.0)
    if cname.startswith('Position'):
        data = pd.DataFrame([[pva.lat + 1e-7 * pt.get('m_lat', 0.3), pva.lon + 1e-7 * pt.get('m_lon', -0.2), pva.alt + 1e-2 * pt.get('m_alt', 0.5)]],
                            columns=['lat', 'lon', 'alt'], index=[1.0])
        ms = measurements.Position(data, sd, lever if 'lever' in cname else None)
    elif cname.startswith('NedVelocity'):
        data = pd.DataFrame([[pt.get('mVN', 19.0), pt.get('mVE', -9.0), pt.get('mVD', 2.0)]], columns=['VN', 'VE', 'VD'], index=[1.0])
        ms = measurements.NedVelocity(data, sd, lever if 'lever' in cname else None)
    else:
        data = pd.DataFrame([[pt.get('mVX', 20.0), pt.get('mVY', 1.0), pt.get('mVZ', 2.0)]], columns=['VX', 'VY', 'VZ'], index=[1.0])
        ms = measurements.BodyVelocity(data, sd)
    if ms.compute_matrices(2.0, pva, em) is not None:
        fails.append('a time absent from the data returned a measurement')
    for t0 in (1.0, 1000.0, 345600.0, 1.7e9):
        probe = type(ms)(ms.data.set_axis([t0]), sd, *([lever] if getattr(ms, 'imu_to_antenna_b', None) is not None else []))
        for dt_ in (float(np.nextafter(t0, np.inf)) - t0, -1e-9 * t0, 1e-6 * t0):
            try:
                got = probe.compute_matrices(t0 + dt_, pva, em)
            except Exception as e_:      # noqa: BLE001
                got = e_
            if got is not None:
                fails.append('stamp %g: the absent time %.17g returned %s instead of None' % (t0, t0 + dt_, 'a measurement' if isinstance(got, tuple) else repr(got)[:80]))
    if spec.get('check') == 'sequence':
        first = ms.compute_matrices(1.0, pva, em)
        other = ms.compute_matrices(1.0, pva, error_model.InsErrorModel(not wa))
        again = ms.compute_matrices(1.0, pva, em)
        # the query in the OTHER altitude mode on the same object has the rows of that mode
        rows_o = 3 if ((not wa) or cname == 'BodyVelocity') else 2
        n_o = error_model.InsErrorModel(not wa).n_states
        if np.shape(other[0]) != (rows_o,) or np.shape(other[1]) != (rows_o, n_o) or np.shape(other[2]) != (rows_o, rows_o):
            fails.append('after a query with with_altitude=%s the same object queried with with_altitude=%s returns z%s H%s R%s, expected %d rows' % (
                wa, not wa, np.shape(other[0]), np.shape(other[1]), np.shape(other[2]), rows_o))
        for a, b, nm in zip(first, again, 'zHR'):
            if np.shape(a) != np.shape(b) or not np.array_equal(np.asarray(a, dtype=float), np.asarray(b, dtype=float)):
                fails.append('%s returned by compute_matrices changed after a query in the other altitude mode: shape %s -> %s' % (nm, np.shape(a), np.shape(b)))
        return {'violated': bool(fails), 'detail': fails}
    ret = ms.compute_matrices(1.0, pva, em)
    if ret is None:
        return {'violated': True, 'detail': ['a time present in the data returned None']}
    z1, H, R = ret
    z1 = np.asarray(z1, dtype=float)
    rows = 3 if (wa or cname == 'BodyVelocity') else 2
    if z1.shape != (rows,) or np.shape(H) != (rows, n) or np.shape(R) != (rows, rows):
        fails.append('dimensions z%s H%s R%s, expected %d rows and %d states' % (z1.shape, np.shape(H), np.shape(R), rows, n))
        return {'violated': True, 'detail': fails}
    if not np.allclose(R, sd ** 2 * np.eye(rows)):
        fails.append('R != sd^2 I')
    errs = []
    for eps in (1e-4, 1e-5):
        pc = em.correct_pva(pva[TRAJECTORY_COLS], eps * x)
        if rates:
            pc = pd.concat([pc, pva[RATE_COLS]])
        z2 = np.asarray(ms.compute_matrices(1.0, pc, em)[0], dtype=float)
        errs.append(np.abs((z1 - z2) / eps - H @ x).max())
    ref = max(1.0, np.abs(H @ x).max())
    if min(errs) > 1e-2 * ref:
        fails.append('H x deviates from the derivative of the residual by %.3g (scale %.3g): H is not the Jacobian of z' % (min(errs), ref))
    C = transform.mat_from_rph(pva[['roll', 'pitch', 'heading']])
    if cname.startswith('NedVelocity'):
        want = pva[['VN', 'VE', 'VD']].values - data.values[0]
        if 'lever' in cname and rates:
            want = want + C @ np.cross(pva[RATE_COLS].values, lever)
        if not np.allclose(z1, want[:rows], atol=1e-9):
            fails.append('z != V_ins (+ C (w x l)) - V_measured')
    elif cname == 'BodyVelocity':
        if not np.allclose(z1, (C.T @ pva[['VN', 'VE', 'VD']].values - data.values[0])[:rows], atol=1e-9):
            fails.append('z != C^T V_ins - measured')
    else:
        want = -transform.lla_to_ned(np.array([data.values[0]]), pva[['lat', 'lon', 'alt']].values)[0]
        if 'lever' in cname:
            want = want + C @ lever
        if not np.allclose(z1, want[:rows], atol=1e-4):
            fails.append('z != predicted antenna position - measured position in NED metres')
        # the same with a measured position some 30 m away (the centimetre offset above cannot show a
        # wrong SCALE of the residual): independent reference through ECEF; the two agree to 2e-4 m on
        # the unchanged code over the whole domain (second-order terms), a scale error of altitude /
        # Earth radius is 5e-3 m at 1 km altitude
        far = np.array([pva.lat + 3e-4 * pt.get('m_lat', 0.3), pva.lon + 3e-4 * pt.get('m_lon', -0.2), pva.alt + 30 * pt.get('m_alt', 0.5)])
        ms2 = measurements.Position(pd.DataFrame([far], columns=['lat', 'lon', 'alt'], index=[1.0]), sd, lever if 'lever' in cname else None)
        zf = np.asarray(ms2.compute_matrices(1.0, pva, em)[0], dtype=float)
        wantf = -transform.lla_to_ned(np.array([far]), pva[['lat', 'lon', 'alt']].values)[0]
        if 'lever' in cname:
            wantf = wantf + C @ lever
        if np.abs(zf - wantf[:rows]).max() > 1e-3:
            fails.append('z for a measured position 30 m away differs from predicted - measured in NED metres by %.3g m (altitude %.0f m)' % (np.abs(zf - wantf[:rows]).max(), pva.alt))
    return {'violated': bool(fails), 'detail': fails}


RIM = {'lat': -84.6, 'lon': 150.0, 'alt': 15000.0, 'VN': 250.0, 'VE': -200.0, 'VD': 5.0, 'roll': 120.0, 'pitch': -60.0, 'heading': -170.0}


def FALLBACK(tier):
    """numeric oracle specs put to the compiled code when the symbolic run is inconclusive (main.py)"""
    return [{'check': 'H', 'point': p, 'params': {'wa': wa, 'rates': rt, 'cls': c}} for wa in (True, False) for rt in (True, False) for c in CLASSES for p in ({}, RIM)] + [{'check': 'sim', 'point': {}}] + [{'check': 'sequence', 'point': {}, 'params': {'wa': w_, 'rates': True, 'cls': c}} for c in CLASSES for w_ in (True, False)]
