"""C18 - state differencing, resampling and perturbation obey their algebra (engine A; table VALUES
symbolic over enumerated concrete time layouts; to_180_range for every real angle)."""
LEVEL = 'other'
PROP = 'C18'


# ------------------------------------------------------------------------------------------
def section_to180(rep, mutate=None):
    """to_180_range(a) in (-180, 180] and congruent to a modulo 360, for every real a; scalar,
    array, Series and DataFrame forms agree"""
    import numpy as np
    import pandas as pd
    import z3
    from .. import symreal as S, enga, paths
    S.new_ctx()
    m = enga.install()
    if mutate:
        mutate(m)
    U = m['U']
    J, O = S.J, S.O
    a = S.var('a')
    S.C.dom += [z3.Real('a') >= -100000, z3.Real('a') <= 100000]
    S.C.mod_mode = 'real'
    out = []

    def body():
        r = U.to_180_range(a)
        ra = U.to_180_range(O([a, a]))
        rs = U.to_180_range(pd.Series([a], index=['x'], dtype=object))
        rf = U.to_180_range(pd.DataFrame([[a]], columns=['x'], dtype=object))
        return r, ra, rs, rf
    ex = paths.Exec(S.C.dom + [S.DEG > 0])

    def with_cons():
        r_ = body()
        return r_
    # the remainder's range [0, 360) lives in the side constraints: the control solver needs it
    import types
    orig_decide = ex.decide

    def decide(cond):
        for c in S.C.cons[getattr(ex, '_ncons', 0):]:
            ex.solver.add(c)
        ex._ncons = len(S.C.cons)
        return orig_decide(cond)
    ex.decide = decide
    res, _ = ex.run(lambda: (setattr(ex, '_ncons', 0), with_cons())[1])
    per_path = []
    for pr in res:
        if pr.status == 'abort' and pr.out == 'INFEASIBLE':
            continue
        if pr.status != 'ok':
            raise RuntimeError('to_180_range failed symbolically: %s' % (pr.out,))
        r, ra, rs, rf = pr.out
        extra = list(pr.pc)
        meta = {'check': 'to180'}
        obls = []
        rr = J(r).c0
        obls.append(enga.holds('to_180_range(a) > -180', rr > -180, 'angle reduction', extra, meta))
        obls.append(enga.holds('to_180_range(a) <= 180', rr <= 180, 'angle reduction', extra, meta))
        # congruence: the result differs from (a % 360) by 0 or +-360; a % 360 is congruent to a by
        # the contract of `%`
        rem = [v for (v, _c0) in [x for k_, x in S.C.memo.items() if k_[0] == 'mod']]
        cong = z3.Or([z3.Or(rr == v, rr == v - 360, rr == v + 360) for v in rem]) if rem else z3.BoolVal(False)
        obls.append(enga.holds('to_180_range(a) = (a mod 360) - 360 j, j in {-1, 0, 1}', cong, 'angle reduction', extra, meta))
        for nm, other in (('array', ra[0]), ('array[1]', ra[1]), ('Series', rs.iloc[0]), ('DataFrame', rf.iloc[0, 0])):
            obls.append(enga.zero('%s form = scalar form' % nm, J(other) - J(r), 'angle reduction', extra, meta))
        per_path.append(obls)
    rep.run.encode(U.to_180_range)
    return per_path


def _int_vars(cons):
    import z3
    seen = {}
    stack = list(cons)
    ids = set()
    while stack:
        t = stack.pop()
        if t.get_id() in ids:
            continue
        ids.add(t.get_id())
        if z3.is_const(t) and t.decl().kind() == z3.Z3_OP_UNINTERPRETED and z3.is_int(t):
            seen[str(t)] = t
        stack += t.children()
    return list(seen.values())


# ------------------------------------------------------------------------------------------
def _sym_state(S, tag, cols, wrap=None):
    import pandas as pd
    vals = []
    for c in cols:
        if c in ('lat',):
            v = S.declare_angle('%s_%s' % (tag, c), -85, 85)
            v.deg2rad().cos()
        else:
            v = S.var('%s_%s' % (tag, c))
        vals.append(v)
    return pd.Series(vals, index=cols, dtype=object)


def section_series(rep, mutate=None, regime='nowrap'):
    """Series pairs: antisymmetry, self-difference zero, range of the angle columns"""
    import numpy as np
    import pandas as pd
    import z3
    from .. import symreal as S, enga, paths
    from pyins.util import TRAJECTORY_COLS
    S.new_ctx()
    m = enga.install()
    if mutate:
        mutate(m)
    T = m['T']
    J = S.J
    S.C.mod_mode = 'split'
    S.C.mod_split = 3
    A = _sym_state(S, 'A', TRAJECTORY_COLS)
    B = _sym_state(S, 'B', TRAJECTORY_COLS)
    for tag in 'AB':
        S.C.dom += [z3.Real('%s_alt' % tag) >= -1000, z3.Real('%s_alt' % tag) <= 30000]
        for c in ('roll', 'pitch', 'heading', 'lon'):
            S.C.dom += [z3.Real('%s_%s' % (tag, c)) >= -360, z3.Real('%s_%s' % (tag, c)) <= 360]
    # the wrap decisions are implied inside a regime (one path each); exact +-180 differences are excluded
    dh = z3.Real('A_heading') - z3.Real('B_heading')
    dr = z3.Real('A_roll') - z3.Real('B_roll')
    dp = z3.Real('A_pitch') - z3.Real('B_pitch')
    small = lambda d: [d > -180, d < 180]
    if regime == 'nowrap':
        S.C.dom += small(dh) + small(dr) + small(dp)
    elif regime == 'heading_up':
        S.C.dom += [dh > 180, dh < 540] + small(dr) + small(dp)
    elif regime == 'heading_down':
        S.C.dom += [dh < -180, dh > -540] + small(dr) + small(dp)
    elif regime == 'roll_up':
        S.C.dom += [dr > 180, dr < 540] + small(dh) + small(dp)
    out = {}

    def body():
        return T.compute_state_difference(A, B), T.compute_state_difference(B, A), T.compute_state_difference(A, A)
    ex = paths.Exec(S.C.dom + S.deg_domain())
    res, _ = ex.run(body, max_paths=64)
    per_path = []
    for pr in res:
        if pr.status == 'abort' and pr.out == 'INFEASIBLE':
            continue
        if pr.status != 'ok':
            raise RuntimeError('compute_state_difference failed symbolically: %s' % (pr.out,))
        dab, dba, daa = pr.out
        extra = list(pr.pc)
        meta = {'check': 'series', 'params': {'regime': regime}}
        obls = [enga.holds('%s: difference is indexed north, east, down, VN, VE, VD, roll, pitch, heading' % regime,
                           z3.BoolVal(list(dab.index) == ['north', 'east', 'down', 'VN', 'VE', 'VD', 'roll', 'pitch', 'heading']), 'Series difference', extra, meta)]
        for i, c in enumerate(dab.index):
            obls.append(enga.zero('%s: d(A,B).%s = -d(B,A).%s' % (regime, c, c), J(dab.iloc[i]) + J(dba.iloc[i]), 'Series difference', extra, meta))
            obls.append(enga.zero('%s: d(A,A).%s = 0' % (regime, c), J(daa.iloc[i]), 'Series difference', extra, meta))
        for c, d in (('roll', dr), ('pitch', dp), ('heading', dh)):
            v = J(dab[c]).c0
            obls.append(enga.holds('%s: %s difference in (-180, 180]' % (regime, c), z3.And(v > -180, v <= 180), 'Series difference', extra, meta))
            k = z3.Int('kk_%s' % c)
            obls.append(enga.holds('%s: %s difference congruent to the raw difference modulo 360' % (regime, c),
                                   z3.Or([v == d - 360 * j for j in (-2, -1, 0, 1, 2)]), 'Series difference', extra, meta))
        obls.append(enga.zero('%s: down = -(alt difference)' % regime, J(dab['down']) + (A['alt'] - B['alt']), 'Series difference', extra, meta))
        for c in ('VN', 'VE', 'VD'):
            obls.append(enga.zero('%s: %s difference' % (regime, c), J(dab[c]) - (A[c] - B[c]), 'Series difference', extra, meta))
        per_path.append(obls)
    rep.run.encode(T.compute_state_difference)
    return per_path


def section_perturb(rep, mutate=None):
    """difference recovers to first order the error used to perturb a state"""
    import z3
    from .. import symreal as S, enga
    from .c05 import sym_pva
    from pyins.util import TRAJECTORY_ERROR_COLS
    import pandas as pd
    S.new_ctx([('eps', 1)])
    m = enga.install()
    if mutate:
        mutate(m)
    T, SIM = m['T'], m['SIM']
    J = S.J
    eps = S.formal(0)
    from .. import paths
    pva = sym_pva()
    S.C.mod_mode = 'real'
    e = pd.Series([S.var('e_%s' % c) for c in TRAJECTORY_ERROR_COLS], index=TRAJECTORY_ERROR_COLS, dtype=object)
    ex = paths.Exec(S.C.dom + S.deg_domain())
    orig = ex.decide

    def decide(cond):
        for c_ in S.C.cons[getattr(ex, '_nc', 0):]:
            ex.solver.add(c_)
        ex._nc = len(S.C.cons)
        return orig(cond)
    ex.decide = decide
    res, _ = ex.run(lambda: (setattr(ex, '_nc', 0), T.compute_state_difference(SIM.perturb_pva(pva, e * eps), pva))[1], max_paths=32)
    meta = {'check': 'perturb'}
    obls = []
    for pr in res:
        if pr.status == 'abort' and pr.out == 'INFEASIBLE':
            continue
        if pr.status != 'ok':
            raise RuntimeError('perturbation section failed symbolically: %s' % (pr.out,))
        d = pr.out
        extra = list(pr.pc)
        for i, c in enumerate(TRAJECTORY_ERROR_COLS):
            obls.append(enga.zero('d(perturb_pva(p, eps e), p).%s = eps e.%s + O(eps^2)' % (c, c), J(d.iloc[i]).part(1) - e.iloc[i], 'perturbation recovered', extra, meta))
            obls.append(enga.zero('order 0: d(p, p).%s = 0' % c, J(d.iloc[i]).part(0), 'perturbation recovered', extra, meta))
    rep.run.encode(SIM.perturb_pva)
    return obls


def section_perturb_finite(rep, mutate=None):
    """FINITE perturbations (no formal parameter): a pure east or pure down displacement is
    recovered EXACTLY by the difference functions, for every longitude in [-180, 180] including a
    displacement that carries the point across the antimeridian; and perturb_lla adds exactly
    east/((R_E+h) cos lat) to the longitude"""
    import numpy as np
    import pandas as pd
    import z3
    from .. import symreal as S, enga, paths
    from .c05 import sym_pva
    S.new_ctx()
    m = enga.install()
    if mutate:
        mutate(m)
    T, SIM, E = m['T'], m['SIM'], m['E']
    J, O = S.J, S.O
    S.C.mod_mode = 'real'
    pva = sym_pva()
    de, dd = S.var('east'), S.var('down')
    S.C.dom += [z3.Real('east') >= -100000, z3.Real('east') <= 100000, z3.Real('down') >= -1000, z3.Real('down') <= 1000]
    lla = pva[['lat', 'lon', 'alt']].values

    cols9 = ['north', 'east', 'down', 'VN', 'VE', 'VD', 'roll', 'pitch', 'heading']

    def body():
        # east only and down only (a combined displacement changes the mean altitude at which the
        # east difference is scaled: exact recovery holds for each alone)
        p1 = T.perturb_lla(lla, O([0, de, 0]))
        d1 = T.compute_lla_difference(p1, lla)
        d2 = T.compute_state_difference(SIM.perturb_pva(pva, pd.Series([J(0), de] + [J(0)] * 7, index=cols9, dtype=object)), pva)
        p3 = T.perturb_lla(lla, O([0, 0, dd]))
        d3 = T.compute_lla_difference(p3, lla)
        return p1, d1, d2, p3, d3
    ex = paths.Exec(S.C.dom + S.deg_domain())
    orig = ex.decide

    def decide(cond):
        for c in S.C.cons[getattr(ex, '_nc', 0):]:
            ex.solver.add(c)
        ex._nc = len(S.C.cons)
        return orig(cond)
    ex.decide = decide
    res, _ = ex.run(lambda: (setattr(ex, '_nc', 0), body())[1], max_paths=32)
    per_path = []
    rn, re, rp = E.principal_radii(pva['lat'], pva['alt'])
    for pr in res:
        if pr.status == 'abort' and pr.out == 'INFEASIBLE':
            continue
        if pr.status != 'ok':
            raise RuntimeError('finite perturbation failed symbolically: %s' % (pr.out,))
        p1, d1, d2, p3, d3 = pr.out
        extra = list(pr.pc)
        meta = {'check': 'perturb_finite'}
        obls = []
        Z = lambda nm, e_: obls.append(enga.zero(nm, e_, 'finite perturbation recovered exactly', extra, meta))
        Z('perturb_lla: longitude moves by east / ((R_E + h) cos lat), as a plain number', (J(p1[1]) - pva['lon']) * S.const(S.DEG) * rp - de)
        Z('perturb_lla: latitude unchanged by an east displacement', J(p1[0]) - pva['lat'])
        Z('perturb_lla: altitude unchanged by an east displacement', J(p1[2]) - pva['alt'])
        Z('compute_lla_difference(perturb_lla(lla, (0, e, 0)), lla).east = e exactly', J(d1[1]) - de)
        Z('compute_lla_difference(perturb_lla(lla, (0, e, 0)), lla).north = 0', J(d1[0]))
        Z('compute_lla_difference(perturb_lla(lla, (0, e, 0)), lla).down = 0', J(d1[2]))
        Z('compute_state_difference(perturb_pva(p, east e), p).east = e exactly', J(d2['east']) - de)
        Z('perturb_lla: altitude moves by -down', J(p3[2]) - pva['alt'] + dd)
        Z('compute_lla_difference(perturb_lla(lla, (0, 0, d)), lla).down = d exactly', J(d3[2]) - dd)
        Z('compute_lla_difference(perturb_lla(lla, (0, 0, d)), lla).east = 0', J(d3[1]))
        per_path.append(obls)
    return per_path


# ------------------------------------------------------------------------------------------
class _Interp1d:
    """scipy.interpolate.interp1d(x, y, axis=0): exact at nodes, linear in between (contract)"""

    def __init__(self, x, y, axis=0, **kw):
        import numpy as np
        self.x = [float(v) for v in x]
        self.y = np.asarray(y, dtype=object)

    def __call__(self, t):
        import numpy as np
        out = []
        for q in np.atleast_1d(t):
            q = float(q)
            if q < self.x[0] or q > self.x[-1]:
                raise ValueError('A value in x_new is outside the interpolation range.')
            j = max(k for k in range(len(self.x)) if self.x[k] <= q)
            if self.x[j] == q:
                out.append(self.y[j])
            else:
                w = (q - self.x[j]) / (self.x[j + 1] - self.x[j])
                import fractions
                w = fractions.Fraction(w)
                out.append(self.y[j] * (1 - w) + self.y[j + 1] * w)
        return np.array(out, dtype=object)


class _Slerp:
    """scipy Slerp: returns the node rotations at node times (between nodes: geodesic
    interpolation - not modelled, the layouts with attitude columns query node times only)"""

    def __init__(self, times, rotations):
        self.t = [float(v) for v in times]
        self.r = rotations

    def __call__(self, times):
        import numpy as np
        from ..symscipy import Rot
        from .. import symreal as S
        mats = []
        for q in np.atleast_1d(times):
            q = float(q)
            if q not in self.t:
                raise NotImplementedError('Slerp between nodes is outside the model')
            mats.append(self.r.m[self.t.index(q)])
        return Rot(S.O(mats))


LAYOUTS = [
    # (name, times A, times B, columns)
    ('equal', [0.0, 1.0], [0.0, 1.0], 'all'),
    ('nested (B = A[::2])', [0.0, 0.5, 1.0], [0.0, 1.0], 'all-node'),
    ('offset, partial overlap', [0.0, 1.0, 2.0], [0.5, 1.5, 2.5], 'linear'),
    ('different rates', [0.0, 0.5, 1.0, 1.5, 2.0], [0.0, 1.0, 2.0], 'linear'),
    ('partial span', [0.0, 1.0, 2.0, 3.0], [1.0, 2.0], 'all'),
    # a table is identified by its column NAMES: attitude columns first / in between must behave alike
    ('equal stamps, permuted columns', [0.0, 1.0], [0.0, 1.0], 'permuted'),
]
PERMUTED = ['roll', 'lat', 'lon', 'heading', 'alt', 'VN', 'pitch', 'VE', 'VD']


def section_frames(rep, li, mutate=None):
    """DataFrame branch on one concrete time layout with symbolic values"""
    import numpy as np
    import pandas as pd
    import z3
    from .. import symreal as S, enga, paths
    name, ta, tb, colsel = LAYOUTS[li]
    S.new_ctx()
    m = enga.install()
    T = m['T']
    enga._set(T, 'interp1d', _Interp1d)
    enga._set(T, 'Slerp', _Slerp)
    if mutate:
        mutate(m)
    J = S.J
    S.C.mod_mode = 'split'
    S.C.mod_split = 3
    cols = ['lat', 'lon', 'alt', 'VN', 'VE', 'VD'] + (['roll', 'pitch', 'heading'] if colsel != 'linear' else [])
    if colsel == 'permuted':
        cols = list(PERMUTED)

    def frame(tag, times):
        rows = []
        for k, t in enumerate(times):
            row = []
            for c in cols:
                if c == 'lat':
                    v = S.declare_angle('%s%d_lat' % (tag, k), -85, 85)
                    v.deg2rad().cos()
                else:
                    v = S.var('%s%d_%s' % (tag, k, c))
                    if c in ('roll', 'pitch', 'heading', 'lon'):
                        S.C.dom += [z3.Real('%s%d_%s' % (tag, k, c)) >= -180, z3.Real('%s%d_%s' % (tag, k, c)) <= 180]
                    if c == 'alt':
                        S.C.dom += [z3.Real('%s%d_alt' % (tag, k)) >= -1000, z3.Real('%s%d_alt' % (tag, k)) <= 30000]
                row.append(v)
            rows.append(row)
        return pd.DataFrame(rows, columns=cols, index=pd.Index(times, name='time'), dtype=object)
    A = frame('A', ta)
    B = frame('B', tb)
    if colsel == 'all-node':
        # B is a sub-sampling of A: its rows ARE rows of A
        B = A.iloc[::2].copy()
    # angle differences stay away from the wrap (the wrap itself is decided on Series pairs)
    if colsel != 'linear':
        for i in range(len(ta)):
            for j in range(len(tb)):
                for c in ('roll', 'pitch', 'heading'):
                    d = J(A[c].values[i]).c0 - J(B[c].values[j]).c0
                    S.C.dom += [d > -180, d < 180]

    def body():
        dab = T.compute_state_difference(A, B)
        dba = T.compute_state_difference(B, A)
        daa = T.compute_state_difference(A, A)
        rs = T.resample_state(A, np.array(sorted(set(ta) | {ta[0] - 1.0, ta[-1] + 1.0})))
        mid = None
        if colsel == 'linear':
            mid = T.resample_state(A, np.array([0.5 * (ta[0] + ta[1])]))
        return dab, dba, daa, rs, mid
    ex = paths.Exec(S.C.dom + S.deg_domain())
    res, _ = ex.run(body, max_paths=16)
    per_path = []
    common_t = sorted(t for t in (set(ta) if len(ta) >= len(tb) else set(tb)) if max(ta[0], tb[0]) <= t <= min(ta[-1], tb[-1]))
    for pr in res:
        if pr.status == 'abort' and pr.out == 'INFEASIBLE':
            continue
        if pr.status != 'ok':
            raise RuntimeError('layout %s failed symbolically: %s' % (name, pr.out))
        dab, dba, daa, rs, mid = pr.out
        extra = list(pr.pc)
        meta = {'check': 'frames', 'params': {'layout': li}}
        obls = []
        H = lambda nm, ok: obls.append(enga.holds('layout %s: %s' % (name, nm), z3.BoolVal(bool(ok)), 'table difference and resampling', extra, meta))
        Z = lambda nm, e_: obls.append(enga.zero('layout %s: %s' % (name, nm), e_, 'table difference and resampling', extra, meta))
        H('d(A,B) and d(B,A) are indexed by the same times', list(dab.index) == list(dba.index))
        H('difference is indexed by the denser table\'s times inside the common span', len(dab.index) > 0 and all(float(t) in ta or float(t) in tb for t in dab.index))
        H('column order kept', list(dab.columns) == [{'lat': 'north', 'lon': 'east', 'alt': 'down'}.get(c, c) for c in cols])
        if list(dab.index) == list(dba.index) and list(dab.columns) == list(dba.columns):
            for i in range(len(dab.index)):
                for c in dab.columns:
                    Z('antisymmetry at t=%s, %s' % (dab.index[i], c), J(dab[c].values[i]) + J(dba[c].values[i]))
        for i in range(len(daa.index)):
            for c in daa.columns:
                Z('d(A,A) = 0 at t=%s, %s' % (daa.index[i], c), J(daa[c].values[i]))
        if colsel == 'all-node':
            for i in range(len(dab.index)):
                for c in dab.columns:
                    Z('difference against a sub-sampling of itself is zero at t=%s, %s' % (dab.index[i], c), J(dab[c].values[i]))
        # resampling: original rows at original times, outside times dropped, column order
        H('resampling drops times outside the span', [float(t) for t in rs.index] == ta)
        H('resampling keeps the column order', list(rs.columns) == cols)
        if [float(t) for t in rs.index] == ta and list(rs.columns) == cols:
            for i in range(len(ta)):
                for c in cols:
                    Z('resampling reproduces the original row at t=%s, %s' % (ta[i], c), J(rs[c].values[i]) - J(A[c].values[i]))
        if mid is not None:
            for c in cols:
                Z('linear interpolation at the midpoint, %s' % c, J(mid[c].values[0]) * 2 - J(A[c].values[0]) - J(A[c].values[1]))
        per_path.append(obls)
    rep.run.encode(T.compute_state_difference, T.resample_state)
    return per_path


CANARIES = [
    ('angle reduction boundary', 'to180', ('U', 'to_180_range', 'elif result > 180:', 'elif result >= 180:')),
    ('array form wraps at the wrong side', 'to180', ('U', 'to_180_range', 'result[result > 180] -= 360', 'result[result > 180] += 360')),
    ('swap branch forgets the sign', 'frames', ('T', 'compute_state_difference', 'result_sign = -1.0', 'result_sign = 1.0'), 3),
    ('down difference sign', 'series', ('T', 'compute_state_difference', 'difference.alt *= -1', 'difference.alt *= 1')),
    ('angle columns not reduced', 'series_up', ('T', 'compute_state_difference', 'difference[RPH_COLS] = util.to_180_range(difference[RPH_COLS])', 'pass')),
    ('perturb_lla wraps the longitude', 'finite', ('T', 'perturb_lla', 'lla[:, 1] += np.rad2deg(dr_n[:, 1] / rp)', 'lla[:, 1] = util.to_180_range(lla[:, 1] + np.rad2deg(dr_n[:, 1] / rp))')),
    ('resampling keeps outside times', 'frames', ('T', 'resample_state', '(times <= state.index[-1])', '(times <= state.index[-1] + 10)'), 0),
    ('resampling reorders columns', 'frames', ('T', 'resample_state', 'return result[state.columns]', 'return result'), 0),
]


def run(run):
    import z3
    from .. import enga, common
    from .. import symreal as S
    from .c05 import PVA_BOX, _mut_method
    from .c17 import _mut
    box = {'a': (-1000, 1000)}
    for tag in 'AB':
        for c, rg in (('lat', (-80, 80)), ('lon', (-170, 170)), ('alt', (0, 1000)), ('VN', (-50, 50)), ('VE', (-50, 50)), ('VD', (-5, 5)),
                      ('roll', (-170, 170)), ('pitch', (-80, 80)), ('heading', (-170, 170))):
            box['%s_%s' % (tag, c)] = rg
            for k in range(6):
                box['%s%d_%s' % (tag, k, c)] = rg
    box.update(PVA_BOX)
    rep = enga.AReport(run, box=box)
    run.assume('to_180_range: every real angle (|a| <= 1e5), mixed integer-real arithmetic (a = 360 q + r)',
               'difference algebra: table VALUES symbolic; time LAYOUTS concrete and enumerated (%d: equal, nested, offset, two rates, partial span) because median / .loc / interval search over symbolic stamps inside pandas are not encodable - the layout dimension of the quantifier is sampled, not decided' % len(LAYOUTS),
               'angle wrap: Series pairs in the regimes no-wrap / heading wraps up / heading wraps down / roll wraps up (differences exactly +-180 excluded: there antisymmetry and the half-open range cannot both hold); inside frames angle differences stay away from the wrap',
               'interp1d / Slerp stubs: exact at nodes, linear between nodes for non-attitude columns; Slerp between nodes (shortest-rotation interpolation) is scipy\'s contract and is not modelled: layouts with attitude columns query node times only',
               'exact real arithmetic: the 1e-14 deg self-difference of angle columns through scipy\'s Euler round trip is a rounding effect and outside')
    timeout = 60 if run.tier == 'quick' else 300
    n_paths = 0
    pp = section_to180(rep)
    n_paths = len(pp)
    rep.finish(rep.batch([o for p_ in pp for o in p_], timeout_s=timeout), PROP)
    run.witness('to_180_range explored on more than one wrap path', n_paths >= 2)
    for regime in ('nowrap', 'heading_up', 'heading_down', 'roll_up'):
        rep.finish(rep.batch([o for p_ in section_series(rep, regime=regime) for o in p_], timeout_s=timeout), PROP)
    rep.finish(rep.batch(section_perturb(rep), timeout_s=timeout), PROP)
    rep.finish(rep.batch([o for p_ in section_perturb_finite(rep) for o in p_], timeout_s=timeout), PROP)
    for li in range(len(LAYOUTS)):
        try:
            pp_ = section_frames(rep, li)
        except RuntimeError as e:
            # the code left the modelled behaviour on this layout (e.g. evaluates an interpolant
            # outside its nodes): ask the compiled code on the same layout
            spec = {'kind': 'numeric', 'check': 'frames', 'point': {}, 'params': {'layout': li}, 'obligation': 'table operations on layout %d' % li}
            res = common.run_replays([dict(spec, property=PROP)])[0]
            if res.get('violated'):
                run.violation('layout %d: symbolic execution left the model (%s); real code: %s' % (li, str(e)[:160], res.get('detail')), common.write_replay(PROP, spec), res.get('detail'))
            else:
                run.error('layout %d: symbolic execution failed (%s) and the compiled code satisfies the oracle - inconclusive' % (li, str(e)[:200]))
            run.family('table operations', 1, 0, 0.0)
            continue
        rep.finish(rep.batch([o for p_ in pp_ for o in p_], timeout_s=timeout), PROP)
    rep.selfcheck(PROP, [{'check': 'to180', 'point': {'a': a_}} for a_ in (190.0, -725.5, 1e4 + 0.25)] + [{'check': 'series', 'point': {}}, {'check': 'perturb_finite', 'point': {}}] +
                  [{'check': 'frames', 'point': {}, 'params': {'layout': li}} for li in range(len(LAYOUTS)) if li != 2])
    for can in CANARIES:
        name, sec, spec = can[:3]
        try:
            if sec == 'to180':
                obls = [o for p in section_to180(rep, _mut(spec)) for o in p]
            elif sec == 'series':
                obls = [o for p in section_series(rep, _mut(spec), 'nowrap') for o in p]
            elif sec == 'finite':
                obls = [o for p in section_perturb_finite(rep, _mut(spec)) for o in p]
            elif sec == 'series_up':
                obls = [o for p in section_series(rep, _mut(spec), 'heading_up') for o in p]
            else:
                obls = [o for p in section_frames(rep, can[3], _mut(spec)) for o in p]
        except common.HarnessError as e:
            run.canary(name, False, str(e))
            continue
        except (KeyError, ValueError, IndexError, TypeError, RuntimeError) as e:
            run.canary(name, True, 'mutant raises %s: %s' % (type(e).__name__, str(e)[:120]))
            continue
        rep.canary(name, obls, timeout_s=8)
    enga.restore()
    run.bounds.update({'layouts': [l[0] for l in LAYOUTS], 'rows per table': '<= 5'})


def replay(spec):
    import numpy as np
    import pandas as pd
    from pyins import util, transform, sim
    from pyins.util import TRAJECTORY_COLS, TRAJECTORY_ERROR_COLS
    chk = spec.get('check')
    pt = spec.get('point') or {}
    fails = []
    if chk == 'to180':
        for a in [pt.get('a', 190.0), 180.0, -180.0, 540.0, -540.0, 179.99999, 180.00001, 0.0, 360.0, 1e5 + 0.5, -12345.678]:
            r = float(util.to_180_range(a))
            if not (-180 < r <= 180) or abs(((r - a) / 360) - round((r - a) / 360)) > 1e-9:
                fails.append('to_180_range(%r) = %r' % (a, r))
            ra = util.to_180_range(np.array([a, a]))
            rs = util.to_180_range(pd.Series([a]))
            if float(ra[0]) != r or float(rs.iloc[0]) != r:
                fails.append('array/Series form of to_180_range(%r) differs from the scalar form' % a)
        return {'violated': bool(fails), 'detail': fails}
    if chk == 'perturb_finite':
        for lon in (pt.get('lon', 30.0), 179.9999, -179.9999, 180.0, 0.0, -30.0):
            for e_ in (pt.get('east', 15.0), 15.0, -15.0, 1000.0):
                lla = np.array([pt.get('lat', 40.0), lon, pt.get('alt', 100.0)])
                p1 = transform.perturb_lla(lla, [0.0, e_, 0.0])
                d1 = transform.compute_lla_difference(p1, lla)
                pv = pd.Series([lla[0], lla[1], lla[2], 1.0, 2.0, 0.1, 3.0, 4.0, 50.0], index=TRAJECTORY_COLS)
                er = pd.Series([0.0, e_, 0.0, 0, 0, 0, 0, 0, 0], index=TRAJECTORY_ERROR_COLS, dtype=float)
                d2 = transform.compute_state_difference(sim.perturb_pva(pv, er), pv)
                d3 = transform.compute_lla_difference(transform.perturb_lla(lla, [0.0, 0.0, 2.0]), lla)
                tol = 1e-6 + 1e-9 * abs(e_)
                if abs(d1[1] - e_) > tol or abs(d3[2] - 2.0) > 1e-8 or abs(d2['east'] - e_) > tol:
                    fails.append('lon=%r east=%r: difference returns east %.6g / %.6g instead of the displacement' % (lon, e_, d1[1], d2['east']))
        return {'violated': bool(fails), 'detail': fails[:3]}
    rng = np.random.RandomState(7)
    base = np.array([50.0, 30.0, 100.0, 5.0, -3.0, 0.5, 10.0, -20.0, 100.0])
    if chk in ('series', 'perturb'):
        for trial in range(20):
            A = pd.Series(base + rng.randn(9) * [1e-3, 1e-3, 10, 1, 1, 1, 100, 20, 200], index=TRAJECTORY_COLS)
            B = pd.Series(base + rng.randn(9) * [1e-3, 1e-3, 10, 1, 1, 1, 100, 20, 200], index=TRAJECTORY_COLS)
            dab, dba, daa = (transform.compute_state_difference(x, y) for x, y in ((A, B), (B, A), (A, A)))
            if list(dab.index) != TRAJECTORY_ERROR_COLS:
                fails.append('difference index %s' % list(dab.index))
                break
            if np.abs(dab.values + dba.values).max() > 1e-9 and not np.any(np.abs(np.abs(dab.values[6:]) - 180) < 1e-9):
                fails.append('d(A,B) != -d(B,A)')
            if np.any(daa.values != 0):
                fails.append('d(A,A) != 0')
            if np.any(dab.values[6:] <= -180) or np.any(dab.values[6:] > 180):
                fails.append('angle differences outside (-180, 180]')
            if np.abs(((dab.values[6:] - (A.values[6:] - B.values[6:])) / 360) - np.round((dab.values[6:] - (A.values[6:] - B.values[6:])) / 360)).max() > 1e-9:
                fails.append('angle differences not congruent to the raw differences')
            if abs(dab['down'] + (A['alt'] - B['alt'])) > 1e-9 or np.abs(dab.values[3:6] - (A.values[3:6] - B.values[3:6])).max() > 1e-12:
                fails.append('down / velocity differences wrong')
            e = pd.Series(rng.randn(9) * 1e-3, index=TRAJECTORY_ERROR_COLS)
            d = transform.compute_state_difference(sim.perturb_pva(A, e), A)
            if np.abs(d.values - e.values).max() > 1e-6:
                fails.append('difference does not recover the perturbation to first order')
            if fails:
                break
        return {'violated': bool(fails), 'detail': fails[:3]}
    # frames
    li = (spec.get('params') or {}).get('layout', 0)
    name, ta, tb, colsel = LAYOUTS[li]
    cols = TRAJECTORY_COLS if colsel != 'linear' else TRAJECTORY_COLS[:6]
    mk = lambda times: pd.DataFrame(base[:len(cols)] + rng.randn(len(times), len(cols)) * ([1e-3, 1e-3, 10, 1, 1, 1, 3, 3, 3][:len(cols)]),
                                    columns=cols, index=pd.Index(times, name='time'))
    A, B = mk(ta), mk(tb)
    if colsel == 'permuted':
        A, B = A[PERMUTED], B[PERMUTED]
    if colsel == 'all-node':
        B = A.iloc[::2].copy()
    dab, dba, daa = transform.compute_state_difference(A, B), transform.compute_state_difference(B, A), transform.compute_state_difference(A, A)
    if list(dab.index) != list(dba.index) or np.abs(dab.values + dba.values).max() > 1e-9:
        fails.append('layout %s: d(A,B) != -d(B,A)' % name)
    lin = [c for c in daa.columns if c not in ('roll', 'pitch', 'heading')]
    if np.any(daa[lin].values != 0) or np.abs(daa.values).max() > 1e-9:
        fails.append('layout %s: d(A,A) != 0' % name)
    if colsel == 'all-node' and (np.any(dab[lin].values != 0) or np.abs(dab.values).max() > 1e-9):
        fails.append('layout %s: difference against a sub-sampling of itself is not zero' % name)
    try:
        rs = transform.resample_state(A, np.array(sorted(set(ta) | {ta[0] - 1.0, ta[-1] + 1.0})))
    except Exception as e:      # noqa: BLE001
        rs = None
        fails.append('layout %s: resample_state raises %s (%s) for requested times beyond the span, which are documented to be dropped' % (name, type(e).__name__, str(e)[:100]))
    if rs is not None and (list(rs.index) != ta or list(rs.columns) != list(A.columns) or np.abs(rs.values - A.values).max() > 1e-9):
        fails.append('layout %s: resampling does not reproduce the original rows / drops outside times / keeps the column order (columns %s -> %s)' % (name, list(A.columns), list(rs.columns)))
    want_cols = [{'lat': 'north', 'lon': 'east', 'alt': 'down'}.get(c, c) for c in A.columns]
    if list(dab.columns) != want_cols:
        fails.append('layout %s: the difference table does not keep the column order (%s -> %s)' % (name, want_cols, list(dab.columns)))
    return {'violated': bool(fails), 'detail': fails}


RIM = {'lat': -84.6, 'lon': 150.0, 'alt': 15000.0, 'VN': 250.0, 'VE': -200.0, 'VD': 5.0, 'roll': 120.0, 'pitch': -60.0, 'heading': -170.0}


def FALLBACK(tier):
    """numeric oracle specs put to the compiled code when the symbolic run is inconclusive (main.py)"""
    return [{'check': 'to180', 'point': {'a': a_}} for a_ in (190.0, -725.5, 1e4 + 0.25, -180.0, 540.0)] + [{'check': 'series', 'point': {}}, {'check': 'perturb_finite', 'point': {}}] + [{'check': 'frames', 'point': {}, 'params': {'layout': li}} for li in range(len(LAYOUTS)) if li != 2]
