"""C12 - feedback filter: transparent without data, first-order equal to feedforward.
Claimed: (a) transparency, bit-exact (engine B on the real loop + FloatingPoint lemmas + C02),
(c) re-running with the same model objects reproduces the results (engine B with garbage in the
models' estimate state), (b') one-step feedback consistency of the sensor-model feedback
(engine A). The whole-run first-order equivalence with the feedforward filter is OUTSIDE."""
LEVEL = 'model_checking'
PROP = 'C12'


def _contains(k, target, memo):
    from ..symtime import K
    if k is target:
        return True
    if not isinstance(k, K):
        return False
    if k.id in memo:
        return memo[k.id]
    memo[k.id] = False
    r = any(_contains(x, target, memo) for x in k.t)
    memo[k.id] = r
    return r


def _checkers():
    from .. import filtercheck as fc
    from ..symtime import K, mk, _key, Tok, T

    class Transparent(fc.Checker):
        """no measurement falls inside [start, end): the loop must be plain integration"""

        def __init__(self, prop, cfg, sample_mod=1):
            import z3
            fc.Checker.__init__(self, prop, cfg, sample_mod)
            h = self.h
            # all sensor stamps outside the processed span
            for name in h.mts:
                for m in h.mts[name]:
                    self.pre.append(z3.Or(m.v < h.ts[0].v, m.v >= h.ts[-1].v))
            h.pre = self.pre

        def extra_obligations(self, ex, res, log, out, add):
            h = self.h
            out['nobl'] += 3
            bad = [e[0] for e in log if e[0] in ('predict', 'correct', 'set_pva', 'update', 'meas')]
            if bad:
                add('not_transparent', 'without a measurement in the span the loop still performs %s' % sorted(set(bad)))
            batches = [e for e in log if e[0] == 'integrate']
            flat = [i for b in batches for i in b[1]]
            if flat != list(range(h.n_rows)):
                add('not_transparent_partition', 'integrate calls do not partition the increments in order')
            # the rows handed to the integrator are the ORIGINAL rows (estimates at their reset
            # values make correct_increments the identity - bitwise by the FP lemma)
            orig = [mk('incrow', i, None, Tok('inc', i, 'theta', n=3).key(), Tok('inc', i, 'dv', n=3).key()) for i in range(h.n_rows)]
            got = [r for b in batches for r in b[2].t[1:]]
            if got != orig:
                add('not_transparent_increments', 'the increments handed to the integrator are not the original ones')

    class Repeatable(fc.Checker):
        """sensor models enter with garbage in their estimate state: nothing may depend on it"""

        def extra_obligations(self, ex, res, log, out, add):
            memo_g, memo_a = {}, {}
            tg, ta = mk('garbage', 'gyro'), mk('garbage', 'accel')
            keys = []
            for e in log:
                for x in e[1:]:
                    if isinstance(x, K):
                        keys.append(x)
            for nm in ('gyro', 'accel'):
                t = res.get(nm)
                if t is not None and getattr(t, 'data', None) is not None:
                    keys.append(_key(t.data))
            out['nobl'] += 1
            if any(_contains(k, tg, memo_g) or _contains(k, ta, memo_a) for k in keys):
                add('depends_on_previous_run', 'a result or an increment handed to the integrator depends on the estimate state the model objects had before the run')
    class FeedbackDataflow(fc.Checker):
        """the defining dataflow of the feedback form: within a measurement epoch the corrections
        chain (x of one is the x+ of the previous, P likewise), the FIRST correction of every epoch
        starts from the zero error state (everything estimated so far has been fed back), the state
        written back is correct_pva(latest state, x[ins block]), the sensor models receive their
        own blocks of that x, and between epochs P is propagated as Phi P Phi^T + Qd"""

        def extra_obligations(self, ex, res, log, out, add):
            h = self.h
            n = h._nstates()
            ni = 9 if h.with_altitude else 7
            zero = Tok('zeros', n, n=n).key()
            x = None
            P = None
            last_x = None
            for e in log:
                if e[0] == 'predict':
                    x = zero                # a new epoch: the error state must start from zero
                    last_x = None
                elif e[0] == 'correct':
                    xk, Pk = e[1], e[2]
                    out['nobl'] += 2
                    if x is not None and xk is not x:
                        add('feedback_x_chain', 'a correction does not start from the zero error state at the beginning of an epoch (or does not chain within it): corrections already fed back would be applied again')
                    if P is not None and Pk is not P:
                        add('feedback_P_chain', 'a correction does not use the covariance left by the previous correction / propagation')
                    a5 = tuple(e[1:6])
                    x = mk('x+', *a5)
                    P = mk('P+', *a5)
                    last_x = x
                elif e[0] == 'set_pva':
                    out['nobl'] += 1
                    arg = e[2]
                    want_x = mk('get', last_x if last_x is not None else zero, mk('tuple', 'slice', None, ni, None))
                    if not (isinstance(arg, K) and arg[0] == 'correct_pva' and arg[1] is e[3] and arg[2] is want_x):
                        add('feedback_set_pva', 'the state written back is not correct_pva(latest state, x[ins block]) with the x of this epoch')
                elif e[0] == 'prop':
                    # the averaged readings handed to the propagation are "sum of the batch / LENGTH OF
                    # THE BATCH": whatever divides them must equal the propagation interval on this path
                    td_ = e[1]
                    for nm_, raw_ in (('gyro', e[5] if len(e) > 5 else None), ('accel', e[6] if len(e) > 6 else None)):
                        if isinstance(raw_, Tok) and raw_.op == 'div' and isinstance(raw_.args[1], T) and isinstance(td_, T):
                            out['nobl'] += 1
                            d_ = raw_.args[1]
                            if d_ is not td_ and ex.feasible(d_.v != td_.v):
                                add('feedback_average_divisor', 'the averaged %s readings are divided by a quantity that can differ from the propagation interval of the step' % nm_, d_.v != td_.v)
                    a4 = (e[2], e[3], e[4], _key(e[1]))
                    Phi, Qd = mk('Phi', *a4), mk('Qd', *a4)
                    if P is None:
                        P = None
                    else:
                        P = mk('add', mk('mm', mk('mm', Phi, P), mk('T', Phi)), Qd)
                    x = None
                elif e[0] == 'init':
                    P = None
            # P0 is whatever _initialize_covariance returned: pick it up from the first use
    return Transparent, Repeatable, FeedbackDataflow


TRANSPARENT_CANARIES = [
    ('estimates not reset before the run', 'gyro_model.reset_estimates()', 'pass'),
    ('epoch clip keeps the end time as due', 'while measurement_times[measurement_time_index] < increment.name:', 'while measurement_times[measurement_time_index] <= increment.name:'),
]
DATAFLOW_CANARIES = [
    ('error state not zeroed between epochs', '            x = np.zeros(n_states)\n', '            x = x if measurement_time_index else np.zeros(n_states)\n'),
    ('covariance not carried into the correction', 'x, P, innovation = kalman.correct(x, P, z, H_full, R)', 'x, _P, innovation = kalman.correct(x, P, z, H_full, R); P = _P if False else P'),
    ('feedback applied to the predicted state', 'error_model.correct_pva(integrator.get_pva(), x[ins_block])', 'error_model.correct_pva(pva, x[ins_block])'),
]
REPEAT_CANARIES_FB = [
    ('feedback: gyro estimates not reset', 'gyro_model.reset_estimates()', 'pass'),
]
REPEAT_CANARIES_FF = []         # the feedforward loop never reads the estimate state: nothing to break there


def fp_lemmas(run):
    import z3
    from .. import fp
    RNE = fp.RNE
    x, dt, b, y1, y2 = (fp.fpvar(n) for n in ('x', 'dt', 'b', 'y1', 'y2'))
    zero, one = fp.fpval(0.0), fp.fpval(1.0)
    mul = lambda a, c: z3.fpMul(RNE, a, c)
    sub = lambda a, c: z3.fpSub(RNE, a, c)
    div = lambda a, c: z3.fpDiv(RNE, a, c)
    lem = []
    pos_dt = [fp.finite(dt), z3.fpGT(dt, zero), z3.Not(z3.fpIsNaN(x))]
    lem.append(('bias removal with a zero bias: x - 0.0*dt is x bitwise (dt > 0)', sub(x, mul(zero, dt)) == x, pos_dt))
    # identity-matrix solve, textbook elimination: pivots 1, multipliers 0
    not_negzero = z3.Not(z3.And(z3.fpIsZero(b), z3.fpIsNegative(b)))
    elim = div(sub(sub(b, mul(zero, y1)), mul(zero, y2)), one)
    lem.append(('solve(I, b): (b - 0*y1 - 0*y2)/1 equals b numerically', z3.fpEQ(elim, b), [fp.finite(y1), fp.finite(y2), z3.Not(z3.fpIsNaN(b))]))
    lem.append(('solve(I, b): (b - 0*y1 - 0*y2)/1 is b bitwise unless b is a negative zero', elim == b,
                [fp.finite(y1), fp.finite(y2), z3.Not(z3.fpIsNaN(b)), not_negzero]))
    n_ok, secs = 0, 0.0
    for name, claim, assume in lem:
        r, model, t = fp.prove(claim, assume)
        secs += t
        if r == 'unsat':
            n_ok += 1
            run.sample({'fp_lemma': name, 'result': 'unsat', 'solver_s': round(t, 3)})
        elif r == 'sat':
            run.error('FloatingPoint lemma fails: %s (model %s)' % (name, model))
        else:
            run.unknown.append('FP lemma %s' % name)
    run.family('FloatingPoint lemmas (binary64, RNE)', len(lem), n_ok, secs)
    r, _m, _t = fp.prove(sub(x, mul(zero, dt)) == x, [fp.finite(dt), z3.Not(z3.fpIsNaN(x))])
    run.canary('FP lemma without dt > 0 (sign of zero)', r == 'sat', r)


def section_feedback(rep, ci, mutate=None):
    """(b') after update_estimates(eps x): correct_increments(dt, inc) = inc - eps H(inc/dt) x dt + O(eps^2)"""
    import numpy as np
    import pandas as pd
    import z3
    from .. import symreal as S, enga, paths
    from .c11 import MODEL_CFGS, _model
    S.new_ctx([('eps', 1)])
    m = enga.install()
    if mutate:
        mutate(m)
    cfg = MODEL_CFGS[ci]['g']
    names = ['g_%s%d' % (nm, i) for nm, key in (('b', 'bias'), ('w', 'walk'), ('n', 'noise')) for i in range(3) if cfg[key][i]] + \
            ['g_s%d%d' % (i, j) for (i, j) in cfg['sm']]
    S.C.dom += [z3.Real(n) > 0 for n in names] + [z3.Real(n) <= 10 for n in names]
    ex = paths.Exec(S.C.dom)
    box = {}

    def build():
        box['model'] = _model(m['IS'], S, 'g', cfg)[0]
        return True
    res, _ = ex.run(build)
    if len(res) != 1 or res[0].status != 'ok':
        raise RuntimeError('model construction forked')
    model = box['model']
    J, O = S.J, S.O
    eps = S.formal(0)
    x = O([S.var('x%d' % i) for i in range(model.n_states)])
    dt = S.var('dt')
    S.C.dom += [z3.Real('dt') > 0, z3.Real('dt') <= 1]
    inc = pd.Series([S.var('inc%d' % i) for i in range(3)], index=['theta_x', 'theta_y', 'theta_z'], name=1.0, dtype=object)
    model.reset_estimates()
    c0 = model.correct_increments(dt, inc)
    model.update_estimates(x * eps)
    c1 = model.correct_increments(dt, inc)
    est1 = model.get_estimates()
    model.reset_estimates()
    c2 = model.correct_increments(dt, inc)
    est2 = model.get_estimates()
    meta = {'check': 'feedback', 'params': {'cfg': ci}}
    obls = []
    for o in (0, 1):
        for k in range(model.n_states):
            obls.append(enga.zero('cfg%d: get_estimates after update_estimates(eps x) = eps x, state %d, order %d' % (ci, k, o), (J(est1.values[k]) - x[k] * eps).part(o), 'sensor feedback: sign and scale', meta=meta))
            obls.append(enga.zero('cfg%d: get_estimates after reset_estimates = 0, state %d, order %d' % (ci, k, o), J(est2.values[k]).part(o), 'sensor feedback: sign and scale', meta=meta))
        for i in range(3):
            obls.append(enga.zero('cfg%d: reset_estimates after an update restores the identity correction, axis %d, order %d' % (ci, i, o), (J(c2.values[i]) - inc.values[i]).part(o), 'sensor feedback: sign and scale', meta=meta))
    Hx = np.dot(S.symnp.asarray(model.output_matrix(inc.values / dt)), x) if model.n_states else O([J(0)] * 3)
    for i in range(3):
        obls.append(enga.zero('cfg%d: reset estimates: correct_increments is the identity, axis %d' % (ci, i), J(c0.values[i]) - inc.values[i], 'sensor feedback: sign and scale', meta=meta))
        obls.append(enga.zero('cfg%d: order 0 after an update by eps x, axis %d' % (ci, i), J(c1.values[i]).part(0) - inc.values[i], 'sensor feedback: sign and scale', meta=meta))
        obls.append(enga.zero('cfg%d: d/d eps correct_increments = -(output_matrix(inc/dt) x) dt, axis %d' % (ci, i), J(c1.values[i]).part(1) + Hx[i] * dt, 'sensor feedback: sign and scale', meta=meta))
    rep.run.encode(m['IS'].EstimationModel.correct_increments, m['IS'].EstimationModel.update_estimates, m['IS'].EstimationModel.output_matrix,
                   m['IS'].EstimationModel.reset_estimates, m['IS'].EstimationModel.get_estimates)
    return obls


FEEDBACK_CANARIES = [
    ('reset keeps the misalignment estimates', ('IS', 'EstimationModel.reset_estimates', 'self.transform = np.identity(3)', 'np.fill_diagonal(self.transform, 1.0)'), 3),
    ('estimate update sign', ('IS', 'EstimationModel.update_estimates', 'self.bias[axis] += xi', 'self.bias[axis] -= xi'), 0),
    ('scale estimate transposed', ('IS', 'EstimationModel.update_estimates', 'self.transform[axis_out, axis_in] += xi', 'self.transform[axis_in, axis_out] += xi'), 3),
]


def run(run):
    from .. import filterdrive, enga, common
    import pyins.filters as F
    Transparent, Repeatable, FeedbackDataflow = _checkers()
    run.assume('(a) transparency: all measurement stamps constrained outside [start, end) (also measurements = None / []); sensor models replaced by the contract "with estimates at their reset values correct_increments returns its input" whose bit-exactness is the FloatingPoint lemma set below; with the chunk-split law of C02 the trajectory is then bit-identical to one integrate call',
               'FP lemmas assume finite data and dt > 0; LAPACK gesv on the identity matrix is modelled as textbook elimination (pivots 1, multipliers 0); for an increment entry that is a NEGATIVE ZERO the result is numerically equal but may differ in the sign of zero - such inputs are outside the bit-identity claim',
               '(c) repeatability: model objects enter with symbolic garbage in bias / transform; obligation: no logged token depends on it (both filters)',
               '(b\') one-step feedback consistency on real EstimationModel objects (engine A, eps-jets); OUTSIDE: "the disagreement with the feedforward filter, in units of sigma, shrinks in proportion to the error scale" over whole runs (jets through expm, Cholesky and >= 9-state covariances are beyond reach)')
    P, V, BV = 'Position', 'NedVelocity', 'BodyVelocity'

    def merge(sub, prefix):
        for k, v in sub.families.items():
            run.family(prefix + k, v['obligations'], v['discharged'], v['solver_s'])
        run.errors += sub.errors
        run.unknown += sub.unknown
        run.violations += sub.violations
        run.canaries += sub.canaries
        run.witnesses += [w for w in sub.witnesses if 'processes a measurement' not in w['name']]
        run.errors[:] = [e for e in run.errors if 'some explored path processes a measurement' not in e]
        run.queries += sub.queries
        run.samples += sub.samples[:2]
        run.functions.update(sub.functions)
        for a in sub.assumptions:
            run.assume(a)
        return sub.cov.get('states', 0), sub.cov.get('traces_validated_against_impl', 0)
    tot_states = tot_valid = 0
    # (a)
    sub = type(run)(PROP, run.level, run.tier, run.seed)
    cfgs = [dict(label='transparent 3inc P1 V1 outside', n_rows=3, sensors=[(P, 1, 2), (V, 1, 2)], model_states=(3, 3)),
            dict(label='transparent 3inc none', n_rows=3, sensors=[], meas_mode='none', model_states=(3, 3)),
            dict(label='transparent 4inc empty 2D', n_rows=4, sensors=[], meas_mode='empty', with_altitude=False)]
    if run.tier == 'thorough':
        cfgs.append(dict(label='transparent 4inc P2 B1 outside', n_rows=4, sensors=[(P, 2, 2), (BV, 1, 3)], model_states=(3, 3)))
    filterdrive.drive(sub, PROP, 'feedback', 'run_feedback_filter', cfgs, TRANSPARENT_CANARIES,
                      dict(n_rows=2, sensors=[(P, 1, 2)], model_states=(1, 1), garbage_models=True), checker_cls=Transparent, validate_cap=12)
    a, b = merge(sub, 'transparency: ')
    tot_states += a
    tot_valid += b
    # (c)
    for kind, func, cans in (('feedback', 'run_feedback_filter', REPEAT_CANARIES_FB), ('feedforward', 'run_feedforward_filter', REPEAT_CANARIES_FF)):
        sub = type(run)(PROP, run.level, run.tier, run.seed)
        cfgs = [dict(label='repeatable %s P1 V1' % kind, n_rows=3, sensors=[(P, 1, 2), (V, 1, 2)], model_states=(3, 3), garbage_models=True)]
        filterdrive.drive(sub, PROP, kind, func, cfgs, cans, dict(n_rows=2 if kind == 'feedback' else 3, sensors=[(P, 1, 2)], model_states=(1, 1), garbage_models=True),
                          checker_cls=Repeatable, validate_cap=6)
        a, b = merge(sub, 'repeatability: ')
        tot_states += a
        tot_valid += b
    # dataflow of the feedback form on schedules with several epochs inside one IMU interval
    sub = type(run)(PROP, run.level, run.tier, run.seed)
    cfgs = [dict(label='feedback dataflow 2inc P2 V1', n_rows=2, sensors=[(P, 2, 2), (V, 1, 2)], model_states=(3, 3)),
            dict(label='feedback dataflow 3inc P1 B1 2D', n_rows=3, sensors=[(P, 1, 2), (BV, 1, 3)], with_altitude=False, model_states=(2, 2))]
    filterdrive.drive(sub, PROP, 'feedback', 'run_feedback_filter', cfgs, DATAFLOW_CANARIES,
                      dict(n_rows=2, sensors=[(P, 2, 2)], model_states=(1, 1)), checker_cls=FeedbackDataflow, validate_cap=8)
    a, b = merge(sub, 'feedback dataflow: ')
    tot_states += a
    tot_valid += b
    # the other side of the comparison: the feedforward loop consumes the same increments - its
    # dataflow (C11's checker: averaged readings = sum of the increments stamped in (t, t_next] / step,
    # x / P chains, measurement operands) on a configuration with increments and scale/misalignment
    # states. The property id of the sub-run is this one: its replay dispatches to C11's oracle.
    from . import c11 as c11m
    sub = type(run)(PROP, run.level, run.tier, run.seed)
    cfgs = [dict(label='feedforward side 4rows P1 B1 +increments', n_rows=4, sensors=[(P, 1, 2), (BV, 1, 3)], with_increments=True, model_states=(2, 4))]
    filterdrive.drive(sub, PROP, 'feedforward', 'run_feedforward_filter', cfgs, [],
                      dict(n_rows=3, sensors=[(P, 1, 2)], model_states=(1, 1)), checker_cls=c11m._dataflow_checker(), validate_cap=6)
    a, b = merge(sub, 'feedforward side of the comparison: ')
    tot_states += a
    tot_valid += b
    fp_lemmas(run)
    # (b')
    rep = enga.AReport(run, box={'dt': (0.01, 1)})
    from .c05 import _mut_method
    for ci in (0, 1, 3):
        rep.finish(rep.batch(section_feedback(rep, ci)), PROP)
    rep.selfcheck(PROP, [{'check': 'feedback', 'point': {}, 'params': {'cfg': ci}} for ci in (0, 1, 3)])
    for name, spec, ci in FEEDBACK_CANARIES:
        try:
            obls = section_feedback(rep, ci, _mut_method(spec))
        except common.HarnessError as e:
            run.canary(name, False, str(e))
            continue
        rep.canary(name, obls)
    enga.restore()
    run.cov.update({'states': tot_states, 'transitions': max(1, run.queries), 'traces_validated_against_impl': tot_valid,
                    'evaluations': tot_states, 'distinct_nontrivial': max(2, tot_states),
                    'rule': 'one evaluation = one feasible path of the real loop under the stated constraint (no measurement in the span / garbage models)'})
    run.bounds.update({'schedules': '3-4 increments, <= 3 samples, all outside the span for (a)'})


def replay(spec):
    """(a): the real filter against plain integration, bit for bit; (c): two consecutive runs with
    the same model objects; (b'): finite differences of correct_increments"""
    import numpy as np
    import pandas as pd
    if spec.get('check') == 'feedback':
        from pyins import inertial_sensor as IS
        from .c11 import MODEL_CFGS
        cfg = MODEL_CFGS[(spec.get('params') or {}).get('cfg', 0)]['g']
        sm = np.zeros((3, 3))
        for (i, j) in cfg['sm']:
            sm[i, j] = 0.01
        model = IS.EstimationModel(bias_sd=[0.1 if c else 0 for c in cfg['bias']], noise=[0.1 if c else 0 for c in cfg['noise']],
                                   bias_walk=[0.01 if c else 0 for c in cfg['walk']], scale_misal_sd=sm)
        rng = np.random.RandomState(2)
        x = rng.randn(model.n_states)
        inc = pd.Series(rng.randn(3) * 0.01, index=['theta_x', 'theta_y', 'theta_z'], name=1.0)
        dt = 0.02
        fails = []
        model.reset_estimates()
        if not np.array_equal(model.correct_increments(dt, inc).values, inc.values):
            fails.append('correct_increments is not the identity at reset estimates')
        eps = 1e-6
        model.update_estimates(eps * x)
        d = (model.correct_increments(dt, inc).values - inc.values) / eps
        want = -(model.output_matrix(inc.values / dt) @ x) * dt if model.n_states else np.zeros(3)
        if np.abs(d - want).max() > 1e-4 * max(np.abs(want).max(), 1e-9):
            fails.append('sensor feedback does not have the sign/scale of the modelled error: %s vs %s' % (d.tolist(), want.tolist()))
        model.update_estimates(x)
        if model.n_states and np.abs(model.get_estimates().values - (1 + eps) * x).max() > 1e-12 * max(1.0, np.abs(x).max()):
            fails.append('get_estimates does not return the accumulated updates')
        model.reset_estimates()
        if model.n_states and np.abs(model.get_estimates().values).max() != 0:
            fails.append('get_estimates is not zero after reset_estimates')
        if not np.array_equal(model.correct_increments(dt, inc).values, inc.values):
            fails.append('after update_estimates and reset_estimates correct_increments is not the identity: %s vs %s' % (model.correct_increments(dt, inc).values.tolist(), inc.values.tolist()))
        return {'violated': bool(fails), 'detail': fails}
    from ..filtercheck import replay_schedule
    from pyins import filters, strapdown, inertial_sensor
    if spec.get('kind') == 'feedforward':
        from . import c11 as c11m
        return c11m.replay(spec)
    r = replay_schedule(spec)
    if r.get('violated') or spec.get('kind') != 'feedback':
        return r
    # transparency / repeatability on the concrete schedule
    stamps = np.array(spec['stamps'], dtype=float)
    lo, hi = stamps[0], stamps[-1]
    all_out = all(not (lo <= t < hi) for ts in spec['sensors'].values() for t in ts) or spec['meas_mode'] != 'list'
    failed = []
    if all_out:
        from pyins.util import TRAJECTORY_COLS
        wa = spec['with_altitude']
        pva0 = pd.Series([50.0, 30.0, 100.0, 1.0, -2.0, 0.0 if not wa else 0.5, 1.0, -2.0, 40.0], index=TRAJECTORY_COLS, name=stamps[0])
        dt = np.diff(stamps)
        inc = pd.DataFrame({'dt': dt}, index=pd.Index(stamps[1:], name='time'))
        for j, c in enumerate(['theta_x', 'theta_y', 'theta_z']):
            inc[c] = [1e-5, 2e-5, -1e-5][j] * dt
        for j, c in enumerate(['dv_x', 'dv_y', 'dv_z']):
            inc[c] = [0.01, -0.02, -9.81][j] * dt
        gm = inertial_sensor.EstimationModel(bias_sd=1e-5, noise=1e-6, bias_walk=1e-7, scale_misal_sd=1e-3)
        am = inertial_sensor.EstimationModel(bias_sd=1e-2, noise=1e-3, scale_misal_sd=1e-3)
        gm.bias[:] = 0.3          # stale estimates from an earlier use must not matter
        am.transform[0, 1] = 0.2
        kw = {} if spec.get('default_step') else {'time_step': spec['step']}
        res = filters.run_feedback_filter(pva0, 10.0, 1.0, 1.0, 1.0, inc, gyro_model=gm, accel_model=am, measurements=[], with_altitude=wa, **kw)
        it = strapdown.Integrator(pva0, wa)
        it.integrate(inc)
        if res.trajectory.values.tobytes() != it.trajectory.values.tobytes():
            failed.append('without measurements the filter trajectory is not bit-identical to plain integration (max diff %.3g)' % np.abs(res.trajectory.values - it.trajectory.values).max())
    else:
        failed += _replay_feedback_dataflow(spec)
    r['failed'] = list(r.get('failed') or []) + failed
    r['violated'] = bool(r['failed'])
    return r


def _replay_feedback_dataflow(spec):
    """the feedback-form dataflow on the real loop for one concrete schedule: recording wrappers
    (module attributes of the running interpreter) around kalman.correct and Integrator.predict;
    the first correction of every epoch must start from the zero error state"""
    import numpy as np
    import pandas as pd
    from pyins import filters, measurements, inertial_sensor, strapdown
    from pyins.util import TRAJECTORY_COLS
    stamps = np.array(spec['stamps'], dtype=float)
    wa = spec['with_altitude']
    pva0 = pd.Series([50.0, 30.0, 100.0, 1.0, -2.0, 0.0 if not wa else 0.5, 1.0, -2.0, 40.0], index=TRAJECTORY_COLS, name=stamps[0])
    dt = np.diff(stamps)
    inc = pd.DataFrame({'dt': dt}, index=pd.Index(stamps[1:], name='time'))
    for j, c in enumerate(['theta_x', 'theta_y', 'theta_z']):
        inc[c] = [1e-5, 2e-5, -1e-5][j] * dt
    for j, c in enumerate(['dv_x', 'dv_y', 'dv_z']):
        inc[c] = [0.01, -0.02, -9.81][j] * dt
    meas = []
    for name, times in spec['sensors'].items():
        times = np.array(times, dtype=float)
        if name == 'Position':
            meas.append(measurements.Position(pd.DataFrame({'lat': 50.00001, 'lon': 30.00001, 'alt': 101.0}, index=times), 5.0))
        elif name == 'NedVelocity':
            meas.append(measurements.NedVelocity(pd.DataFrame({'VN': 1.1, 'VE': -2.1, 'VD': 0.0}, index=times), 0.5))
        else:
            meas.append(measurements.BodyVelocity(pd.DataFrame({'VX': 1.0, 'VY': 0.0, 'VZ': 0.1}, index=times), 0.5))
    events = []
    oc = filters.kalman.correct
    oi = filters.strapdown.Integrator

    def correct(x, P, z, H, R):
        events.append(('correct', np.array(x, dtype=float).copy()))
        return oc(x, P, z, H, R)

    class RecI(oi):
        def predict(self, inc_):
            events.append(('predict',))
            return oi.predict(self, inc_)
    filters.kalman.correct = correct
    filters.strapdown.Integrator = RecI
    failed = []
    try:
        kw = {} if spec.get('default_step') else {'time_step': spec['step']}
        gm = inertial_sensor.EstimationModel(bias_sd=1e-5, noise=1e-6)
        am = inertial_sensor.EstimationModel(bias_sd=1e-2, noise=1e-3)
        filters.run_feedback_filter(pva0, 10.0, 1.0, 1.0, 1.0, inc, gyro_model=gm, accel_model=am, measurements=meas, with_altitude=wa, **kw)
    except Exception as e:      # noqa: BLE001
        failed.append('exception %s: %s' % (type(e).__name__, str(e)[:160]))
    finally:
        filters.kalman.correct = oc
        filters.strapdown.Integrator = oi
    fresh = False
    for ev in events:
        if ev[0] == 'predict':
            fresh = True
        elif fresh:
            fresh = False
            if np.any(ev[1] != 0):
                failed.append('the first correction of a measurement epoch starts from a non-zero error state (max |x| %.3g): a correction that was already fed back is applied again' % np.abs(ev[1]).max())
                break
    return failed
