"""C16 - Earth model and geodetic transforms are one coherent ellipsoidal geometry (engine A)."""
import math

LEVEL = 'other'
PROP = 'C16'


def _skew(v):
    from .. import symreal as S
    return S.O([[0, -v[2], v[1]], [v[2], 0, -v[0]], [-v[1], v[0], 0]])


def section_geometry(rep, mutate=None, lat_range=(-89, 89)):
    import numpy as np
    import z3
    from .. import symreal as S, enga
    from ..symlinalg import det
    S.new_ctx([('eps', 1)])
    m = enga.install(symconst=True)
    T, E, K = m['T'], m['E'], m['K']
    if mutate:
        mutate(m)
    eps = S.formal(0)
    lat = S.declare_angle('lat', *lat_range)
    lon = S.declare_angle('lon', -180, 180)
    alt = S.var('alt')
    S.C.dom += [z3.Real('alt') >= -10000, z3.Real('alt') <= 100000]
    J, O = S.J, S.O
    lla = O([lat, lon, alt])
    obls = []
    Z = lambda name, e, fam: obls.append(enga.zero(name, e, fam, meta={'check': 'geo'}))
    r_e = T.lla_to_ecef(lla)
    C_en = T.mat_en_from_ll(lat, lon)
    rn, re, rp = E.principal_radii(lat, alt)
    # (1) closed-form ellipsoid
    r0 = T.lla_to_ecef(O([lat, lon, J(0)]))
    Z('lla_to_ecef(lat,lon,0) satisfies x^2/A^2 + y^2/A^2 + z^2/(A^2(1-E2)) = 1',
      (J(r0[0]) ** 2 + J(r0[1]) ** 2) * (1 - E.E2) + J(r0[2]) ** 2 - E.A * E.A * (1 - E.E2), 'ellipsoid')
    nhat = -C_en[:, 2]
    for i in range(3):
        Z('lla_to_ecef(.,h) - lla_to_ecef(.,0) = h * normal [%d]' % i, J(r_e[i]) - J(r0[i]) - alt * nhat[i], 'ellipsoid')
    # (2) NED frame
    CCt = np.dot(C_en, C_en.T)
    for i in range(3):
        for j in range(i, 3):
            Z('mat_en orthonormal [%d,%d]' % (i, j), J(CCt[i, j]) - (1 if i == j else 0), 'NED frame')
    Z('det mat_en = +1', det(C_en) - 1, 'NED frame')
    d_lat = T.lla_to_ecef(O([lat + eps, lon, alt]))
    d_lon = T.lla_to_ecef(O([lat, lon + eps, alt]))
    d_alt = T.lla_to_ecef(O([lat, lon, alt + eps]))
    deg = S.const(S.DEG)
    for i in range(3):
        Z('d r_e/d lat [%d] = (R_N+h) * north axis (per radian)' % i, J(d_lat[i]).part(1) - deg * rn * C_en[i, 0], 'NED frame = normalised partials')
        Z('d r_e/d lon [%d] = (R_E+h) cos(lat) * east axis (per radian)' % i, J(d_lon[i]).part(1) - deg * rp * C_en[i, 1], 'NED frame = normalised partials')
        Z('d r_e/d alt [%d] = - down axis' % i, J(d_alt[i]).part(1) + C_en[i, 2], 'NED frame = normalised partials')
    # (3) metre perturbation / difference / local NED agree with the geometry to first order
    d = O([S.var('d0'), S.var('d1'), S.var('d2')])
    S.C.dom += [z3.Real('d%d' % i) >= -1000 for i in range(3)] + [z3.Real('d%d' % i) <= 1000 for i in range(3)]
    lla_p = T.perturb_lla(lla, d * eps)
    r_p = T.lla_to_ecef(lla_p)
    Cd = np.dot(C_en, d)
    ned = T.lla_to_ned(O([list(lla_p)]), lla)[0]
    dif = T.compute_lla_difference(lla_p, lla)
    for i in range(3):
        Z('order 0: perturb_lla(lla, 0) = lla [%d]' % i, J(lla_p[i]).part(0) - lla[i], 'metre perturbation')
        Z('lla_to_ecef(perturb_lla(lla, eps d)) - lla_to_ecef(lla) = eps C_en d [%d]' % i, J(r_p[i]).part(1) - Cd[i], 'metre perturbation')
        Z('lla_to_ned(perturb_lla(lla, eps d), lla) = eps d [%d]' % i, J(ned[i]).part(1) - d[i], 'metre perturbation')
        Z('compute_lla_difference(perturb_lla(lla, eps d), lla) = eps d [%d]' % i, J(dif[i]).part(1) - d[i], 'metre perturbation')
    # (4) curvature matrix = rotation of the NED frame under displacement
    Cp = T.mat_en_from_ll(lla_p[0], lla_p[1])
    Fd = np.dot(E.curvature_matrix(lat, alt), d)
    orc = np.dot(C_en, _skew(Fd))
    for i in range(3):
        for j in range(3):
            Z('d/d eps mat_en(perturb_lla(lla, eps d)) = mat_en [(curvature_matrix d) x] [%d,%d]' % (i, j), J(Cp[i, j]).part(1) - orc[i, j], 'curvature')
    # (5) gravity representations
    g = E.gravity(lat, alt)
    gn = E.gravity_n(lat, alt)
    Z('compiled gravity copy = earth.gravity', J(K.gravity(lat, alt)) - g, 'gravity')
    Z('gravity_n north = 0', J(gn[0]), 'gravity')
    Z('gravity_n east = 0', J(gn[1]), 'gravity')
    Z('gravity_n down = gravity', J(gn[2]) - g, 'gravity')
    We = O([0, 0, E.RATE])
    g0 = E.gravitation_ecef(lla)
    orc = np.dot(C_en, gn) + np.cross(We, np.cross(We, r_e))
    for i in range(3):
        Z('gravitation_ecef = C_en gravity_n + W x (W x r_e) [%d]' % i, J(g0[i]) - orc[i], 'gravity')
    rt = E.rate_n(lat)
    orc = np.dot(C_en.T, We)
    for i in range(3):
        Z('rate_n = C_en^T (0,0,RATE) [%d]' % i, J(rt[i]) - orc[i], 'gravity')
    # equator / pole values of the Somigliana formula
    # (6) parity in latitude
    mlat = -lat
    rn2, re2, rp2 = E.principal_radii(mlat, alt)
    Z('R_N even in latitude', J(rn2) - rn, 'parity')
    Z('R_E even in latitude', J(re2) - re, 'parity')
    Z('gravity even in latitude', J(E.gravity(mlat, alt)) - g, 'parity')
    Z('compiled gravity even in latitude', J(K.gravity(mlat, alt)) - K.gravity(lat, alt), 'parity')
    rt2 = E.rate_n(mlat)
    Z('rate_n north even', J(rt2[0]) - rt[0], 'parity')
    Z('rate_n down odd', J(rt2[2]) + rt[2], 'parity')
    r_m = T.lla_to_ecef(O([mlat, lon, alt]))
    Z('ecef x even', J(r_m[0]) - r_e[0], 'parity')
    Z('ecef y even', J(r_m[1]) - r_e[1], 'parity')
    Z('ecef z odd', J(r_m[2]) + r_e[2], 'parity')
    g0m = E.gravitation_ecef(O([mlat, lon, alt]))
    Z('gravitation x even', J(g0m[0]) - g0[0], 'parity')
    Z('gravitation y even', J(g0m[1]) - g0[1], 'parity')
    Z('gravitation z odd', J(g0m[2]) + g0[2], 'parity')
    cm, cm2 = E.curvature_matrix(lat, alt), E.curvature_matrix(mlat, alt)
    Z('curvature [0,1] even', J(cm2[0, 1]) - cm[0, 1], 'parity')
    Z('curvature [1,0] even', J(cm2[1, 0]) - cm[1, 0], 'parity')
    Z('curvature [2,1] odd', J(cm2[2, 1]) + cm[2, 1], 'parity')
    # (7) scalar and stacked calls return the same terms
    lat2, lon2, alt2 = S.var('lat_b'), S.var('lon_b'), S.var('alt_b')
    st_lat, st_alt = O([lat2, lat]), O([alt2, alt])
    srn, sre, srp = E.principal_radii(st_lat, st_alt)
    Z('stacked principal_radii R_N', J(srn[1]) - rn, 'stacked = scalar')
    Z('stacked principal_radii R_E', J(sre[1]) - re, 'stacked = scalar')
    Z('stacked principal_radii R_P', J(srp[1]) - rp, 'stacked = scalar')
    Z('stacked gravity', J(E.gravity(st_lat, st_alt)[1]) - g, 'stacked = scalar')
    Z('stacked gravity_n', J(E.gravity_n(st_lat, st_alt)[1][2]) - g, 'stacked = scalar')
    scm = E.curvature_matrix(st_lat, st_alt)
    for (i, j) in ((0, 1), (1, 0), (2, 1)):
        Z('stacked curvature_matrix [%d,%d]' % (i, j), J(scm[1][i, j]) - cm[i, j], 'stacked = scalar')
    srt = E.rate_n(st_lat)
    for i in (0, 2):
        Z('stacked rate_n [%d]' % i, J(srt[1][i]) - rt[i], 'stacked = scalar')
    sll = O([[lat2, lon2, alt2], [lat, lon, alt]])
    sr = T.lla_to_ecef(sll)
    sg = E.gravitation_ecef(sll)
    sC = T.mat_en_from_ll(O([lat2, lat]), O([lon2, lon]))
    for i in range(3):
        Z('stacked lla_to_ecef [%d]' % i, J(sr[1][i]) - r_e[i], 'stacked = scalar')
        Z('stacked gravitation_ecef [%d]' % i, J(sg[1][i]) - g0[i], 'stacked = scalar')
        for j in range(3):
            Z('stacked mat_en_from_ll [%d,%d]' % (i, j), J(sC[1][i, j]) - C_en[i, j], 'stacked = scalar')
    rep.run.encode(T.lla_to_ecef, T.mat_en_from_ll, T.lla_to_ned, T.perturb_lla, T.compute_lla_difference,
                   E.principal_radii, E.gravity, E.gravity_n, E.gravitation_ecef, E.curvature_matrix, E.rate_n, K.gravity)
    info = {'r_e': r_e, 'C_en': C_en, 'radii': [rn, re, rp], 'g': g, 'g0': g0, 'cm': cm}
    return obls, info


def section_poles(rep, mutate=None):
    """the expressions that are defined at the poles, with lat in [-90, 90] (cos >= 0)"""
    import numpy as np
    import z3
    from .. import symreal as S, enga
    S.new_ctx()
    m = enga.install(symconst=True)
    T, E = m['T'], m['E']
    if mutate:
        mutate(m)
    lat = S.declare_angle('lat', -90, 90)
    lon = S.declare_angle('lon', -180, 180)
    alt = S.var('alt')
    S.C.dom += [z3.Real('alt') >= -10000, z3.Real('alt') <= 100000]
    J, O = S.J, S.O
    obls = []
    Z = lambda name, e, fam: obls.append(enga.zero(name, e, fam, meta={'check': 'geo'}))
    r0 = T.lla_to_ecef(O([lat, lon, J(0)]))
    r_e = T.lla_to_ecef(O([lat, lon, alt]))
    C_en = T.mat_en_from_ll(lat, lon)
    Z('[-90,90]: on the ellipsoid', (J(r0[0]) ** 2 + J(r0[1]) ** 2) * (1 - E.E2) + J(r0[2]) ** 2 - E.A * E.A * (1 - E.E2), 'poles included')
    for i in range(3):
        Z('[-90,90]: normal offset [%d]' % i, J(r_e[i]) - J(r0[i]) + alt * C_en[i, 2], 'poles included')
    CCt = np.dot(C_en, C_en.T)
    for i in range(3):
        for j in range(i, 3):
            Z('[-90,90]: mat_en orthonormal [%d,%d]' % (i, j), J(CCt[i, j]) - (1 if i == j else 0), 'poles included')
    We = O([0, 0, E.RATE])
    g0 = E.gravitation_ecef(O([lat, lon, alt]))
    orc = np.dot(C_en, E.gravity_n(lat, alt)) + np.cross(We, np.cross(We, r_e))
    for i in range(3):
        Z('[-90,90]: gravitation_ecef = C_en g_n + W x (W x r) [%d]' % i, J(g0[i]) - orc[i], 'poles included')
    rt = E.rate_n(lat)
    orc = np.dot(C_en.T, We)
    for i in range(3):
        Z('[-90,90]: rate_n = C_en^T W [%d]' % i, J(rt[i]) - orc[i], 'poles included')
    return obls


def section_ecef_to_lla(rep, mutate=None):
    """structure of the Olson inverse: longitude exact, z -> -z mirrors latitude, single = stacked.
    (its accuracy in latitude/altitude is an approximation statement and outside)"""
    import numpy as np
    import z3
    from .. import symreal as S, enga, paths
    S.new_ctx()
    m = enga.install(symconst=False)
    T, E = m['T'], m['E']
    if mutate:
        mutate(m)
    J, O = S.J, S.O
    lon = S.declare_angle('lon', -179, 179)
    rho, z = S.var('rho'), S.var('z')
    S.C.dom += [z3.Real('rho') >= 1000, z3.Real('rho') <= 5e7, z3.Real('z') >= -5e7, z3.Real('z') <= 5e7,
                z3.Real('z') * z3.Real('z') + z3.Real('rho') * z3.Real('rho') >= 3e13]
    lr = lon.deg2rad()
    x, y = rho * lr.cos(), rho * lr.sin()
    out = {}

    def body():
        a = T.ecef_to_lla(O([x, y, z]))
        b = T.ecef_to_lla(O([x, y, -z]))
        st = T.ecef_to_lla(O([[x, y, z], [x, y, -z]]))
        am = T.ecef_to_lla(O([-rho, J(0), z]))          # exactly on the antimeridian
        return a, b, st, am
    ex = paths.Exec(S.C.dom + [S.DEG > S.rat(S.DEG_LO), S.DEG < S.rat(S.DEG_HI)], timeout_ms=20000)
    res, _ = ex.run(body, max_paths=64)
    per_path = []
    for pr in res:
        if pr.status == 'abort' and pr.out == 'INFEASIBLE':
            continue
        if pr.status != 'ok':
            raise RuntimeError('ecef_to_lla did not run symbolically: %s' % (pr.out,))
        a, b, st, am = pr.out
        obls = []
        extra = list(pr.pc)
        Zp = lambda name, e: obls.append(enga.zero(name, e, 'ecef_to_lla structure', extra, {'check': 'ecef'}))
        Zp('longitude = atan2(y, x) recovers the longitude exactly', J(a[1]) - lon)
        # at z = 0 the claim is lat = 0 = asin(0), which the algebraic relaxation of asin cannot express: z != 0 here
        obls.append(enga.zero('z -> -z mirrors latitude (z != 0)', J(a[0]) + J(b[0]), 'ecef_to_lla structure',
                              extra + [z3.Real('z') != 0], {'check': 'ecef'}))
        Zp('z -> -z keeps altitude', J(a[2]) - J(b[2]))
        Zp('a point on the antimeridian (x < 0, y = 0) has longitude +-180', (J(am[1]) - 180) * (J(am[1]) + 180))
        Zp('z -> -z keeps longitude', J(a[1]) - J(b[1]))
        for i in range(3):
            Zp('stacked row 0 = single [%d]' % i, J(st[0][i]) - J(a[i]))
            Zp('stacked row 1 = single [%d]' % i, J(st[1][i]) - J(b[i]))
        per_path.append(obls)
    rep.run.encode(T.ecef_to_lla)
    return per_path


def section_olson_series(rep, k_lat, k_alt, mutate=None):
    """accuracy of the Olson inverse as a power series in the squared eccentricity: with
    earth.E2 replaced by a formal parameter e2 (so that lla_to_ecef, the constants a1..a6 and every
    intermediate of ecef_to_lla are series in e2 with coefficients in sin/cos(lat), the altitude
    and the semi-axis), ecef_to_lla(lla_to_ecef(lat, 0, h)) = (lat, 0, h) coefficientwise through
    e2^k_lat in latitude and e2^k_alt in altitude, on both branches of the algorithm. Square roots
    of perfect squares are taken exactly (no auxiliary variable), the identities are decided by the
    exact normal form."""
    import numpy as np
    import z3
    from .. import symreal as S, enga, paths
    K = max(k_lat, k_alt)
    S.new_ctx([('e2', K)])
    S.C.match_inverse_trig = True
    S.C.exact_sqrt = True
    S.C.poly_limit = 3000000
    m = enga.install(symconst=False)
    T, E = m['T'], m['E']
    if mutate:
        mutate(m)
    J, O = S.J, S.O
    enga._set(E, 'E2', S.formal(0))
    lat = S.declare_angle('lat', 1, 89)
    h = S.var('alt')
    S.C.dom += [z3.Real('alt') >= -10000, z3.Real('alt') <= 4e7]
    ex = paths.Exec(S.C.dom + [S.DEG > S.rat(S.DEG_LO), S.DEG < S.rat(S.DEG_HI)], timeout_ms=10000)
    orig = ex.decide

    def decide(cond):
        for c in S.C.cons[getattr(ex, '_nc', 0):]:
            ex.solver.add(c)
        ex._nc = len(S.C.cons)
        return orig(cond)
    ex.decide = decide
    res, _ = ex.run(lambda: (setattr(ex, '_nc', 0), T.ecef_to_lla(T.lla_to_ecef(O([lat, J(0), h]))))[1], max_paths=16)
    per_path = []
    for pr in res:
        if pr.status == 'abort' and pr.out == 'INFEASIBLE':
            continue
        if pr.status != 'ok':
            raise RuntimeError('ecef_to_lla(lla_to_ecef(.)) did not run symbolically: %s' % (pr.out,))
        out = pr.out
        extra = list(pr.pc)
        meta = {'check': 'olson'}
        obls = []
        for k in range(k_lat + 1):
            obls.append(enga.zero('round trip latitude, coefficient of e2^%d' % k, (J(out[0]) - lat).part(k), 'Olson inverse: round trip as a series in the squared eccentricity', extra, meta))
        for k in range(k_alt + 1):
            obls.append(enga.zero('round trip altitude, coefficient of e2^%d' % k, (J(out[2]) - h).part(k), 'Olson inverse: round trip as a series in the squared eccentricity', extra, meta))
        per_path.append(obls)
    rep.run.encode(T.ecef_to_lla, T.lla_to_ecef)
    return per_path


# ------------------------------------------------------------------------------------------
CANARIES = [
    ('Olson: sine not re-derived from the cosine in the high-latitude branch', 'olson', ('T', 'ecef_to_lla', 's[m] = ss[m] ** 0.5', 's[m] = s[m]')),
    ('Olson: polar radius of curvature without (1 - e2)', 'olson', ('T', 'ecef_to_lla', 'rf = a6 * rg', 'rf = rg')),
    ('lla_to_ecef z without (1-E2)', 'geo', ('T', 'lla_to_ecef', 'r_e[2] = ((1 - earth.E2) * re + alt) * sin_lat', 'r_e[2] = (re + alt) * sin_lat')),
    ('mat_en_from_ll latitude sign', 'geo', ('T', 'mat_en_from_ll', "[lon, -90 - lat]", "[lon, -90 + lat]")),
    ('principal_radii swaps exponent', 'geo', ('E', 'principal_radii', 'rn = re * (1 - E2) / x', 'rn = re * (1 - E2)')),
    ('curvature_matrix sign', 'geo', ('E', 'curvature_matrix', 'result[:, 1, 0] = -1 / rn', 'result[:, 1, 0] = 1 / rn')),
    ('curvature_matrix uses rn for east', 'geo', ('E', 'curvature_matrix', 'result[:, 0, 1] = 1 / re', 'result[:, 0, 1] = 1 / rn')),
    ('gravitation centrifugal sign', 'geo', ('E', 'gravitation_ecef', 'g0_g[2] = gravity(lat, alt) + RATE ** 2 * rp * cos_lat', 'g0_g[2] = gravity(lat, alt) - RATE ** 2 * rp * cos_lat')),
    ('rate_n down sign', 'geo', ('E', 'rate_n', 'result[:, 2] = -RATE * np.sin(np.deg2rad(lat))', 'result[:, 2] = RATE * np.sin(np.deg2rad(lat))')),
    ('compiled gravity copy drifts', 'geo', ('K', 'gravity', '(1 - 2 * alt / earth.A)', '(1 - 2 * alt / (earth.A + alt))')),
    ('perturb_lla east uses rn', 'geo', ('T', 'perturb_lla', 'lla[:, 1] += np.rad2deg(dr_n[:, 1] / rp)', 'lla[:, 1] += np.rad2deg(dr_n[:, 1] / rn)')),
    ('compute_lla_difference down sign', 'geo', ('T', 'compute_lla_difference', 'result[:, 2] = -diff[:, 2]', 'result[:, 2] = diff[:, 2]')),
    ('ecef_to_lla longitude argument order', 'ecef', ('T', 'ecef_to_lla', 'np.arctan2(r_e[:, 1], r_e[:, 0])', 'np.arctan2(r_e[:, 0], r_e[:, 1])')),
    ('ecef_to_lla hemisphere flip dropped', 'ecef', ('T', 'ecef_to_lla', 'lat[z < 0] *= -1', 'lat[z < 0] *= 1')),
]


CANARY_FAMILIES = {
    'lla_to_ecef z without (1-E2)': ['ellipsoid'],
    'mat_en_from_ll latitude sign': ['NED frame = normalised partials'],
    'principal_radii swaps exponent': ['NED frame = normalised partials'],
    'curvature_matrix sign': ['curvature'],
    'curvature_matrix uses rn for east': ['curvature'],
    'gravitation centrifugal sign': ['gravity'],
    'rate_n down sign': ['gravity'],
    'compiled gravity copy drifts': ['gravity'],
    'perturb_lla east uses rn': ['metre perturbation'],
    'compute_lla_difference down sign': ['metre perturbation'],
}


def run(run):
    import z3
    from .. import enga, common
    from .. import symreal as S
    from .c17 import _mut
    box = {'lat': (-88, 88), 'lon': (-179, 179), 'alt': (-5000, 90000), 'd0': (-500, 500), 'd1': (-500, 500), 'd2': (-500, 500),
           'lat_b': (-80, 80), 'lon_b': (-170, 170), 'alt_b': (0, 1000), 'rho': (2e6, 7e6), 'z': (-6e6, 6e6)}
    rep = enga.AReport(run, box=box, consts=dict(enga.WGS84))
    run.assume('exact real arithmetic; sin/cos/sqrt relaxed to algebraic pairs (one pair per canonical angle, lat in [-89,89] deg for expressions dividing by cos(lat), [-90,90] otherwise), altitude in [-10 km, 100 km]',
               'ellipsoid and gravity constants E2, A, RATE, GE, GP are symbolic parameters in boxes around WGS-84: the identities are proved for every such ellipsoid',
               'Rotation.from_euler stub = product of elementary rotations (scipy contract), validated against scipy in the validation step',
               'Olson inverse: its accuracy is decided as a SERIES claim: with the squared eccentricity a formal parameter the round trip ecef_to_lla(lla_to_ecef(lat, 0, h)) reproduces the latitude through e2^2 (thorough: e2^3) and the altitude through e2^3 for every lat in (1, 89) deg and altitude in [-10 km, 40000 km], both branches; since e2 = 6.7e-3 the first undecided coefficient is weighted by 2e-9 (e2^4, of the semi-axis: centimetres at most). OUTSIDE: a numeric bound on the remainder (a transcendental error bound; no delta-complete solver installed), the southern hemisphere of this claim (covered through the mirror obligation z -> -z) and longitudes other than 0 (the longitude is recovered exactly by a separate obligation)')
    timeout = 60 if run.tier == 'quick' else 300
    if not run.only or run.only == 'geo':
        obls, info = section_geometry(rep)
        bad = rep.batch(obls, timeout_s=timeout)
        finish_bad(rep, bad)
        s = z3.Solver()
        s.add(S.C.cons)
        s.add(S.C.dom)
        run.witness('geometry constraint set satisfiable', s.check() == z3.sat)
        validate(rep, info)
    if not run.only or run.only == 'poles':
        obls = section_poles(rep)
        bad = rep.batch(obls, timeout_s=timeout)
        finish_bad(rep, bad)
    if not run.only or run.only == 'ecef':
        try:
            per_path = section_ecef_to_lla(rep)
            run.witness('ecef_to_lla explored on more than one hemisphere/branch path', len(per_path) >= 2)
            bad = rep.batch([o for obls in per_path for o in obls], timeout_s=timeout)
            finish_bad(rep, bad)
            run.cov['ecef_to_lla_paths'] = len(per_path)
        except (RuntimeError, NotImplementedError, S.SymbolicBranch) as e:
            run.error('ecef_to_lla structure sub-claim could not be executed symbolically: %s' % e)
    olson_orders = (2, 3) if run.tier == 'quick' else (3, 3)
    if not run.only or run.only == 'olson':
        try:
            per_path = section_olson_series(rep, *olson_orders)
            run.witness('Olson round trip explored on both branches of the algorithm', len(per_path) >= 2)
            bad = rep.batch([o for obls in per_path for o in obls], timeout_s=max(timeout, 240))
            finish_bad(rep, bad)
        except (RuntimeError, NotImplementedError, S.SymbolicBranch) as e:
            run.error('Olson series sub-claim could not be executed symbolically: %s' % e)
    if not run.only:
        # the numeric oracles on the compiled code of this tree (both hemispheres, rim of the domain,
        # integer-typed / list arguments): must agree with the symbolic verdict
        rep.selfcheck(PROP, [{'check': 'geo', 'point': pt} for pt in rep.points(4 if run.tier == 'quick' else 20)] +
                      [{'check': 'ecef', 'point': {'lon': 30.0, 'rho': 4e6, 'z': -3e6}}, {'check': 'olson', 'point': {}}])
        for ci, (name, sec, spec) in enumerate(CANARIES):
            if run.tier == 'quick' and ci % 2 == 1 and ci != len(CANARIES) - 1 and sec != 'olson':
                continue
            try:
                if sec == 'geo':
                    obls, _ = section_geometry(rep, _mut(spec))
                elif sec == 'olson':
                    ko = (1, 1) if 'polar radius' in name else (1, 3)
                    obls = [o for p in section_olson_series(rep, ko[0], ko[1], _mut(spec)) for o in p if 'altitude' in o.name]
                else:
                    obls = [o for p in section_ecef_to_lla(rep, _mut(spec)) for o in p]
            except common.HarnessError as e:
                run.canary(name, False, str(e))
                continue
            rep.canary(name, obls, families=CANARY_FAMILIES.get(name))
        enga.restore()
    run.bounds.update({'series order': 'eps^1 (first-order agreement of metre perturbation / difference / local NED / curvature)',
                       'domain': 'lat [-89,89] (poles included where defined), all longitudes, altitude [-10 km, 100 km], symbolic ellipsoid constants'})


def finish_bad(rep, bad):
    rep.finish(bad, PROP)


def validate(rep, info):
    import random
    from .. import common, enga
    from .. import symreal as S
    run = rep.run
    rng = random.Random(run.seed + 16)
    cases = []
    pts = [{'lat': rng.uniform(-88, 88), 'lon': rng.uniform(-179, 179), 'alt': rng.uniform(-1000, 50000)} for _ in range(5 if run.tier == 'quick' else 50)]
    # the repo's own test inputs (test_earth / test_transform)
    pts += [{'lat': 0.0, 'lon': 0.0, 'alt': 0.0}, {'lat': 55.0, 'lon': 37.0, 'alt': 1000.0}, {'lat': -50.0, 'lon': 120.0, 'alt': 5000.0}]
    for pt in pts:
        env = dict(pt)
        env.update(enga.WGS84)
        env.update({'d0': 1.0, 'd1': 2.0, 'd2': 3.0, 'lat_b': 1.0, 'lon_b': 2.0, 'alt_b': 3.0})
        ev = S.Evaluator(S.C, env)
        lla = [pt['lat'], pt['lon'], pt['alt']]
        cases.append({'func': 'pyins.transform.lla_to_ecef', 'args': [lla], 'expected': ev.arr(info['r_e']).tolist(), 'rtol': 1e-9})
        cases.append({'func': 'pyins.transform.mat_en_from_ll', 'args': [pt['lat'], pt['lon']], 'expected': ev.arr(info['C_en']).tolist(), 'atol': 1e-10})
        cases.append({'func': 'pyins.earth.principal_radii', 'args': [pt['lat'], pt['alt']], 'expected': [ev.sym(x) for x in info['radii']], 'rtol': 1e-9})
        cases.append({'func': 'pyins.earth.gravity', 'args': [pt['lat'], pt['alt']], 'expected': ev.sym(info['g']), 'rtol': 1e-9})
        cases.append({'func': 'pyins.earth.gravitation_ecef', 'args': [lla], 'expected': ev.arr(info['g0']).tolist(), 'rtol': 1e-8})
        cases.append({'func': 'pyins.earth.curvature_matrix', 'args': [pt['lat'], pt['alt']], 'expected': ev.arr(info['cm']).tolist(), 'rtol': 1e-9, 'atol': 1e-20})
    res = common.run_replays([{'property': PROP, 'kind': 'validate', 'cases': cases}])[0]
    if res.get('error'):
        run.error('translator validation failed to run: %s' % res['error'])
    elif res.get('mismatch'):
        run.error('translator validation mismatch: %s' % res['mismatch'][:1])
    run.cov['translator_validation_cases'] = len(cases)


# ------------------------------------------------------------------------------------------
def replay(spec):
    import numpy as np
    if spec['kind'] == 'validate':
        from ..validate import run_validate
        return run_validate(spec)
    from pyins import transform, earth, _numba_integrate
    pt = spec['point']
    lat, lon, alt = pt.get('lat', 40.0), pt.get('lon', 30.0), pt.get('alt', 1000.0)
    fails = []
    if spec['check'] == 'olson':
        worst = (0.0, None)
        lats = sorted({float(pt.get('lat', 60.0))} | {1.0, 20.0, 40.0, 56.0, 57.5, 60.0, 65.0, 75.0, 85.0, 89.0})
        for la in lats + [-x for x in lats]:
            for al in sorted({float(pt.get('alt', 1000.0)), -5000.0, 0.0, 1e4, 1e6, 3.9e7}):
                for lo in (0.0, 100.0, -179.0):
                    back = transform.ecef_to_lla(transform.lla_to_ecef(np.array([la, lo, al])))
                    err = max(abs(back[0] - la) * 111e3, abs(back[2] - al), abs(((back[1] - lo + 180) % 360) - 180) * 111e3 * math.cos(math.radians(la)))
                    if err > worst[0]:
                        worst = (err, (la, lo, al, back.tolist()))
        if worst[0] > 1e-6:
            fails.append('ecef_to_lla(lla_to_ecef(p)) differs from p by %.3g m at lat %g lon %g alt %g (got %s)' % ((worst[0],) + worst[1]))
        return {'violated': bool(fails), 'detail': fails}
    if spec['check'] == 'ecef':
        lonr = math.radians(pt.get('lon', 30.0))
        rho, z = pt.get('rho', 4e6), pt.get('z', 3e6)
        r = np.array([rho * math.cos(lonr), rho * math.sin(lonr), z])
        a = transform.ecef_to_lla(r)
        b = transform.ecef_to_lla(r * [1, 1, -1])
        if abs(((a[1] - pt.get('lon', 30.0) + 180) % 360) - 180) > 1e-9:
            fails.append('longitude %r != %r' % (a[1], pt.get('lon', 30.0)))
        if abs(a[0] + b[0]) > 1e-12 or abs(a[2] - b[2]) > 1e-6 or abs(a[1] - b[1]) > 1e-12:
            fails.append('z -> -z does not mirror latitude: %s vs %s' % (a.tolist(), b.tolist()))
        st = transform.ecef_to_lla(np.array([r, r * [1, 1, -1]]))
        if not (np.allclose(st[0], a, rtol=0, atol=1e-12) and np.allclose(st[1], b, rtol=0, atol=1e-12)):
            fails.append('stacked != single')
        am = transform.ecef_to_lla(np.array([-abs(rho), 0.0, z]))
        if abs(abs(am[1]) - 180.0) > 1e-12:
            fails.append('a point on the antimeridian has longitude %r, not +-180' % am[1])
        for lon_ in (179.9999999, -179.99999999, 180.0, -180.0):
            p_ = np.array([10.0, lon_, 100.0])
            back = transform.ecef_to_lla(transform.lla_to_ecef(p_))
            dl = abs(((back[1] - lon_ + 180) % 360) - 180) * 111e3
            if dl > 1e-6 or abs(back[0] - 10.0) * 111e3 > 1e-6:
                fails.append('round trip next to the antimeridian: lon %r comes back as %r (%.3g m)' % (lon_, back[1], dl))
        return {'violated': bool(fails), 'detail': fails}
    lla = np.array([lat, lon, alt])
    r_e = transform.lla_to_ecef(lla)
    C = transform.mat_en_from_ll(lat, lon)
    rn, re, rp = earth.principal_radii(lat, alt)
    r0 = transform.lla_to_ecef([lat, lon, 0.0])
    A, E2, W = earth.A, earth.E2, earth.RATE
    if abs((r0[0]**2 + r0[1]**2) / A**2 + r0[2]**2 / (A**2 * (1 - E2)) - 1) > 1e-12:
        fails.append('lla_to_ecef(.,0) not on the WGS-84 ellipsoid')
    if not np.allclose(r_e - r0, -alt * C[:, 2], atol=1e-6):
        fails.append('altitude offset not along the ellipsoid normal')
    if not np.allclose(C @ C.T, np.eye(3), atol=1e-12) or abs(np.linalg.det(C) - 1) > 1e-12:
        fails.append('mat_en not a proper rotation')
    h = 1e-6
    dlat = (transform.lla_to_ecef([lat + h, lon, alt]) - transform.lla_to_ecef([lat - h, lon, alt])) / (2 * math.radians(h))
    dlon = (transform.lla_to_ecef([lat, lon + h, alt]) - transform.lla_to_ecef([lat, lon - h, alt])) / (2 * math.radians(h))
    dalt = (transform.lla_to_ecef([lat, lon, alt + 1]) - transform.lla_to_ecef([lat, lon, alt - 1])) / 2
    if not np.allclose(dlat, rn * C[:, 0], rtol=1e-6, atol=1e-2):
        fails.append('d r_e/d lat != (R_N+h) north axis')
    if not np.allclose(dlon, rp * C[:, 1], rtol=1e-6, atol=1e-2):
        fails.append('d r_e/d lon != (R_E+h) cos(lat) east axis')
    if not np.allclose(dalt, -C[:, 2], atol=1e-6):
        fails.append('d r_e/d alt != -down axis')
    d = np.array([pt.get('d0', 3.0), pt.get('d1', -4.0), pt.get('d2', 5.0)])
    e = 1e-2
    lp = transform.perturb_lla(lla, e * d)
    if not np.allclose((transform.lla_to_ecef(lp) - r_e) / e, C @ d, rtol=1e-4, atol=1e-5 * np.abs(d).max()):
        fails.append('perturb_lla does not move the ECEF position by C_en d')
    if not np.allclose(transform.lla_to_ned(np.array([lp]), lla)[0] / e, d, rtol=1e-4, atol=1e-5 * np.abs(d).max()):
        fails.append('lla_to_ned(perturb_lla(lla, d)) != d to first order')
    if not np.allclose(transform.compute_lla_difference(lp, lla) / e, d, rtol=1e-4, atol=1e-5 * np.abs(d).max()):
        fails.append('compute_lla_difference(perturb_lla(lla, d), lla) != d to first order')
    e = 1.0
    lp = transform.perturb_lla(lla, e * d)
    Cp = transform.mat_en_from_ll(lp[0], lp[1])
    Fd = earth.curvature_matrix(lat, alt) @ d
    sk = np.array([[0, -Fd[2], Fd[1]], [Fd[2], 0, -Fd[0]], [-Fd[1], Fd[0], 0]])
    if not np.allclose((Cp - C) / e, C @ sk, atol=3e-3 * np.abs(C @ sk).max() + 1e-12):
        fails.append('curvature_matrix is not the rotation of the NED frame under displacement')
    g = earth.gravity(lat, alt)
    if abs(_numba_integrate.gravity(lat, alt) - g) > 1e-14 * abs(g) * 10:
        fails.append('compiled gravity copy differs from earth.gravity')
    gn = earth.gravity_n(lat, alt)
    if not (gn[0] == 0 and gn[1] == 0 and gn[2] == g):
        fails.append('gravity_n != (0,0,gravity)')
    We = np.array([0, 0, W])
    if not np.allclose(earth.gravitation_ecef(lla), C @ gn + np.cross(We, np.cross(We, r_e)), rtol=1e-10, atol=1e-12):
        fails.append('gravitation_ecef != C_en g_n + W x (W x r_e)')
    if not np.allclose(earth.rate_n(lat), C.T @ We, atol=1e-18):
        fails.append('rate_n != C_en^T (0,0,RATE)')
    # parity
    if abs(earth.gravity(-lat, alt) - g) > 1e-14 or not np.allclose(earth.rate_n(-lat), earth.rate_n(lat) * [1, 1, -1], atol=1e-20):
        fails.append('gravity / rate_n parity in latitude')
    if not np.allclose(transform.lla_to_ecef([-lat, lon, alt]), r_e * [1, 1, -1], atol=1e-6):
        fails.append('lla_to_ecef parity in latitude')
    if not np.allclose(earth.gravitation_ecef([-lat, lon, alt]), earth.gravitation_ecef(lla) * [1, 1, -1], atol=1e-12):
        fails.append('gravitation_ecef parity in latitude')
    cm, cm2 = earth.curvature_matrix(lat, alt), earth.curvature_matrix(-lat, alt)
    if not np.allclose(cm2, cm * np.array([[1, 1, 1], [1, 1, 1], [1, -1, 1]]), atol=1e-22):
        fails.append('curvature_matrix parity in latitude')
    # stacked
    lb = [pt.get('lat_b', 10.0), pt.get('lon_b', 20.0), pt.get('alt_b', 30.0)]
    if not np.array_equal(transform.lla_to_ecef(np.array([lb, lla]))[1], r_e):
        fails.append('stacked lla_to_ecef != single')
    if not np.allclose(earth.gravitation_ecef(np.array([lb, lla]))[1], earth.gravitation_ecef(lla), rtol=0, atol=1e-15):
        fails.append('stacked gravitation_ecef != single')
    if not np.allclose(transform.mat_en_from_ll([lb[0], lat], [lb[1], lon])[1], C, atol=1e-15):
        fails.append('stacked mat_en_from_ll != single')
    if not np.array_equal(earth.curvature_matrix(np.array([lb[0], lat]), np.array([lb[2], alt]))[1], cm):
        fails.append('stacked curvature_matrix != single')
    if not np.array_equal(np.array(earth.principal_radii(np.array([lb[0], lat]), np.array([lb[2], alt])))[:, 1], np.array([rn, re, rp])):
        fails.append('stacked principal_radii != single')
    # the dtype / container of an argument does not matter: integer-typed arrays and plain lists give
    # the result of the float array, and no argument is modified
    il = np.array([int(round(lat)), int(round(lon)), int(round(alt))], dtype=np.int64)
    fl = il.astype(float)
    ie = np.round(transform.lla_to_ecef(fl)).astype(np.int64)
    forms = [('lla_to_ecef', transform.lla_to_ecef, (il,), (fl,)), ('ecef_to_lla', transform.ecef_to_lla, (ie,), (ie.astype(float),)),
             ('perturb_lla', transform.perturb_lla, (il, np.array([30, -40, 5])), (fl, np.array([30.0, -40.0, 5.0]))),
             ('lla_to_ned', transform.lla_to_ned, (np.array([il + [1, 0, 7]]), il), (np.array([fl + [1, 0, 7]]), fl)),
             ('compute_lla_difference', transform.compute_lla_difference, (il + np.array([1, 0, 7]), il), (fl + [1, 0, 7], fl)),
             ('gravitation_ecef', earth.gravitation_ecef, (il,), (fl,)),
             ('gravity', earth.gravity, (il[0], il[2]), (fl[0], fl[2])), ('curvature_matrix', earth.curvature_matrix, (il[0], il[2]), (fl[0], fl[2])),
             ('mat_en_from_ll', transform.mat_en_from_ll, (il[0], il[1]), (fl[0], fl[1]))]
    for nm, f, ai, af in forms:
        keep = [np.array(a, copy=True) for a in ai]
        try:
            ri, rf = np.asarray(f(*ai), dtype=float), np.asarray(f(*af), dtype=float)
            rl = np.asarray(f(*[a.tolist() if isinstance(a, np.ndarray) else a for a in af]), dtype=float)
        except Exception as e_:      # noqa: BLE001
            fails.append('%s raises %s for integer-typed / list arguments' % (nm, type(e_).__name__))
            continue
        if ri.shape != rf.shape or not np.allclose(ri, rf, rtol=1e-12, atol=1e-9) or not np.allclose(rl, rf, rtol=1e-12, atol=1e-9):
            fails.append('%s: integer-typed or list arguments give another result than the float array (max diff %.3g)' % (nm, max(np.abs(ri - rf).max() if ri.shape == rf.shape else np.inf, np.abs(rl - rf).max())))
        if any(not np.array_equal(a, b) or np.asarray(a).dtype != np.asarray(b).dtype for a, b in zip(ai, keep)):
            fails.append('%s modifies its argument' % nm)
    return {'violated': bool(fails), 'detail': fails}


RIM = {'lat': -84.6, 'lon': 150.0, 'alt': 15000.0, 'VN': 250.0, 'VE': -200.0, 'VD': 5.0, 'roll': 120.0, 'pitch': -60.0, 'heading': -170.0}


def FALLBACK(tier):
    """numeric oracle specs put to the compiled code when the symbolic run is inconclusive (main.py)"""
    return [{'check': 'geo', 'point': p} for p in ({}, RIM, {'lat': 0.3, 'lon': -179.9, 'alt': -200.0})] + [{'check': 'ecef', 'point': {'lon': 30.0, 'rho': 4e6, 'z': -3e6}}, {'check': 'olson', 'point': {}}]
