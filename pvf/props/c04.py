"""C04 - the INS error model is the linearisation of actual strapdown error growth (engine A,
bivariate jets: eps = error scale, t = time step; the eps^1 t^1 coefficient of
correct_pva(INS(t), eps x(t)) - truth(t) is the local defect of the model)."""
import fractions

LEVEL = 'other'
PROP = 'C04'
Fr = fractions.Fraction

COMP = ['lat', 'lon', 'alt', 'VN', 'VE', 'VD'] + ['C%d%d' % (i, j) for i in range(3) for j in range(3)]


def _skew(v):
    from .. import symreal as S
    return S.O([[0, -v[2], v[1]], [v[2], 0, -v[0]], [-v[1], v[0], 0]])


class Setup:
    def __init__(self, wa, mutate=None, symconst=False):
        import numpy as np
        import z3
        from .. import symreal as S, enga
        from .c05 import sym_pva
        S.new_ctx([('eps', 1), ('t', 1)])
        self.m = m = enga.install(symconst=symconst)
        if mutate:
            mutate(m)
        self.S, self.np, self.wa = S, np, wa
        K, T, E, EM = m['K'], m['T'], m['E'], m['EM']
        J, O = S.J, S.O
        self.eps, self.t = S.formal(0), S.formal(1)
        pva = sym_pva(lat_range=(-80, 80), pitch_range=(-80, 80))
        S.C.dom += [z3.Real('alt') >= 0, z3.Real('alt') <= 20000]
        if not wa:
            pva['VD'] = J(0)
        self.pva = pva
        self.em = em = EM.InsErrorModel(wa)
        self.n = em.n_states
        F, Bg, Ba = em.system_matrices(pva)
        self.F, self.Bg, self.Ba = map(S.symnp.asarray, (F, Bg, Ba))
        self.w = O([S.var('w%d' % i) for i in range(3)])
        self.f = O([S.var('f%d' % i) for i in range(3)])
        S.C.dom += [z3.Real('w%d' % i) >= -3 for i in range(3)] + [z3.Real('w%d' % i) <= 3 for i in range(3)]
        S.C.dom += [z3.Real('f%d' % i) >= -30 for i in range(3)] + [z3.Real('f%d' % i) <= 30 for i in range(3)]
        self.Cm = T.mat_from_rph(pva[['roll', 'pitch', 'heading']])
        self.lla0 = pva[['lat', 'lon', 'alt']].values
        self.V = pva[['VN', 'VE', 'VD']].values
        if not wa:
            # no-altitude mode = motion on the surface: the vertical specific force balances gravity
            # and the vertical Coriolis/transport terms, as VD = 0 for all time implies
            # (kernel's own vertical equation: 0 = f_D - (chi1+Omega1) VE + (chi2+Omega2) VN + g)
            R = E.curvature_matrix(pva.lat, pva.alt)
            Om = E.rate_n(pva.lat)
            rho = np.dot(S.symnp.asarray(R), self.V)
            chi = rho + 2 * Om
            fD = chi[0] * self.V[1] - chi[1] * self.V[0] - E.gravity(pva.lat, pva.alt)
            fn = O([S.var('fN'), S.var('fE'), fD])
            S.C.dom += [z3.Real('fN') >= -30, z3.Real('fN') <= 30, z3.Real('fE') >= -30, z3.Real('fE') <= 30]
            self.f = np.dot(self.Cm.T, fn)
        self.T32 = S.symnp.asarray(em._transform_3d_2d(pva.VN, pva.VE)) if not wa else None
        self.truth = self.step(self.lla0, self.V, self.Cm, self.w, self.f)

    def step(self, lla0, v0, m0, ww, ff):
        S, K = self.S, self.m['K']
        O, t = S.O, self.t
        lla = S.symnp.empty((2, 3))
        vel = S.symnp.empty((2, 3))
        mat = S.symnp.empty((2, 3, 3))
        lla[0] = lla0
        vel[0] = v0
        mat[0] = m0
        K.integrate(O([t]), lla, vel, mat, O([[x * t for x in ww]]), O([[x * t for x in ff]]), 0, self.wa)
        return lla[1], vel[1], mat[1]

    def defect(self, k):
        """eps^1 t^1 coefficients of correct(INS(t), eps x(t)) - truth(t), 15 components, for the
        unit direction k of [x0 (n) | gyro error (3) | accel error (3)]"""
        S, np, T = self.S, self.np, self.m['T']
        J, O, eps, t, n = S.J, S.O, self.eps, self.t, self.n
        x0 = O([J(0)] * n)
        dw = O([J(0)] * 3)
        df = O([J(0)] * 3)
        if k < n:
            x0[k] = J(1)
        elif k < n + 3:
            dw[k - n] = J(1)
        else:
            df[k - n - 3] = J(1)
        xdot = np.dot(self.F, x0) + np.dot(self.Bg, dw) + np.dot(self.Ba, df)
        xt = O([(x0[i] + t * xdot[i]) * eps for i in range(n)])
        ex0 = O([x0[i] * eps for i in range(n)])
        if self.wa:
            e3, x3t = ex0, xt
        else:
            e3, x3t = np.dot(self.T32, ex0), np.dot(self.T32, xt)
        ins_lla0 = T.perturb_lla(self.lla0, e3[0:3])
        ins_v0 = np.dot(S.symnp.eye(3) - _skew(e3[6:9]), self.V) + e3[3:6]
        ins_m0 = np.dot(S.symnp.eye(3) - _skew(e3[6:9]), self.Cm)
        if not self.wa:
            ins_v0[2] = J(0)
        il, iv, im = self.step(ins_lla0, ins_v0, ins_m0, self.w + dw * eps, self.f + df * eps)
        mat_tp = S.symnp.eye(3) + _skew(x3t[6:9])
        cl = T.perturb_lla(il, -x3t[0:3])
        cv = np.dot(mat_tp, iv - x3t[3:6])
        if not self.wa:
            cv[2] = iv[2]
        cm = np.dot(mat_tp, im)
        tl, tv, tm = self.truth
        comps = [J(cl[i]) - J(tl[i]) for i in range(3)] + [J(cv[i]) - J(tv[i]) for i in range(3)] + \
                [J(cm[i, j]) - J(tm[i, j]) for i in range(3) for j in range(3)]
        return comps


def direction_names(n):
    st = ['DR1', 'DR2', 'DR3', 'DV1', 'DV2', 'DV3', 'PHI1', 'PHI2', 'PHI3'] if n == 9 else ['DR1', 'DR2', 'DV1', 'DV2', 'PHI1', 'PHI2', 'PHI3']
    return st + ['gyro_x', 'gyro_y', 'gyro_z', 'accel_x', 'accel_y', 'accel_z']


def section(rep, wa, mutate=None, dirs=None, symconst=False):
    import numpy as np
    import z3
    from .. import symreal as S, enga
    su = Setup(wa, mutate, symconst)
    su.general_v = []
    n = su.n
    names = direction_names(n)
    tag = '3D' if wa else '2D'
    obls = []
    meta = lambda k: {'check': 'defect', 'tol': 1e-13, 'params': {'wa': wa, 'dir': k}}
    V0 = [z3.Real('VN') == 0, z3.Real('VE') == 0, z3.Real('VD') == 0]
    Om = su.m['E'].rate_n(su.pva.lat)
    bound = S.rat(Fr(2, 10**7))
    for k in (dirs if dirs is not None else range(n + 6)):
        comps = su.defect(k)
        nm = names[k]
        for ci, r in enumerate(comps):
            if not wa and COMP[ci] in ('alt', 'VD'):
                # frozen by construction in the no-altitude mode (C13)
                continue
            o0 = r.part(1, 0)
            obls.append(enga.zero('%s %s -> %s: order eps^1 t^0 (initial error reproduced)' % (tag, nm, COMP[ci]), o0, 'initial condition', meta=meta(k)))
            d = r.part(1, 1)
            kind = nm[:2]
            if kind in ('DV', 'gy', 'ac'):
                obls.append(enga.zero('%s %s -> %s: model column is the exact linearisation of the kernel' % (tag, nm, COMP[ci]), d, 'exact columns (velocity, gyro, accel errors)', meta=meta(k)))
            elif kind == 'PH':
                if COMP[ci] in ('VN', 'VE', 'VD'):
                    phi = S.O([S.J(1) if i == int(nm[3]) - 1 else S.J(0) for i in range(3)])
                    cand = np.cross(np.cross(Om, phi), su.V)
                    vi = ['VN', 'VE', 'VD'].index(COMP[ci])
                    obls.append(enga.zero('%s %s -> %s: the only neglected term is ((Omega_n x phi) x V)' % (tag, nm, COMP[ci]), d - S.J(cand[vi]),
                                          'attitude columns: velocity rows differ by (Omega x phi) x V exactly', meta=meta(k)))
                else:
                    obls.append(enga.zero('%s %s -> %s: exact' % (tag, nm, COMP[ci]), d, 'attitude columns: position and attitude rows exact', meta=meta(k)))
            else:   # position error directions
                if nm == 'DR1' and COMP[ci] == 'VD':
                    ob = enga.holds('%s DR1 -> VD at V = 0: |residual| <= 2e-7 1/s^2 (d gravity / d latitude, neglected)' % tag,
                                    z3.And(d.c0 <= bound, d.c0 >= -bound), 'position columns', V0, meta(k))
                    ob.expr = None
                    obls.append(ob)
                else:
                    mk_ = meta(k)
                    mk_['box'] = {'VN': (0, 0), 'VE': (0, 0), 'VD': (0, 0)}
                    obls.append(enga.zero('%s %s -> %s at V = 0: exact' % (tag, nm, COMP[ci]), d, 'position columns: exact at zero velocity', V0, mk_))
                su.general_v.append((nm, COMP[ci], d))
    rep.run.encode(su.m['EM'].InsErrorModel.system_matrices, su.m['K'].integrate, su.m['K'].mat_from_rotvec, su.m['K'].gravity,
                   su.m['E'].curvature_matrix, su.m['E'].rate_n, su.m['E'].gravity_n, su.m['T'].perturb_lla)
    return obls, su


def section_propagate(rep, wa, mutate=None):
    """propagate_errors on a three-row trajectory with stamps 0, t, t + mu t (mu symbolic: irregular
    sampling): row 1 = x0 + t (F x0 + B u), row 2 = x0 + (1 + mu) t (F x0 + B u) through order t"""
    import numpy as np
    import pandas as pd
    import z3
    from .. import symreal as S, enga
    from .c05 import sym_pva
    from pyins.util import TRAJECTORY_COLS, TRAJECTORY_ERROR_COLS
    S.new_ctx([('t', 1)])
    m = enga.install()
    if mutate:
        mutate(m)
    EM = m['EM']
    J, O = S.J, S.O
    t = S.formal(0)
    pva = sym_pva(lat_range=(-80, 80), pitch_range=(-80, 80))
    if not wa:
        pva['VD'] = J(0)
    rate = O([S.var('q_%s' % c) for c in TRAJECTORY_COLS])
    mu = S.var('mu')
    S.C.dom += [z3.Real('mu') >= S.rat(S.Fr(1, 5)), z3.Real('mu') <= 5]
    row1 = pd.Series([pva.iloc[i] + rate[i] * t for i in range(9)], index=TRAJECTORY_COLS, dtype=object)
    row2 = pd.Series([pva.iloc[i] + rate[i] * t * (1 + mu) for i in range(9)], index=TRAJECTORY_COLS, dtype=object)
    if not wa:
        row1['VD'] = J(0)
        row2['VD'] = J(0)
    traj = pd.DataFrame([pva.values, row1.values, row2.values], columns=TRAJECTORY_COLS, index=pd.Index([J(0), t, t * (1 + mu)], dtype=object), dtype=object)
    e0 = pd.Series([S.var('e_%s' % c) for c in TRAJECTORY_ERROR_COLS], index=TRAJECTORY_ERROR_COLS, dtype=object)
    if not wa:
        e0['down'] = J(0)
        e0['VD'] = J(0)
    gy = O([S.var('gy%d' % i) for i in range(3)])
    ac = O([S.var('ac%d' % i) for i in range(3)])
    terr, merr = EM.propagate_errors(traj, e0, gy, ac, with_altitude=wa)
    em = EM.InsErrorModel(wa)
    F, Bg, Ba = map(S.symnp.asarray, em.system_matrices(pva))
    Tint = S.symnp.asarray(em.transform_to_internal(pva))
    Tout = S.symnp.asarray(em.transform_to_output(pva))
    x0 = np.dot(Tint, e0.values)
    xdot = np.dot(F, x0) + np.dot(Bg, gy) + np.dot(Ba, ac)
    tag = '3D' if wa else '2D'
    meta = {'check': 'propagate', 'params': {'wa': wa}}
    obls = []
    for i in range(em.n_states):
        obls.append(enga.zero('%s propagate_errors: row 0 internal state %d = T_int e0' % (tag, i), J(merr.values[0][i]).part(0) - x0[i], 'propagate_errors', meta=meta))
        obls.append(enga.zero('%s propagate_errors: row 1 internal state %d, order t^0' % (tag, i), J(merr.values[1][i]).part(0) - x0[i], 'propagate_errors', meta=meta))
        obls.append(enga.zero('%s propagate_errors: row 1 internal state %d, order t^1 = (F x0 + B_gyro g + B_accel a)' % (tag, i),
                              J(merr.values[1][i]).part(1) - xdot[i], 'propagate_errors', meta=meta))
        obls.append(enga.zero('%s propagate_errors: row 2 (irregular stamps 0, t, t + mu t) internal state %d, order t^1 = (1 + mu) (F x0 + B_gyro g + B_accel a)' % (tag, i),
                              J(merr.values[2][i]).part(1) - (1 + mu) * xdot[i], 'propagate_errors', meta=meta))
    back = np.dot(Tout, x0)
    for i, c in enumerate(TRAJECTORY_ERROR_COLS):
        obls.append(enga.zero('%s propagate_errors: output row 0 %s = T_out T_int e0' % (tag, c), J(terr.values[0][i]).part(0) - back[i], 'propagate_errors', meta=meta))
    rep.run.encode(EM.propagate_errors)
    return obls


CANARIES = [
    ('Coriolis block sign', ('EM', 'InsErrorModel.system_matrices', 'F[np.ix_(samples, self.DV, self.DV)] = -util.skew_matrix(2 * Omega_n + rho_n)', 'F[np.ix_(samples, self.DV, self.DV)] = util.skew_matrix(2 * Omega_n + rho_n)'), [3, 4, 5]),
    ('Coriolis factor', ('EM', 'InsErrorModel.system_matrices', '-util.skew_matrix(2 * Omega_n + rho_n)', '-util.skew_matrix(Omega_n + rho_n)'), [3, 4]),
    ('gravity coupling sign', ('EM', 'InsErrorModel.system_matrices', 'F[np.ix_(samples, self.DV, self.PHI)] = -util.skew_matrix(g_n)', 'F[np.ix_(samples, self.DV, self.PHI)] = util.skew_matrix(g_n)'), [6, 7]),
    ('transport-rate block PHI<-DV', ('EM', 'InsErrorModel.system_matrices', 'F[np.ix_(samples, self.PHI, self.DV)] = R', 'F[np.ix_(samples, self.PHI, self.DV)] = -R'), [3, 4]),
    ('small block PHI<-DR (1e-7 sized)', ('EM', 'InsErrorModel.system_matrices', 'F[np.ix_(samples, self.PHI, self.DR)] = util.mm_prod(util.skew_matrix(Omega_n),', 'F[np.ix_(samples, self.PHI, self.DR)] = -util.mm_prod(util.skew_matrix(Omega_n),'), [0, 1, 2]),
    ('vertical channel gravity gradient', ('EM', 'InsErrorModel.system_matrices', 'F[:, self.DV3, self.DR3] = 2 * earth.gravity(trajectory.lat, 0) / earth.A', 'F[:, self.DV3, self.DR3] = -2 * earth.gravity(trajectory.lat, 0) / earth.A'), [2]),
    ('gyro coupling into velocity dropped', ('EM', 'InsErrorModel.system_matrices', 'B_gyro[np.ix_(samples, self.DV, [0, 1, 2])] = util.mm_prod(V_skew, mat_nb)', 'pass'), [9, 10]),
    ('accel coupling transposed', ('EM', 'InsErrorModel.system_matrices', 'B_accel[np.ix_(samples, self.DV, [0, 1, 2])] = mat_nb', 'B_accel[np.ix_(samples, self.DV, [0, 1, 2])] = np.transpose(mat_nb, (0, 2, 1))'), [12, 13]),
    ('kernel Coriolis term', ('K', 'integrate', '+ (chi3 + Omega3) * V2', '+ (chi3) * V2'), [4]),
    ('attitude dynamics block', ('EM', 'InsErrorModel.system_matrices', '(-util.skew_matrix(rho_n + Omega_n) +', '(util.skew_matrix(rho_n + Omega_n) +'), [6, 7]),
]
CANARIES_2D = [
    ('2D reduction uses the wrong embedding sign', ('EM', 'InsErrorModel._transform_3d_2d', 'result[:, 5, 4] = VE', 'result[:, 5, 4] = -VE'), [4, 5]),
]


def run(run):
    import z3
    from .. import enga, common
    from .. import symreal as S
    from .c05 import PVA_BOX, _mut_method
    box = dict(PVA_BOX)
    box.update({'lat': (-79, 79), 'pitch': (-79, 79)})
    for i in range(3):
        box['w%d' % i] = (-2, 2)
        box['f%d' % i] = (-20, 20)
    rep = enga.AReport(run, box=box)
    rep.definedness = True
    run.assume('formalisation: truth y(t) = kernel(y0, w t, f t, t); INS y^(t) = kernel(y^0, (w + eps dw) t, (f + eps df) t, t) with y^0 the state whose correction by eps x0 is y0; candidate error x(t) = x0 + t (F x0 + B_gyro dw + B_accel df) from the real system_matrices(y0); defect = eps^1 t^1 coefficient of correct_pva(y^(t), eps x(t)) - y(t), per unit direction of x0, dw, df and per state component',
               'correct_pva is applied in its first-order form (I + [phi x]), exact to the order compared; exact real arithmetic; finite filter time steps (0.1..2 s) are not used: t is formal',
               'domain: |lat| <= 80, |pitch| <= 80 deg, |V| <= 300 m/s per axis, altitude 0..20 km, |w| <= 3 rad/s, |f| <= 30 m/s^2; WGS-84 constants as exact rationals of their doubles',
               'terms the model neglects (decided, with names): velocity rows of the attitude columns differ by exactly (Omega_n x phi) x V; position columns are exact at V = 0 except d(gravity)/d(latitude) in [DV3, DR1] (bounded by 2e-7 1/s^2)',
               'NOT decided: for V != 0 the position columns carry further residuals proportional to velocity (d(transport rate)/d(position)); a box bound over the 14-variable domain was tried and is `unknown` for nlsat, so their maxima over seeded points are reported as information (coverage.position_column_residual_maxima) and are not part of the verdict',
               'no-altitude mode: the specific force is in vertical equilibrium (f_D balances gravity and the vertical Coriolis/transport terms), which VD = 0 for all time implies; for arbitrary vertical specific force the 7-state model is not the linearisation of the 2D integrator and does not claim to be')
    timeout = 60 if run.tier == 'quick' else 300
    for wa in (True, False):
        obls, su = section(rep, wa)
        rep.finish(rep.batch(obls, timeout_s=timeout), PROP)
        # information only: size of the velocity-proportional residuals of the position columns
        import random
        rng = random.Random(run.seed)
        mx = {}
        for _ in range(50):
            pt = enga.sample_point(S.base_vars([d.c0 for _a, _b, d in su.general_v]), box, rng)
            pt.pop('deg', None)
            ev = S.Evaluator(S.C, pt)
            for a, b, d in su.general_v:
                try:
                    mx['%s->%s' % (a, b)] = max(mx.get('%s->%s' % (a, b), 0.0), abs(ev.ev(d.c0)))
                except (KeyError, ZeroDivisionError, ValueError):
                    pass
        run.cov.setdefault('position_column_residual_maxima', {})['3D' if wa else '2D'] = {k: float('%.3g' % v) for k, v in mx.items() if v > 0}
        s = z3.Solver()
        s.add(S.C.cons)
        s.add(S.C.dom)
        run.witness('%s: constraint set satisfiable' % ('3D' if wa else '2D'), s.check() == z3.sat)
        obls = section_propagate(rep, wa)
        rep.finish(rep.batch(obls, timeout_s=timeout), PROP)
    rep.selfcheck(PROP, [{'check': 'defect', 'point': pt, 'params': {'wa': wa, 'dir': d}} for wa in (True, False) for d in ((0, 4, 7, 10, 13) if wa else (1, 3, 5, 8)) for pt in rep.points(1 if run.tier == 'quick' else 5)] +
                  [{'check': 'propagate', 'point': {}, 'params': {'wa': wa}} for wa in (True, False)])
    cans = [(c, True) for c in CANARIES] + [(c, False) for c in CANARIES_2D]
    if run.tier == 'quick':
        cans = cans[::2] + [cans[-1]]
    for (name, spec, dirs), wa in cans:
        try:
            obls, _ = section(rep, wa, _mut_method(spec), dirs=dirs)
        except common.HarnessError as e:
            run.canary(name, False, str(e))
            continue
        except (ValueError, IndexError, TypeError) as e:
            run.canary(name, True, 'mutant raises %s: %s' % (type(e).__name__, e))
            continue
        rep.canary(name, [o for o in obls if o.expr is not None], timeout_s=10)
    enga.restore()
    run.bounds.update({'series order': 'eps^1 t^1', 'directions': '9 (7) error states + 6 sensor-error directions x 15 state components, both altitude modes'})


def defect_oracle(pva, w, f, wa, k, pt=None):
    """The eps^1 dt^1 coefficient of  correct_pva(INS(dt), eps x(dt)) - truth(dt)  measured on the
    compiled integrator: central difference in eps (removes eps^2), two Richardson stages in dt
    over single steps of dt, dt/2, dt/4 (remove dt^2 and dt^3).  The documented neglected term
    ((Omega x phi) x V in the velocity rows of the attitude columns) is subtracted; position
    columns carry the documented velocity-proportional allowance.  Returns per output row the
    defect, the tolerance (rounding noise of the state representation + truncation) and ratio."""
    import numpy as np
    import pandas as pd
    from pyins import error_model, transform, strapdown, earth
    em = error_model.InsErrorModel(wa)
    n = em.n_states
    names = direction_names(n)
    kind = names[k][:2]
    F, Bg, Ba = em.system_matrices(pva)
    x0 = np.zeros(n)
    dw = np.zeros(3)
    df = np.zeros(3)
    if k < n:
        x0[k] = 1.0
    elif k < n + 3:
        dw[k - n] = 1.0
    else:
        df[k - n - 3] = 1.0
    xdot = F @ x0 + Bg @ dw + Ba @ df
    scale = np.array([1, 1, 1, 1, 1, 1, 180 / np.pi, 180 / np.pi, 180 / np.pi])

    def run_(p0, ww, ff, dt):
        inc = pd.DataFrame([np.hstack([[dt], ww * dt, ff * dt])], index=[dt], columns=['dt', 'theta_x', 'theta_y', 'theta_z', 'dv_x', 'dv_y', 'dv_z'])
        it = strapdown.Integrator(p0, wa)
        it.integrate(inc)
        return it.get_pva()

    def g(eps, dt):
        ins0 = em.correct_pva(pva, -eps * x0)
        ins0.name = 0.0
        tr = run_(pva, w, f, dt)
        ins = run_(ins0, w + eps * dw, f + eps * df, dt)
        corr = em.correct_pva(ins, eps * (x0 + dt * xdot))
        return transform.compute_state_difference(corr, tr).values / scale
    eps = {'DR': 100.0, 'DV': 0.1, 'PH': 1e-3, 'gy': 1e-3, 'ac': 1e-1}[kind]
    dt = 2e-2
    gc = lambda h: (g(eps, h) - g(-eps, h)) / (2 * eps)
    A1 = lambda h: (4 * gc(h / 2) - gc(h)) / h
    a1, a1h = A1(dt), A1(dt / 2)
    a = (4 * a1h - a1) / 3
    V = pva[['VN', 'VE', 'VD']].values.astype(float)
    speed = float(np.linalg.norm(V))
    neglected = np.zeros(9)
    if kind == 'PH':
        phi3 = (em._transform_3d_2d(pva.VN, pva.VE) @ x0 if not wa else x0)[6:9]
        neglected[3:6] = np.cross(np.cross(earth.rate_n(pva.lat), phi3), V)
        if not wa:
            neglected[5] = 0.0
    d = a - neglected
    tanl = abs(np.tan(np.radians(pva.lat)))
    sec_p = 1 / max(np.cos(np.radians(pva.pitch)), 0.05)
    noise = np.array([2e-8] * 3 + [1e-12 * max(1.0, speed / 10)] * 3 + [4e-14 * sec_p] * 3) * 45 / (eps * dt)
    x3 = (em._transform_3d_2d(pva.VN, pva.VE) @ xdot) if not wa else xdot
    rowscale = np.abs(np.hstack([x3[0:3], x3[3:6], x3[6:9]]))
    blocks = np.array([rowscale[0:3].max()] * 3 + [rowscale[3:6].max()] * 3 + [rowscale[6:9].max()] * 3)
    tol = noise + 1e-5 * blocks + 1e-12
    if k >= n:
        wn = float(np.linalg.norm(w))
        tol = tol + (1e-4 + (wn * dt) ** 3) * max(np.abs(xdot).max(), 1e-9) * 10
    if kind == 'DR':
        # position-error columns: exact at V = 0 except d(gravity)/d(latitude) (<= 2e-7 1/s^2); for
        # V != 0 the model neglects d(transport rate)/d(position) and the rotation of the position
        # error with the frame: per metre of position error |V|/R (1 + |tan lat|) in the position
        # rows, (|V|/R)(|V|/R + 2 Omega)(1 + tan^2) in the velocity rows, (|V|/R)/R (1 + tan^2) in
        # the attitude rows
        sr = speed / 6.3e6
        t2 = 1 + tanl ** 2
        tol = tol + np.array([3 * sr * (1 + tanl)] * 3 + [6e-7 + 3 * sr * (sr + 1.5e-4) * t2] * 3 + [8 * sr / 6.3e6 * t2 + 1e-12] * 3)
    return {'name': names[k], 'defect': d.tolist(), 'tol': tol.tolist(), 'neglected': neglected.tolist(), 'ratio': (np.abs(d) / tol).tolist(), 'a': a.tolist(),
            'richardson_gap': np.abs(a - a1h).tolist()}


def replay(spec):
    """numeric oracle: the defect coefficient measured on the compiled integrator vs the model"""
    import numpy as np
    import pandas as pd
    from pyins import error_model, transform, strapdown, earth
    from pyins.util import TRAJECTORY_COLS
    pt = spec['point']
    pr = spec.get('params') or {}
    wa = pr.get('wa', True)
    defaults = dict(lat=40.0, lon=30.0, alt=1000.0, VN=50.0, VE=-30.0, VD=3.0, roll=10.0, pitch=-20.0, heading=100.0)
    pva = pd.Series([pt.get(k, defaults[k]) for k in TRAJECTORY_COLS], index=TRAJECTORY_COLS, name=0.0)
    if not wa:
        pva['VD'] = 0.0
    w = np.array([pt.get('w%d' % i, 0.1 * (i + 1)) for i in range(3)])
    f = np.array([pt.get('f%d' % i, [0.5, -0.3, -9.8][i]) for i in range(3)])
    if not wa:
        # vertical equilibrium of the specific force (see the assumptions of the check)
        C = transform.mat_from_rph(pva[['roll', 'pitch', 'heading']])
        V = pva[['VN', 'VE', 'VD']].values
        chi = earth.curvature_matrix(pva.lat, pva.alt) @ V + 2 * earth.rate_n(pva.lat)
        fD = chi[0] * V[1] - chi[1] * V[0] - earth.gravity(pva.lat, pva.alt)
        f = C.T @ np.array([pt.get('fN', 0.5), pt.get('fE', -0.3), fD])
    em = error_model.InsErrorModel(wa)
    n = em.n_states
    fails = []
    if spec.get('check') == 'propagate':
        dt = 1e-3
        mu_ = float(min(5.0, max(0.2, pt.get('mu', 2.5))))
        if abs(mu_ - 1) < 0.1:
            mu_ = 2.5
        rows = np.vstack([pva.values, pva.values, pva.values])
        traj = pd.DataFrame(rows, columns=TRAJECTORY_COLS, index=[0.0, dt, dt + mu_ * dt])
        e0 = pd.Series(np.arange(1.0, 10.0) * 0.1, index=error_model.TRAJECTORY_ERROR_COLS)
        if not wa:
            e0['down'] = 0.0
            e0['VD'] = 0.0
        gy, ac = np.array([1e-3, -2e-3, 3e-3]), np.array([0.01, 0.02, -0.03])
        terr, merr = error_model.propagate_errors(traj, e0, gy, ac, with_altitude=wa)
        F, Bg, Ba = em.system_matrices(pva)
        x0 = em.transform_to_internal(pva) @ e0.values
        want = x0 + dt * (F @ x0 + Bg @ gy + Ba @ ac)
        if not np.allclose(merr.values[1], want, rtol=1e-9, atol=1e-12):
            fails.append('propagate_errors: one step != x0 + dt (F x0 + B u)')
        # second, longer step (irregular stamps): trapezoidal step from row 1 with constant F, B
        want2 = want + mu_ * dt * (F @ want + Bg @ gy + Ba @ ac)
        if not np.allclose(merr.values[2], want2, rtol=1e-9, atol=1e-12):
            fails.append('propagate_errors: the second step (length %.3g x the first) != x1 + dt2 (F x1 + B u): max deviation %.3g' % (mu_, np.abs(merr.values[2] - want2).max()))
        return {'violated': bool(fails), 'detail': fails}
    k = pr.get('dir', 0)
    res = defect_oracle(pva, w, f, wa, k, pt)
    worst = max(res['ratio'])
    if worst > 1:
        i = int(np.argmax(res['ratio']))
        fails.append('direction %d (%s): the eps^1 dt^1 defect of the corrected INS state, row %s, is %.3g (tolerance %.3g; documented neglected term %.3g already removed): the model column is not the linearisation of the integrator'
                     % (k, res['name'], ['north', 'east', 'down', 'VN', 'VE', 'VD', 'roll', 'pitch', 'heading'][i], res['defect'][i], res['tol'][i], res['neglected'][i]))
    return {'violated': bool(fails), 'detail': fails}


RIM = {'lat': -84.6, 'lon': 150.0, 'alt': 15000.0, 'VN': 250.0, 'VE': -200.0, 'VD': 5.0, 'roll': 120.0, 'pitch': -60.0, 'heading': -170.0}


def FALLBACK(tier):
    """numeric oracle specs put to the compiled code when the symbolic run is inconclusive (main.py)"""
    return [{'check': 'defect', 'point': p, 'params': {'wa': wa, 'dir': d}} for wa in (True, False) for d in ((0, 2, 4, 7, 10, 13) if wa else (1, 3, 5, 8)) for p in ({}, RIM)] + [{'check': 'propagate', 'point': {}, 'params': {'wa': wa}} for wa in (True, False)]
