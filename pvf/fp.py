"""Engine C: FloatingPoint (binary64, RNE) lemmas with z3's QF_FP theory, and a translator from
structural cell terms (pvf.symtime.K built by the kernel's own arithmetic) to FP expressions."""
import time
import z3

from .symtime import K

F64 = z3.Float64()
RNE = z3.RNE()


def fpvar(name):
    return z3.FP(name, F64)


def fpval(x):
    return z3.FPVal(float(x), F64)


class Translator:
    """term -> z3 FP expression; unknown operations become fresh FP variables per distinct
    sub-term (uninterpreted, i.e. arbitrary including NaN/inf unless constrained)"""

    def __init__(self):
        self.leaves = {}
        self.memo = {}

    def leaf(self, key):
        kid = key.id if isinstance(key, K) else ('c', key)
        if kid not in self.leaves:
            self.leaves[kid] = fpvar('x%d' % len(self.leaves))
        return self.leaves[kid]

    def tr(self, t):
        if isinstance(t, bool):
            raise TypeError(t)
        if isinstance(t, (int, float)):
            return fpval(t)
        if not isinstance(t, K):
            raise TypeError('cannot translate %r' % (t,))
        if t.id in self.memo:
            return self.memo[t.id]
        op = t[0]
        if op in ('add', 'sub', 'mul', 'div') and len(t) == 3:
            a, b = self.tr(t[1]), self.tr(t[2])
            r = {'add': z3.fpAdd, 'sub': z3.fpSub, 'mul': z3.fpMul, 'div': z3.fpDiv}[op](RNE, a, b)
        elif op == 'neg' and len(t) == 2:
            r = z3.fpNeg(self.tr(t[1]))
        elif op == 'raw' and len(t) == 2:
            r = self.tr(t[1])
        else:
            r = self.leaf(t)
        self.memo[t.id] = r
        return r


def prove(claim, assumptions=(), timeout_ms=60000):
    """returns ('unsat'|'sat'|'unknown', model_or_None, seconds)"""
    s = z3.Solver()
    s.set('timeout', timeout_ms)
    for a in assumptions:
        s.add(a)
    s.add(z3.Not(claim))
    t0 = time.time()
    r = s.check()
    dt = time.time() - t0
    return str(r), (s.model() if r == z3.sat else None), dt


def finite(x):
    return z3.And(z3.Not(z3.fpIsNaN(x)), z3.Not(z3.fpIsInf(x)))
