"""Engine B harness for strapdown.Integrator: runs the REAL Integrator methods and the REAL
kernel source (`_numba_integrate.integrate`, NUMBA_DISABLE_JIT) on
  * symbolic row counts / capacities (z3 Int, linear expressions),
  * buffers whose rows are addressed by symbolic indices (every access bounds-checked by the
    solver under the path condition),
  * numeric cells that are structural terms (hash-consed) built by the kernel's own arithmetic.
Identical terms => identical bits (same deterministic float operations on the same operands).
Used by C02 and C13.
"""
import builtins
import z3

from . import paths
from .paths import Abort
from .symtime import B, Tok, K, mk, _key

LLA = ('lat', 'lon', 'alt')
VEL = ('VN', 'VE', 'VD')
RPH = ('roll', 'pitch', 'heading')
THETA = ('theta_x', 'theta_y', 'theta_z')
DV = ('dv_x', 'dv_y', 'dv_z')


# ------------------------------------------------------------------------------------------
# symbolic integers (linear over named z3 Int variables)
# ------------------------------------------------------------------------------------------
class I:
    __slots__ = ('t', 'c')

    def __init__(self, terms=None, const=0):
        self.t = {k: v for k, v in (terms or {}).items() if v != 0}
        self.c = const

    @staticmethod
    def var(name):
        return I({name: 1}, 0)

    def z(self):
        e = z3.IntVal(self.c)
        for k in sorted(self.t):
            e = e + self.t[k] * z3.Int(k)
        return e

    def key(self):
        return mk('I', self.c, *[mk(k, self.t[k]) for k in sorted(self.t)])

    def is_const(self):
        return not self.t

    def _lin(self, o, sgn):
        o = asI(o)
        if o is NotImplemented:
            return NotImplemented
        t = dict(self.t)
        for k, v in o.t.items():
            t[k] = t.get(k, 0) + sgn * v
        return _norm(I(t, self.c + sgn * o.c))

    def __add__(self, o): return self._lin(o, 1)
    __radd__ = __add__
    def __sub__(self, o): return self._lin(o, -1)

    def __rsub__(self, o):
        o = asI(o)
        return NotImplemented if o is NotImplemented else o._lin(self, -1)

    def __neg__(self):
        return _norm(I({k: -v for k, v in self.t.items()}, -self.c))

    def __mul__(self, o):
        o = asI(o)
        if o is NotImplemented:
            return NotImplemented
        if o.is_const():
            return _norm(I({k: v * o.c for k, v in self.t.items()}, self.c * o.c))
        if self.is_const():
            return _norm(I({k: v * self.c for k, v in o.t.items()}, self.c * o.c))
        raise NotImplementedError('nonlinear integer arithmetic')
    __rmul__ = __mul__

    def _divmod(self, k):
        """(self // k, self % k) for a positive integer constant k: fresh q, r with self = k q + r,
        0 <= r < k (the definition; added to the current path)"""
        if not isinstance(k, int) or isinstance(k, bool) or k <= 0:
            raise NotImplementedError('symbolic integer divided by %r' % (k,))
        ex = paths.CUR
        if ex is None or not getattr(ex, 'active', False):
            raise NotImplementedError('integer division of a symbolic index outside a path executor')
        q, r = ex.fresh('q', 'Int'), ex.fresh('r', 'Int')
        ex.add(z3.And(self.z() == k * q + r, r >= 0, r < k))
        return I({str(q): 1}, 0), I({str(r): 1}, 0)

    def __mod__(self, k): return self._divmod(k)[1]
    def __floordiv__(self, k): return self._divmod(k)[0]

    def _cmp(self, o, op):
        o = asI(o)
        if o is NotImplemented:
            return NotImplemented
        d = self._lin(o, -1)
        if isinstance(d, int):
            return {'lt': d < 0, 'le': d <= 0, 'gt': d > 0, 'ge': d >= 0, 'eq': d == 0, 'ne': d != 0}[op]
        e = d.z()
        return B({'lt': e < 0, 'le': e <= 0, 'gt': e > 0, 'ge': e >= 0, 'eq': e == 0, 'ne': e != 0}[op])

    def __lt__(self, o): return self._cmp(o, 'lt')
    def __le__(self, o): return self._cmp(o, 'le')
    def __gt__(self, o): return self._cmp(o, 'gt')
    def __ge__(self, o): return self._cmp(o, 'ge')
    def __eq__(self, o): return self._cmp(o, 'eq')
    def __ne__(self, o): return self._cmp(o, 'ne')
    __hash__ = object.__hash__

    def __index__(self):
        raise TypeError('symbolic integer used as a concrete index')

    def __repr__(self):
        return 'I(%s%+d)' % ('+'.join('%d*%s' % (v, k) for k, v in sorted(self.t.items())), self.c)


def _norm(i):
    """constant expressions collapse to Python ints"""
    return i.c if not i.t else i


def asI(x):
    if isinstance(x, I):
        return x
    if isinstance(x, bool):
        return NotImplemented
    if isinstance(x, int):
        return I({}, x)
    try:
        import numpy as np
        if isinstance(x, np.integer):
            return I({}, int(x))
    except ImportError:
        pass
    return NotImplemented


def ikey(x):
    return asI(x).key()


def iz(x):
    return asI(x).z()


def idiff_const(a, b):
    """a - b as a concrete int, or None"""
    d = asI(a)._lin(asI(b), -1)
    return d if isinstance(d, int) else None


# ------------------------------------------------------------------------------------------
# numeric cell terms: Tok with numpy-like scalar behaviour
# ------------------------------------------------------------------------------------------
def cellkey(v):
    if isinstance(v, (int, float)) and not isinstance(v, bool):
        return float(v)
    return _key(v)


class Violations:
    """obligation failures recorded while the code under test runs"""

    def __init__(self):
        self.items = []

    def add(self, code, desc, cond=None):
        ex = paths.CUR
        model = None
        if cond is not None:
            m = ex.model_for(cond)
            if m is not None:
                model = {str(d): m[d].as_long() for d in m.decls() if z3.is_int_value(m[d])}
        else:
            m = ex.model_for()
            if m is not None:
                model = {str(d): m[d].as_long() for d in m.decls() if z3.is_int_value(m[d])}
        self.items.append({'code': code, 'desc': desc, 'model': model})


VIOL = Violations()
NOBL = [0]


def must(cond, code, desc):
    """obligation: `cond` (z3 Bool) holds for all values on this path"""
    NOBL[0] += 1
    ex = paths.CUR
    if not isinstance(cond, bool):
        cond = z3.simplify(cond)
        if z3.is_true(cond):
            return
        if z3.is_false(cond):
            cond = False
    if isinstance(cond, bool):
        if not cond:
            VIOL.add(code, desc)
        return
    neg = z3.Not(cond)
    if ex.feasible(neg):
        VIOL.add(code, desc, neg)


# ------------------------------------------------------------------------------------------
# buffers
# ------------------------------------------------------------------------------------------
class RowView:
    def __init__(self, buf, row):
        self.buf = buf
        self.row = row          # I or int

    def _cells(self):
        return [self.buf.read(self.row, c) for c in self.buf.cols()]

    def key(self):
        return mk('row', *[cellkey(v) for v in self._cells()])

    def __getitem__(self, c):
        if not isinstance(c, tuple):
            c = (c,)
        if len(c) < len(self.buf.tail):
            raise NotImplementedError('partial row indexing')
        return self.buf.read(self.row, c)

    def __setitem__(self, c, v):
        if c is Ellipsis:
            self.assign(v)
            return
        if not isinstance(c, tuple):
            c = (c,)
        self.buf.write(self.row, c, v)

    def assign(self, val):
        for c in self.buf.cols():
            self.buf.write(self.row, c, elem(val, c))


def elem(val, c):
    """element c (tuple index) of an array-valued thing"""
    if isinstance(val, RowView):
        return val[c]
    if isinstance(val, LocalArr):
        return val.cells[c]
    if isinstance(val, (list, tuple)):
        v = val
        for i in c:
            v = v[i]
        return v
    if isinstance(val, (Tok, K)):
        return Tok('get', val, *c)
    try:
        import numpy as np
        if isinstance(val, np.ndarray):
            return float(val[c])
    except ImportError:
        pass
    raise TypeError('cannot take element of %r' % (val,))


class SymBuf:
    """ndarray stand-in of shape (cap, *tail) with symbolic cap and symbolically addressed rows"""

    def __init__(self, name, cap, tail):
        self.name = name
        self.cap = cap
        self.tail = tuple(tail)
        self.cells = {}
        self.reads = []
        self.writes = []

    def __symlen__(self):
        return self.cap

    def cols(self):
        if len(self.tail) == 1:
            return [(a,) for a in range(self.tail[0])]
        return [(a, b) for a in range(self.tail[0]) for b in range(self.tail[1])]

    @property
    def shape(self):
        return (self.cap,) + self.tail

    def resize(self, shape, refcheck=True):
        new = shape[0]
        must(iz(new) >= iz(self.cap), 'resize_shrinks', '%s.resize to a smaller capacity' % self.name)
        if tuple(shape[1:]) != self.tail:
            VIOL.add('resize_shape', '%s.resize changes the row shape to %r' % (self.name, shape))
        self.cap = new

    def _check(self, row, rw):
        NOBL[0] += 1
        c = z3.simplify(z3.And(iz(row) >= 0, iz(row) < iz(self.cap)))
        if z3.is_true(c):
            return
        ex = paths.CUR
        if ex.feasible(z3.Not(c)):
            VIOL.add('index_out_of_bounds', '%s: %s of row %r outside capacity %r (the compiled kernel does no bounds checks)' % (
                self.name, rw, row, self.cap), z3.Not(c))
            raise Abort('OOB')

    def read(self, row, c):
        self._check(row, 'read')
        k = (ikey(row), c)
        if k not in self.cells:
            VIOL.add('read_undefined', '%s: read of row %r which holds no defined value' % (self.name, row))
            return Tok('undef', self.name, ikey(row), *c)
        return self.cells[k]

    def write(self, row, c, v):
        self._check(row, 'write')
        self.cells[(ikey(row), c)] = v

    def __getitem__(self, idx):
        if isinstance(idx, slice):
            m = idiff_const(idx.stop, idx.start)
            if m is None or idx.step is not None:
                raise NotImplementedError('slice of non-constant length')
            # numpy clips slices to the array: a row beyond the capacity would silently be missing
            out = []
            for k in range(max(m, 0)):
                r = idx.start + k
                must(z3.And(iz(r) >= 0, iz(r) < iz(self.cap)), 'slice_clipped',
                     '%s[%r:%r] reaches beyond the capacity: numpy would clip the slice' % (self.name, idx.start, idx.stop))
                out.append(RowView(self, r))
            return out
        if isinstance(idx, tuple):
            return self.read(idx[0], tuple(idx[1:]))
        return RowView(self, idx)

    def __setitem__(self, idx, val):
        if isinstance(idx, tuple):
            self.write(idx[0], tuple(idx[1:]), val)
        else:
            RowView(self, idx).assign(val)

    def row_cells(self, row):
        return tuple(cellkey(self.cells.get((ikey(row), c))) for c in self.cols())

    def clone(self):
        b = SymBuf(self.name, self.cap, self.tail)
        b.cells = dict(self.cells)
        return b


class LocalArr:
    """np.empty(shape) inside the kernel: small concrete-shape scratch array"""

    def __init__(self, shape):
        self.shape = (shape,) if isinstance(shape, int) else tuple(shape)
        self.cells = {}

    def _idx(self, c):
        return c if isinstance(c, tuple) else (c,)

    def __getitem__(self, c):
        c = self._idx(c)
        if c not in self.cells:
            VIOL.add('read_undefined_local', 'read of an unwritten scratch element %r' % (c,))
            return Tok('undef_local', *c)
        return self.cells[c]

    def __setitem__(self, c, v):
        if c is Ellipsis:
            self.assign(v)
            return
        c = self._idx(c)
        for i, n in zip(c, self.shape):
            if not 0 <= i < n:
                VIOL.add('local_oob', 'scratch array index %r outside shape %r' % (c, self.shape))
        self.cells[c] = v

    def cols(self):
        if len(self.shape) == 1:
            return [(a,) for a in range(self.shape[0])]
        return [(a, b) for a in range(self.shape[0]) for b in range(self.shape[1])]

    def assign(self, val):
        for c in self.cols():
            self.cells[c] = elem(val, c)

    def key(self):
        return mk('arr', *[cellkey(self.cells.get(c)) for c in self.cols()])

    def __pow__(self, p):
        return Tok('pow', self.key(), p)

    def __len__(self):
        return self.shape[0]


# window mode (C02 "call-position independence"): the rows of a chunk are processed as if the SAME
# kernel call had already processed `w` rows before them (w >= 0 symbolic): `range` in the kernel's
# namespace yields w, w + 1, ..., the increments arrays are addressed relative to w and the offset
# is shifted by -w, so that the buffer rows are the same. Anything the kernel derives from the
# call-local index other than through `j = i + offset` then depends on w and shows as a term
# difference or as a branch.
WINDOW = [False]
WINDOW_ARMED = [False]          # only the FIRST range() of a kernel call (its loop over the rows) is shifted
WINDOW_BASE = 'w_call'


def window_range(n, *more):
    if more or not WINDOW[0] or not WINDOW_ARMED[0]:
        return range(n, *more)
    WINDOW_ARMED[0] = False
    if isinstance(n, I):
        raise TypeError('symbolic loop bound in window mode')
    return [I.var(WINDOW_BASE) + k for k in range(n)]


class ChunkArr:
    """column group of an increments chunk as a contiguous array: element i is a token that
    names the original increments row, so that sub-chunks share tokens with the whole"""

    def __init__(self, chunk, kind):
        self.chunk = chunk
        self.kind = kind

    def __len__(self):
        return len(self.chunk.ids)

    def __getitem__(self, i):
        if isinstance(i, I):
            # window mode: the call-local index is WINDOW_BASE + k
            k = idiff_const(i, I.var(WINDOW_BASE)) if WINDOW[0] else None
            if k is None:
                raise TypeError('symbolic chunk index')
            i = k
        if not 0 <= i < len(self.chunk.ids):
            VIOL.add('chunk_oob', 'increments array index %d outside chunk of length %d' % (i, len(self.chunk.ids)))
            raise Abort('OOB')
        return Tok('inc', self.chunk.name, self.chunk.ids[i], self.kind)


class Chunk:
    """increments table stand-in (concrete length, opaque content)"""

    def __init__(self, name, ids):
        self.name = name
        self.ids = list(range(ids)) if isinstance(ids, int) else list(ids)
        self.index = ['%s.t%d' % (name, k) for k in self.ids]

    def sub(self, a, b):
        return Chunk(self.name, self.ids[a:b])

    def row(self, i):
        return OneRow(Chunk(self.name, [self.ids[i]]))

    def __symlen__(self):
        return len(self.ids)

    def __getitem__(self, cols):
        c = tuple(cols) if isinstance(cols, list) else cols
        if c == THETA:
            return ChunkArr(self, 'theta')
        if c == DV:
            return ChunkArr(self, 'dv')
        if c == 'dt':
            return ChunkArr(self, 'dt')
        raise KeyError(cols)

    @property
    def dt(self):
        return ChunkArr(self, 'dt')


class OneRow:
    """a Series taken from an increments table (argument of predict)"""

    def __init__(self, chunk):
        self.chunk = chunk

    def to_frame(self):
        return self

    def transpose(self, copy=False):
        return self.chunk

    def __getitem__(self, cols):
        # a Series: a label gives the scalar, a list of labels the sub-series
        a = self.chunk[cols]
        return a[0] if isinstance(cols, str) else a

    @property
    def name(self):
        return self.chunk.index[0]


class Rows:
    """a block of trajectory rows with their stamps (DataFrame stand-in)"""

    def __init__(self, times, rows):
        self.times = list(times)
        self.rows = list(rows)

    @property
    def iloc(self):
        return self

    def __getitem__(self, k):
        if isinstance(k, slice):
            return Rows(self.times[k], self.rows[k])
        return self.rows[k]

    @property
    def index(self):
        return self.times

    def __symlen__(self):
        return len(self.rows)


class _Index(list):
    name = None


class Traj:
    """the stored trajectory: symbolic number of rows, known tail"""

    def __init__(self, n, tail):
        self.n = n
        self.tail = tail

    def __symlen__(self):
        return self.n

    @property
    def iloc(self):
        return _TrajILoc(self)

    @property
    def index(self):
        return _Index(self.tail.times)


class _TrajILoc:
    def __init__(self, t):
        self.t = t

    def __getitem__(self, k):
        t = self.t
        if isinstance(k, slice):
            if k.step is None and k.stop == 0 and (k.start is None or k.start == 0):
                return Rows([], [])         # iloc[:0]: no rows
            if k.stop is not None or k.step is not None or isinstance(k.start, I) or k.start is None or k.start >= 0:
                raise NotImplementedError('trajectory.iloc[%r]' % (k,))
            m = -k.start
            if m > len(t.tail.rows):
                # more rows requested than the harness knows: they exist iff n >= m
                must(iz(t.n) >= m, 'tail_short', 'trajectory.iloc[%d:] requests more rows than exist' % k.start)
                raise Abort('TAIL')
            return Rows(t.tail.times[-m:], t.tail.rows[-m:])
        if k == -1:
            return t.tail.rows[-1]
        raise NotImplementedError('trajectory.iloc[%r]' % (k,))

    def __setitem__(self, k, v):
        if k != -1:
            raise NotImplementedError('trajectory.iloc[%r] = ...' % (k,))
        self.t.tail.rows[-1] = mk('rowof', _key(v))


class Pva:
    """a pva Series stand-in (argument of the constructor / set_pva)"""

    def __init__(self, name, time='t_pva', vd0=False, same_as=None):
        """same_as: {column group: name of another supplied state whose values are bit-identical}
        (distinct names otherwise denote different values: aliasing patterns are scenarios)"""
        self.pname = name
        self.name = time
        self.vd0 = vd0
        self.same_as = dict(same_as or {})

    def key(self):
        return mk('pva', self.pname, self.vd0, *[mk(k, v) for k, v in sorted(self.same_as.items())])

    def copy(self):
        return Pva(self.pname, self.name, self.vd0, self.same_as)

    def _src(self, c):
        grp = {LLA: 'lla', VEL: 'vel', RPH: 'rph'}.get(c)
        return self.same_as.get(grp, self.pname)

    def __getitem__(self, cols):
        c = tuple(cols) if isinstance(cols, list) else cols
        if c == VEL and self.vd0:
            base = Tok('pvacols', mk('pva', self._src(c), False), c)
            return [Tok('get', base, 0), Tok('get', base, 1), 0.0]
        return Tok('pvacols', mk('pva', self._src(c), False), c)

    def __setattr__(self, k, v):
        if k == 'VD':
            if v == 0.0:
                object.__setattr__(self, 'vd0', True)
                return
            raise NotImplementedError('pva.VD = %r' % (v,))
        object.__setattr__(self, k, v)

    def to_frame(self):
        return self

    def transpose(self, copy=False):
        return Traj(1, Rows([self.name], [mk('rowof', self.key())]))


# ------------------------------------------------------------------------------------------
# module shims
# ------------------------------------------------------------------------------------------
class KernelNP:
    """numpy as seen by _numba_integrate"""

    def empty(self, shape, dtype=None):
        return LocalArr(shape)

    def eye(self, n, dtype=None):
        a = LocalArr((n, n))
        for i in range(n):
            for j in range(n):
                a.cells[(i, j)] = 1.0 if i == j else 0.0
        return a

    def zeros(self, shape, dtype=None):
        a = LocalArr(shape)
        for c in a.cols():
            a.cells[c] = 0.0
        return a

    def _data_bool(self, what, x):
        """a test on the VALUES of the data (e.g. `np.any(theta[i])`): one symbolic boolean per
        distinct operand, both outcomes explored by the path executor"""
        k = mk(what, _key(x))
        ex = paths.CUR
        b = z3.Bool('data_%s_%d' % (what, abs(hash(repr(k))) % (10 ** 12)))
        if ex is None or not getattr(ex, 'active', False):
            raise NotImplementedError('data-dependent test outside a path executor')
        return ex.decide(b)

    def any(self, x):
        return self._data_bool('any', x)

    def all(self, x):
        return self._data_bool('all', x)

    def _u(self, name, x):
        if isinstance(x, (int, float)):
            import numpy as np
            return float(getattr(np, name)(x))
        return Tok(name, x)

    def sin(self, x): return self._u('sin', x)
    def cos(self, x): return self._u('cos', x)
    def sqrt(self, x): return self._u('sqrt', x)
    def tan(self, x): return self._u('tan', x)

    def sum(self, x):
        return Tok('sum', _key(x))

    def dot(self, a, b, out=None):
        r = Tok('dot', _key(a), _key(b))
        if out is None:
            return r
        out.assign(r)
        return out


class StrapNP:
    """numpy as seen by strapdown.Integrator"""

    def __init__(self, h):
        self.h = h

    def empty(self, shape, dtype=None):
        name = {0: 'lla', 1: 'velocity_n', 2: 'mat_nb'}[self.h.nbuf % 3]
        self.h.nbuf += 1
        return SymBuf(name, shape[0], shape[1:])

    def ascontiguousarray(self, a):
        return a

    def asarray(self, a, dtype=None):
        return a

    def array(self, a, dtype=None, copy=True):
        return a

    def array_equal(self, a, b):
        # supplied values are terms: identical terms are equal, distinct terms denote different
        # values (bit-identical re-supply is modelled by aliasing scenarios)
        return _key(a) is _key(b)

    def all(self, a):
        return bool(a)

    def any(self, a):
        return bool(a)

    def copy(self, a):
        return a

    def hstack(self, parts):
        parts = list(parts)
        n = builtins.len(parts[0])
        for p in parts:
            if builtins.len(p) != n:
                raise ValueError('all the input array dimensions except for the concatenation axis must match exactly')
        return [mk('hrow', *[_key(p[k]) for p in parts]) for k in range(n)]


class StrapPD:
    @staticmethod
    def DataFrame(data=None, index=None, columns=None):
        data = list(data)
        index = list(index)
        if builtins.len(data) != builtins.len(index):
            raise ValueError('Shape of passed values is (%d, 9), indices imply (%d, 9)' % (builtins.len(data), builtins.len(index)))
        return Rows(index, data)

    @staticmethod
    def concat(items):
        a, b = items
        return Traj(a.n + builtins.len(b.rows), Rows(a.tail.times + b.times, a.tail.rows + b.rows))


class _NS:
    def __init__(self, **kw):
        self.__dict__.update(kw)


def symlen(o):
    if hasattr(o, '__symlen__'):
        return o.__symlen__()
    return builtins.len(o)


class IntegHarness:
    """installs the shims into pyins.strapdown / pyins._numba_integrate (this process only)"""

    def __init__(self, patch=None):
        import pyins.strapdown as SD
        import pyins._numba_integrate as KN
        self.SD, self.KN = SD, KN
        if not hasattr(SD, '_pvf_orig'):
            SD._pvf_orig = {'Integrator': SD.Integrator, 'integrate': KN.integrate,
                            'methods': {k: SD.Integrator.__dict__[k] for k in
                                        ('__init__', '_integrate', 'integrate', 'predict', 'get_time', 'get_pva', 'set_pva')},
                            'INITIAL_SIZE': SD.Integrator.INITIAL_SIZE}
        for k, v in SD._pvf_orig['methods'].items():
            setattr(SD.Integrator, k, v)
        SD.Integrator.INITIAL_SIZE = SD._pvf_orig['INITIAL_SIZE']
        self.nbuf = 0
        KN.np = KernelNP()
        KN.mat_from_rotvec = self._rotvec
        KN.gravity = lambda lat, alt: Tok('gravity', cellkey(lat), cellkey(alt))
        KN.len = symlen
        SD.np = StrapNP(self)
        SD.pd = StrapPD
        SD.len = symlen
        SD.transform = _NS(mat_to_rph=lambda mats: [Tok('rph', m.key()) for m in mats],
                           mat_from_rph=lambda r: Tok('mat_from_rph', _key(r)))
        self.kernel = SD._pvf_orig['integrate']
        KN.range = window_range
        if patch:
            patch(self)

        def kernel_entry(dt, lla, vel, mat, theta, dv, offset, wa, _h=self):
            if WINDOW[0]:
                offset = offset - I.var(WINDOW_BASE)
                WINDOW_ARMED[0] = True
            try:
                return _h.kernel(dt, lla, vel, mat, theta, dv, offset, wa)
            finally:
                WINDOW_ARMED[0] = False
        SD.integrate = kernel_entry

    @staticmethod
    def _rotvec(rv, mat):
        mat.assign(Tok('rotvec', _key(rv)))

    # -- constructing states -------------------------------------------------------------
    def blank(self, with_altitude=True):
        it = object.__new__(self.SD.Integrator)
        it.with_altitude = with_altitude
        return it

    def state(self, n, cap, with_altitude=True, vd_zero=None, tag='S'):
        """arbitrary valid state: n rows so far, capacity cap, latest state = symbolic cells.
        vd_zero: the stored vertical velocity of the latest state is the literal 0.0
        (representation invariant of the 2D mode)."""
        # the object comes from the real constructor (so that whatever attributes it sets
        # exist), then its numeric state is replaced by the symbolic one
        saved = self.SD.Integrator.INITIAL_SIZE
        self.SD.Integrator.INITIAL_SIZE = cap
        try:
            it = self.SD.Integrator(Pva('Pinit'), with_altitude)
        finally:
            self.SD.Integrator.INITIAL_SIZE = saved
        VIOL.items[:] = []
        if vd_zero is None:
            vd_zero = not with_altitude
        it.lla = SymBuf('lla', cap, (3,))
        it.velocity_n = SymBuf('velocity_n', cap, (3,))
        it.mat_nb = SymBuf('mat_nb', cap, (3, 3))
        last = n - 1
        for buf in (it.lla, it.velocity_n, it.mat_nb):
            for c in buf.cols():
                buf.cells[(ikey(last), c)] = Tok(tag, buf.name, *c)
        if vd_zero:
            it.velocity_n.cells[(ikey(last), (2,))] = 0.0
        it.trajectory = Traj(n, Rows(['t_last'], [mk('row_last', tag)]))
        return it

    def latest_cells(self, it):
        last = it.trajectory.n - 1
        return tuple(b.row_cells(last) for b in (it.lla, it.velocity_n, it.mat_nb))

    def reference_step(self, cells, chunk, i, with_altitude):
        """one kernel step from the state `cells` with row i of `chunk`, on a scratch 2-row
        layout: the single-call reference against which every history is compared"""
        lla = SymBuf('lla', 2, (3,))
        vel = SymBuf('velocity_n', 2, (3,))
        mat = SymBuf('mat_nb', 2, (3, 3))
        for buf, cs in zip((lla, vel, mat), cells):
            for c, v in zip(buf.cols(), cs):
                buf.cells[(ikey(0), c)] = _Raw(v)
        one = chunk.sub(i, i + 1)
        w_saved, WINDOW[0] = WINDOW[0], False       # the reference is a fresh one-row call (call-local index 0)
        try:
            self.SD._pvf_orig['integrate'](ChunkArr(one, 'dt'), lla, vel, mat, ChunkArr(one, 'theta'), ChunkArr(one, 'dv'),
                                           0, with_altitude)
        finally:
            WINDOW[0] = w_saved
        new = tuple(b.row_cells(1) for b in (lla, vel, mat))
        row = mk('hrow', mk('row', *new[0]), mk('row', *new[1]), mk('rph', mk('row', *new[2])))
        return new, row


class _Raw:
    """a cell value given by its key (already a term)"""

    def __new__(cls, v):
        if isinstance(v, float):
            return v
        t = Tok.__new__(Tok)
        t.op = 'raw'
        t.args = ()
        t.n = None
        t._k = v
        t._kv = ('raw', id(t.args))
        return t
