"""Engine A driver: installs the symbolic environment into the imported pyins modules (this
process only), discharges batches of obligations with z3 in a fork pool, triages `sat` answers
with the true functions, optional second opinion from the system z3 through SMT-LIB2."""
import json
import fractions
import math
import multiprocessing as mp
import os
import random
import subprocess
import tempfile
import time

import numpy as np
import z3

from . import common, paths
from . import symreal as S
from . import symscipy, symlinalg

Fr = fractions.Fraction
_ORIG = {}


def modules():
    import pyins._numba_integrate as K
    import pyins.transform as T
    import pyins.earth as E
    import pyins.util as U
    import pyins.error_model as EM
    import pyins.measurements as M
    import pyins.kalman as KF
    import pyins.strapdown as SD
    import pyins.inertial_sensor as IS
    import pyins.sim as SIM
    import pyins.filters as F
    return dict(K=K, T=T, E=E, U=U, EM=EM, M=M, KF=KF, SD=SD, IS=IS, SIM=SIM, F=F)


def _save(mod, name):
    key = (mod.__name__, name)
    if key not in _ORIG:
        _ORIG[key] = (mod, getattr(mod, name, None), hasattr(mod, name))


def _set(mod, name, value):
    _save(mod, name)
    setattr(mod, name, value)


def restore():
    for (mn, name), (mod, v, had) in _ORIG.items():
        if had:
            setattr(mod, name, v)
        elif hasattr(mod, name):
            delattr(mod, name)


def restore_one(mod, name):
    key = (mod.__name__, name)
    if key in _ORIG:
        _m, v, had = _ORIG[key]
        if had:
            setattr(mod, name, v)
        elif hasattr(mod, name):
            delattr(mod, name)


def install(symconst=False, earth_exact=True):
    """patch module globals; returns the module dict. Call after S.new_ctx()."""
    restore()
    m = modules()
    for k in ('K', 'T', 'E', 'U', 'EM', 'M', 'KF', 'SD', 'IS', 'SIM', 'F'):
        _set(m[k], 'np', S.symnp)
    for k in ('T', 'EM', 'SIM', 'F'):
        if hasattr(m[k], 'Rotation'):
            _set(m[k], 'Rotation', symscipy.Rot)
    T, E = m['T'], m['E']
    _set(T, 'DEG_TO_RAD', S.PI() / 180)
    _set(T, 'RAD_TO_DEG', S.const(S._rdeg()))
    _set(T, 'DH_TO_RS', S.PI() / 180 / 3600)
    _set(T, 'DRH_TO_RRS', S.PI() / 180 / 60)
    for k in ('IS', 'SIM'):
        real_crs = _ORIG.get((m[k].__name__, 'check_random_state'), (None, getattr(m[k], 'check_random_state', None)))[1]
        _set(m[k], 'check_random_state', (lambda r, _real=real_crs: r if hasattr(r, 'randn') and not isinstance(r, np.random.RandomState) else _real(r)))
    KF = m['KF']
    _set(KF, 'cholesky', symlinalg.cholesky)
    _set(KF, 'cho_solve', symlinalg.cho_solve)
    _set(KF, 'solve_triangular', symlinalg.solve_triangular)
    _set(KF, 'expm', symlinalg.expm)
    dom = S.deg_domain()
    if symconst:
        _set(E, 'E2', S.var('E2'))
        _set(E, 'A', S.var('A'))
        _set(E, 'RATE', S.var('W'))
        dom += [z3.Real('E2') > 0, z3.Real('E2') < z3.Q(1, 100), z3.Real('A') > 6000000, z3.Real('A') < 7000000,
                z3.Real('W') > 0, z3.Real('W') < z3.Q(1, 1000)]
        # the gravity-formula constants are independent symbols (F is not tied to GP/GE/E2: the
        # identities proved do not depend on that relation)
        _set(E, 'GE', S.var('GE'))
        _set(E, 'F', S.var('Fg'))
        dom += [z3.Real('GE') > 9, z3.Real('GE') < 10, z3.Real('Fg') > 0, z3.Real('Fg') < z3.Q(1, 100)]
    else:
        # exact rationals of the doubles; F is re-derived in exact arithmetic from them
        for nm in ('E2', 'A', 'RATE', 'GE', 'GP', 'F'):
            _set(E, nm, _ORIG[(E.__name__, nm)][1] if (E.__name__, nm) in _ORIG else getattr(E, nm))
    S.C.dom += dom
    return m


WGS84 = {'E2': 6.6943799901413e-3, 'A': 6378137.0, 'W': 7.292115e-5, 'GE': 9.7803253359, 'GP': 9.8321849378,
         'Fg': (1 - 6.6943799901413e-3) ** 0.5 * 9.8321849378 / 9.7803253359 - 1}


# ------------------------------------------------------------------------------------------
# discharging obligations
# ------------------------------------------------------------------------------------------
class Obligation:
    __slots__ = ('name', 'neg', 'family', 'expr', 'extra', 'meta')

    def __init__(self, name, neg, family='', expr=None, extra=(), meta=None):
        self.name = name
        self.neg = neg              # z3 Bool: the NEGATED claim
        self.family = family
        self.expr = expr            # residual term (for numeric triage), optional
        self.extra = list(extra)    # additional assumptions for this obligation only
        self.meta = meta


def zero(name, e, family='', extra=(), meta=None):
    """obligation e == 0"""
    if isinstance(e, S.Sym):
        if not e.isconst():
            raise ValueError('obligation %s on a non-constant series; pick a coefficient' % name)
        e = e.c0
    elif not isinstance(e, z3.ExprRef):
        e = S.rat(e)
    return Obligation(name, e != 0, family, e, extra, meta)


def holds(name, cond, family='', extra=(), meta=None):
    """obligation: z3 Bool `cond` holds"""
    return Obligation(name, z3.Not(cond), family, None, extra, meta)


def definedness(ctx, since=0, family='divisors are non-zero', meta=None, label=''):
    """one obligation per distinct (denominator, path condition) recorded since position `since`
    of ctx.divs: the denominator cannot be zero on the domain under the path condition at which
    the code divides by it. A reciprocal is introduced as a fresh r with r*d = 1, which silently
    EXCLUDES the inputs where d = 0 from every other obligation: without this family a division
    that is singular inside the claimed domain would pass vacuously."""
    out, seen = [], set()
    for c0, pc, key in ctx.divs[since:]:
        k = (key, tuple(c.get_id() for c in pc))
        if k in seen:
            continue
        seen.add(k)
        m = dict(meta or {})
        m['backward_slice'] = True      # only the definitions the divisor DEPENDS on: never the r*d = 1 of its own reciprocal
        out.append(Obligation('%sdivisor %s is non-zero' % (label, str(z3.simplify(c0))[:90].replace('\n', ' ')), c0 == 0, family, None, list(pc), m))
    return out


def backward_cons(terms, ctx):
    """defining constraints of exactly the auxiliary variables `terms` depend on (transitively,
    through their definitions); constraints that mention any other auxiliary variable - such as
    the defining equation of a reciprocal OF the term - are left out"""
    need = needed_aux(terms, ctx)
    # a (sin, cos) pair is one object: both members and the pair's own constraints belong together
    pairs = [(str(a), str(b), arg) for (a, b, arg) in ctx.trig.values()]
    changed = True
    while changed:
        changed = False
        for a, b, arg in pairs:
            if (a in need) != (b in need):
                need |= {a, b} | needed_aux([arg], ctx)
                changed = True
    out = []
    for c in ctx.cons:
        aux = {n for n in S._vars_of(c) if '!' in n}
        if aux and aux <= need:
            out.append(c)
        elif not aux:
            out.append(c)
    return out


_JOB = None
_SLICE_CACHE = {}


def needed_aux(terms, ctx):
    """auxiliary variables (fresh names containing '!') reachable from `terms` through their
    definitions"""
    need = set()
    stack = []
    for t in terms:
        stack += [n for n in S._vars_of(t) if '!' in n]
    while stack:
        n = stack.pop()
        if n in need:
            continue
        need.add(n)
        d = ctx.defs.get(n)
        if d is not None:
            for x in d[1:]:
                if isinstance(x, z3.ExprRef):
                    stack += [k for k in S._vars_of(x) if '!' in k and k not in need]
    return need


def sliced_cons(terms, ctx):
    """definitional slicing: only the defining constraints of the auxiliary variables the
    obligation depends on (dropping the others weakens the assumptions: sound for `unsat`)"""
    key = id(ctx)
    idx = _SLICE_CACHE.get(key)
    if idx is None or idx[0] != len(ctx.cons):
        idx = (len(ctx.cons), [(c, {n for n in S._vars_of(c) if '!' in n}) for c in ctx.cons])
        _SLICE_CACHE[key] = idx
    need = needed_aux(terms, ctx)
    changed = True
    out = []
    picked = set()
    while changed:
        changed = False
        for k, (c, aux) in enumerate(idx[1]):
            if k in picked:
                continue
            if aux and aux & need and not (aux <= need):
                # a definition that ties a needed variable to further auxiliaries: pull them in
                if all(n in ctx.defs or True for n in aux):
                    need |= needed_aux([c], ctx)
                    changed = True
            if aux <= need and (aux or True):
                if aux:
                    picked.add(k)
    for k, (c, aux) in enumerate(idx[1]):
        if k in picked or not aux:
            out.append(c)
    return out


def _solve(i):
    ctx, obls, timeout_ms = _JOB
    ob = obls[i]
    e = ob.neg
    se = z3.simplify(e)
    if z3.is_false(se):
        return i, 'unsat', 0.0, None, True
    t0 = time.time()
    if ob.expr is not None and os.environ.get('PVF_NO_NORMALFORM') != '1':
        # exact normal form first: multiply out reciprocals, reduce square roots and sin/cos pairs
        # (s^2 + c^2 = 1); if the residual normalises to 0 the negated claim reads `0 != 0`,
        # which z3 refutes at once. Anything else goes to nlsat unchanged.
        from . import poly
        poly.LIMIT = getattr(ctx, 'poly_limit', None) or poly.DEFAULT_LIMIT
        try:
            pz = poly.eliminate(ob.expr, ctx)
            if pz.is_zero():
                chk = z3.Solver()
                chk.add(pz.to_z3() != 0)
                if chk.check() == z3.unsat:
                    return i, 'unsat', time.time() - t0, 'reciprocal elimination', False
        except (NotImplementedError, poly.TooBig, RecursionError, KeyError):
            pass
    s = z3.Solver()
    s.set('timeout', timeout_ms)
    s.set('max_memory', 4000)
    if ob.meta and ob.meta.get('backward_slice'):
        s.add(backward_cons([e] + list(ob.extra), ctx))
    else:
        s.add(sliced_cons([e] + list(ob.extra), ctx) if os.environ.get('PVF_NO_SLICE') != '1' else ctx.cons)
    s.add(ctx.dom)
    s.add(ob.extra)
    s.add(e)
    t0 = time.time()
    try:
        first = min(timeout_ms, 5000)
        s.set('timeout', first)
        r = s.check()
        if r == z3.unknown and timeout_ms > first:
            s.set('timeout', timeout_ms - first)
            r = s.check()
    except z3.Z3Exception as ex:
        return i, 'unknown', time.time() - t0, str(ex), False
    dt = time.time() - t0
    model = None
    if r == z3.sat:
        m = s.model()
        model = {}
        for d in m.decls():
            v = m[d]
            if z3.is_rational_value(v):
                model[str(d)] = (v.numerator_as_long(), v.denominator_as_long())
            elif z3.is_algebraic_value(v):
                a = v.approx(20)
                model[str(d)] = (a.numerator_as_long(), a.denominator_as_long())
    return i, str(r), dt, model, False


def discharge(obls, timeout_s=30, pool=16, ctx=None):
    """returns list of dicts(name, result, secs, model, trivial) in order"""
    global _JOB
    ctx = ctx or S.C
    _JOB = (ctx, obls, int(timeout_s * 1000))
    out = [None] * len(obls)
    if not obls:
        return out
    if pool <= 1 or len(obls) == 1:
        res = [_solve(i) for i in range(len(obls))]
    else:
        c = mp.get_context('fork')
        res = []
        p = c.Pool(min(pool, len(obls)))
        try:
            it = p.imap_unordered(_solve, range(len(obls)), chunksize=1)
            done = set()
            for _ in range(len(obls)):
                try:
                    r = it.next(timeout=2 * timeout_s + 60)
                except mp.TimeoutError:
                    # a worker died or hangs beyond the solver's own timeout: the missing answers are `unknown`
                    break
                res.append(r)
                done.add(r[0])
            for i in range(len(obls)):
                if i not in done:
                    res.append((i, 'unknown', float(timeout_s), 'worker lost', False))
        finally:
            p.terminate()
            p.join()
    for i, r, dt, model, trivial in res:
        out[i] = {'name': obls[i].name, 'family': obls[i].family, 'result': r, 'secs': dt, 'model': model, 'trivial': trivial}
    return out


def smt2_text(ob, ctx=None):
    ctx = ctx or S.C
    s = z3.Solver()
    s.add(backward_cons([ob.neg] + list(ob.extra), ctx) if (ob.meta and ob.meta.get('backward_slice')) else ctx.cons)
    s.add(ctx.dom)
    s.add(ob.extra)
    s.add(ob.neg)
    return '(set-logic ALL)\n' + s.to_smt2()


def run_smt2(text, timeout_s=60, binary='/usr/bin/z3'):
    """ask the system z3 (another release); no z3 API calls here: safe to run from threads"""
    with tempfile.NamedTemporaryFile('w', suffix='.smt2', delete=False, dir=os.environ.get('TMPDIR', '/tmp')) as f:
        f.write(text)
        path = f.name
    try:
        p = subprocess.run([binary, '-T:%d' % timeout_s, path], capture_output=True, text=True, timeout=timeout_s + 20)
        out = p.stdout.strip().split('\n')
        if any('(error' in l for l in out):
            return 'error'
        return out[0] if out and out[0] in ('sat', 'unsat', 'unknown', 'timeout') else 'unknown'
    except subprocess.TimeoutExpired:
        return 'timeout'
    finally:
        os.unlink(path)


def second_opinion(ob, ctx=None, timeout_s=60, binary='/usr/bin/z3'):
    return run_smt2(smt2_text(ob, ctx), timeout_s, binary)


# ------------------------------------------------------------------------------------------
# sampling points of the domain and numeric triage
# ------------------------------------------------------------------------------------------
def sample_point(names, box, rng, extra=None, edge=False):
    """seeded point: box maps variable name -> (lo, hi); others default to (-1, 1). With `edge`
    every coordinate is drawn, with probability 1/2, from the outer 1 % of its range (defects that
    live at the rim of the claimed domain are missed by uniform sampling)"""
    pt = {}
    for n in sorted(names):
        lo, hi = box.get(n, (-1.0, 1.0))
        if edge and rng.random() < 0.5:
            w = 0.01 * (hi - lo)
            pt[n] = rng.uniform(lo, lo + w) if rng.random() < 0.5 else rng.uniform(hi - w, hi)
        else:
            pt[n] = rng.uniform(lo, hi)
    if extra:
        pt.update(extra)
    return pt


def residual_at(expr, point, ctx=None):
    ev = S.Evaluator(ctx or S.C, point)
    return ev.ev(expr)


def section_paths(section_fn, max_paths=16, timeout_ms=4000):
    """runs `section_fn` (which creates its own context and returns a list of obligations) under a
    path executor, so that a branch of the code under test on a symbolic value is explored both
    ways: returns [(obligations with the path condition appended, context)] per feasible path"""
    ex = paths.Exec([], timeout_ms=timeout_ms)
    orig_decide = ex.decide
    state = {}

    def decide(cond):
        if state.get('ctx') is not S.C:
            state.update(ctx=S.C, nc=0, nd=0)
            for c_ in S.deg_domain():
                ex.solver.add(c_)
        for c_ in S.C.cons[state['nc']:]:
            ex.solver.add(c_)
        for c_ in S.C.dom[state['nd']:]:
            ex.solver.add(c_)
        state['nc'], state['nd'] = len(S.C.cons), len(S.C.dom)
        return orig_decide(cond)
    ex.decide = decide

    def body():
        state.clear()
        obls = section_fn()
        return obls, S.C
    res, _ = ex.run(body, max_paths=max_paths)
    out = []
    for pr in res:
        if pr.status == 'abort' and pr.out == 'INFEASIBLE':
            continue
        if pr.status != 'ok':
            raise RuntimeError('a path could not be executed symbolically: %s' % (pr.out,))
        obls, ctx = pr.out
        for ob in obls:
            ob.extra = list(ob.extra) + list(pr.pc)
        out.append((obls, ctx))
    return out


class AReport:
    """glue between engine-A obligation batches and common.Run"""

    def __init__(self, run, box=None, consts=None):
        self.run = run
        self.box = dict(box or {})
        self.consts = dict(consts or {})
        self.rng = random.Random(run.seed)
        self.candidates = []        # (obligation, point, residual)
        self.second = []

    def batch(self, obls, timeout_s=None, ctx=None, expect_sat=False, scale=None):
        """discharge; record in run; returns list of failing obligations (sat or unknown)"""
        run = self.run
        ctx = ctx or S.C
        if timeout_s is None:
            timeout_s = 30 if run.tier == 'quick' else 300
        t0 = time.time()
        if os.environ.get('PVF_DEFINEDNESS_DIAG') and not expect_sat:
            pos = getattr(ctx, '_div_pos', 0)
            dob = definedness(ctx, pos)
            ctx._div_pos = len(ctx.divs)
            dres = discharge(dob, timeout_s=20, ctx=ctx)
            for ob, r in zip(dob, dres):
                print('  DEFDIAG %s %s %.1fs pc=%d' % (r['result'], ob.name[:140], r['secs'], len(ob.extra)), flush=True)
        if getattr(self, 'definedness', False) and not expect_sat:
            # every division performed since the previous batch (by the code under test and by the
            # oracle alike): its divisor must be non-zero on the domain under its path condition
            pos = getattr(ctx, '_div_pos', 0)
            meta0 = next((dict(o.meta) for o in obls if o.meta and o.meta.get('check')), None)
            if meta0 is not None:
                meta0['use_model'] = True
            obls = list(obls) + definedness(ctx, pos, meta=meta0)
            ctx._div_pos = len(ctx.divs)
        if not expect_sat:
            obls = self.drop_vacuous(obls, ctx)
        res = discharge(obls, timeout_s=timeout_s, ctx=ctx)
        fams = {}
        bad = []
        for ob, r in zip(obls, res):
            f = fams.setdefault(ob.family or 'misc', [0, 0, 0.0])
            f[0] += 1
            f[2] += r['secs']
            run.queries += 0 if r['trivial'] else 1
            if not r['trivial'] and not expect_sat:
                run.nontrivial.add(ob.name)
            if r['result'] == 'unsat':
                f[1] += 1
                if r.get('model') == 'reciprocal elimination':
                    run.cov['decided_by_normal_form'] = run.cov.get('decided_by_normal_form', 0) + 1
                if len(run.samples) < 10 and not r['trivial']:
                    run.sample({'obligation': ob.name, 'family': ob.family, 'result': 'unsat', 'solver_s': round(r['secs'], 3)})
            elif r['result'] == 'sat':
                bad.append((ob, r))
            else:
                if not expect_sat:
                    run.unknown.append('%s (%s after %.0fs)' % (ob.name, r['result'], r['secs']))
                bad.append((ob, r))
        if not expect_sat:
            for k, (n, ok, secs) in fams.items():
                run.family(k, n, ok, secs)
        if run.tier == 'thorough' and not expect_sat and os.environ.get('PVF_NO_SECOND') != '1':
            self.second_pass([ob for ob, r in zip(obls, res) if r['result'] == 'unsat' and not r['trivial']], ctx)
        return bad

    def drop_vacuous(self, obls, ctx):
        """reachability per path: obligations that carry a path condition (`extra`) are only
        meaningful if constraints + domain + path condition are satisfiable. The control solver of
        the path executor sees the linear part only, so it may explore a path that the full
        constraint set excludes: those obligations are dropped and counted, never reported as
        discharged. If every path of a batch is vacuous that is a harness error."""
        groups = {}
        for ob in obls:
            if ob.extra:
                groups.setdefault(tuple(c.get_id() for c in ob.extra), []).append(ob)
        if not groups:
            return obls
        vac = set()
        for key, members in groups.items():
            # cheap constructive witness first: a point of the box whose true-function evaluation
            # satisfies the path condition is a model of constraints + domain + path condition
            names = S.base_vars(list(members[0].extra), ctx)
            found = False
            for _ in range(150):
                pt = sample_point(names, self.box, self.rng, self.consts)
                pt.pop('deg', None)
                try:
                    ev = S.Evaluator(ctx, pt)
                    if all(ev.holds(c) for c in members[0].extra) and all(ev.holds(c) for c in ctx.dom if S._vars_of(c) <= set(pt) | {'deg'}):
                        found = True
                        break
                except (KeyError, ZeroDivisionError, ValueError, OverflowError, NotImplementedError):
                    continue
            if found:
                self.run.cov['paths_with_numeric_witness'] = self.run.cov.get('paths_with_numeric_witness', 0) + 1
                continue
            s = z3.Solver()
            s.set('timeout', 20000)
            s.add(sliced_cons(list(members[0].extra), ctx))
            s.add(ctx.dom)
            s.add(members[0].extra)
            r = s.check()
            if r == z3.unsat:
                vac.add(key)
            elif r == z3.unknown:
                self.run.cov['paths_reachability_unknown'] = self.run.cov.get('paths_reachability_unknown', 0) + 1
        if vac:
            self.run.cov['vacuous_paths_dropped'] = self.run.cov.get('vacuous_paths_dropped', 0) + len(vac)
            if len(vac) == len(groups):
                self.run.error('every explored path of a batch is infeasible under the full constraint set (vacuous): %s' % members[0].name[:80])
            obls = [ob for ob in obls if not ob.extra or tuple(c.get_id() for c in ob.extra) not in vac]
        return obls

    def second_pass(self, obls, ctx):
        """two-solver diff: every non-trivial `unsat` is re-asked of the system z3 4.8.12"""
        from multiprocessing.pool import ThreadPool
        if not obls or not os.path.exists('/usr/bin/z3'):
            return
        run = self.run
        texts = [smt2_text(ob, ctx) for ob in obls]
        with ThreadPool(16) as tp:
            answers = tp.map(lambda t: run_smt2(t, timeout_s=60), texts)
        st = run.cov.setdefault('second_solver', {'solver': 'z3 4.8.12 (/usr/bin/z3) via SMT-LIB2', 'asked': 0, 'agree_unsat': 0, 'timeout_or_unknown': 0, 'contradictions': 0})
        for ob, a in zip(obls, answers):
            st['asked'] += 1
            if a == 'unsat':
                st['agree_unsat'] += 1
            elif a == 'sat':
                st['contradictions'] += 1
                run.error('second solver contradicts unsat on "%s"' % ob.name)
            else:
                st['timeout_or_unknown'] += 1

    def confirm_pinned(self, ob, pt, ctx=None, timeout_s=20):
        """solver confirmation of a numerically found counterexample: base inputs pinned to the
        (rationalised) point, auxiliary variables left to the solver"""
        ctx = ctx or S.C
        s = z3.Solver()
        s.set('timeout', int(timeout_s * 1000))
        terms = [ob.neg] + list(ob.extra)
        names = S.base_vars(terms + ([ob.expr] if ob.expr is not None else []), ctx)
        s.add(S.cone(terms, ctx.cons + ctx.dom))
        s.add(ob.extra)
        s.add(ob.neg)
        for n in names:
            if n == 'deg' or n not in pt:
                continue
            fr = Fr(pt[n]).limit_denominator(10**6)
            s.add(z3.Real(n) == S.rat(fr))
        return str(s.check())

    def verify_model(self, ob, pt, ctx=None):
        """constructive `sat`: build an exact model of the RELAXED constraint system around the
        point (base inputs rational, trig pairs Pythagorean rationals near the true values,
        reciprocals/square roots exact algebraic numbers by definition) and let z3 evaluate every
        constraint of the cone and the negated claim exactly. Returns True iff all hold."""
        ctx = ctx or S.C
        terms = [ob.neg] + list(ob.extra)
        cons = S.cone(terms, ctx.cons + ctx.dom) + list(ob.extra) + [ob.neg]
        evf = S.Evaluator(ctx, dict(pt))
        vals = {}
        pyth = {}

        def subst(t):
            names = S._vars_of(t)
            pairs = [(z3.Real(n), value(n)) for n in names]
            return z3.simplify(z3.substitute(t, *pairs)) if pairs else z3.simplify(t)

        def value(n):
            if n in vals:
                return vals[n]
            d = ctx.defs.get(n)
            if d is None:
                if n == 'deg':
                    v = S.rat(Fr(math.pi / 180).limit_denominator(10**12))
                elif n in pt:
                    v = S.rat(Fr(pt[n]).limit_denominator(10**6))
                else:
                    raise KeyError(n)
            elif d[0] in ('sin', 'cos'):
                key = d[1].get_id()
                if key not in pyth:
                    th = evf.ev(d[1])
                    th = math.remainder(th, 2 * math.pi)
                    if abs(abs(th) - math.pi) < 1e-9:
                        pyth[key] = (S.rat(0), S.rat(-1))
                    else:
                        t = Fr(math.tan(th / 2)).limit_denominator(10**4)
                        pyth[key] = (S.rat(2 * t / (1 + t * t)), S.rat((1 - t * t) / (1 + t * t)))
                v = pyth[key][0 if d[0] == 'sin' else 1]
            elif d[0] == 'inv':
                v = z3.simplify(1 / subst(d[1]))
            elif d[0] == 'sqrt':
                v = z3.simplify(subst(d[1]) ** z3.Q(1, 2))
            elif d[0] == 'atan2':
                v = S.rat(Fr(math.atan2(evf.ev(d[1]), evf.ev(d[2]))).limit_denominator(10**9))
            elif d[0] in ('a2sin', 'a2cos'):
                y0, x0 = subst(d[1]), subst(d[2])
                v = z3.simplify((y0 if d[0] == 'a2sin' else x0) / (x0 * x0 + y0 * y0) ** z3.Q(1, 2))
            elif d[0] == 'mod':
                c0 = subst(d[1])
                if not z3.is_rational_value(c0):
                    raise KeyError('mod of non-rational')
                f = S.val(c0)
                v = S.rat(f - Fr(d[2]) * math.floor(f / Fr(d[2])))
            elif d[0] == 'fmod':
                c0 = subst(d[1])
                if not z3.is_rational_value(c0):
                    raise KeyError('fmod of non-rational')
                f = S.val(c0)
                v = S.rat((abs(f) - Fr(d[2]) * math.floor(abs(f) / Fr(d[2]))) * (1 if f >= 0 else -1))
            elif d[0] == 'value':
                raise KeyError('named value')
            else:
                raise KeyError(d[0])
            vals[n] = v
            return v
        try:
            for c in cons:
                r = subst(c)
                if not z3.is_true(r):
                    if z3.is_false(r):
                        if os.environ.get('PVF_DEBUG'):
                            print('verify_model: false constraint', str(c)[:300])
                        return False
                    sol = z3.Solver()
                    sol.set('timeout', 2000)
                    sol.add(z3.Not(r))
                    if sol.check() != z3.unsat:
                        if os.environ.get('PVF_DEBUG'):
                            print('verify_model: undecided constraint', str(c)[:300], '->', str(r)[:300])
                        return False
            return True
        except (KeyError, z3.Z3Exception, ZeroDivisionError, ValueError, OverflowError) as e:
            if os.environ.get('PVF_DEBUG'):
                print('verify_model: exception', type(e).__name__, e)
            return False

    def refute(self, ob, r, ctx=None):
        """turn a non-unsat answer into a concrete point of the domain where the residual,
        evaluated with the true functions, is non-zero; `unknown` answers additionally need the
        solver to confirm the pinned point. Returns (point, value) or None."""
        if ob.expr is None:
            return None
        tr = self.triage(ob, r, ctx)
        if tr is None:
            return None
        if r['result'] == 'sat':
            return tr
        # the solver gave up (`unknown`): try to have it confirm the pinned point; otherwise the
        # point stands as a numeric counterexample of the symbolic residual (true functions),
        # which is only ever reported after it reproduces on the compiled code
        c = self.confirm_pinned(ob, tr[0], ctx, timeout_s=8)
        st = self.run.cov.setdefault('unknown_resolved', {'pinned_sat': 0, 'numeric_only': 0})
        st['pinned_sat' if c == 'sat' else 'numeric_only'] += 1
        return tr

    def finish(self, bad, prop, ctx=None):
        """non-unsat answers -> true-function counterexample -> replay on the compiled code"""
        run = self.run
        specs, obs = [], []
        for ob, r in bad:
            tr = self.refute(ob, r, ctx)
            if tr is None and ob.expr is None and r['result'] == 'sat' and (ob.meta or {}).get('check'):
                # a structural obligation (no residual to evaluate) failed: replay at a seeded point
                pt = sample_point(set(self.box) - {'deg'}, self.box, self.rng, self.consts)
                if (ob.meta or {}).get('use_model'):
                    for k_, v_ in (r.get('model') or {}).items():
                        if '!' not in k_ and k_ != 'deg':
                            pt[k_] = v_[0] / v_[1]      # the solver's own counterexample where it names inputs
                tr = (pt, float('nan'))
            if tr is None:
                if r['result'] == 'sat':
                    run.error('obligation "%s" is sat under the relaxation but no true-function counterexample was found - inconclusive' % ob.name)
                continue
            if r['result'] != 'sat':
                # the unknown was resolved into a confirmed counterexample: no longer inconclusive
                run.unknown[:] = [u for u in run.unknown if not u.startswith(ob.name + ' (')]
            pt, v = tr
            specs.append({'property': prop, 'kind': 'numeric', 'check': (ob.meta or {}).get('check'), 'point': pt,
                          'obligation': ob.name, 'residual_symbolic': v, 'params': (ob.meta or {}).get('params')})
            obs.append(ob)
        if not specs:
            return
        res = common.run_replays(specs)
        seen = set()
        from . import findings
        kf = findings.for_property(prop)
        for spec, ob, r in zip(specs, obs, res):
            if r.get('error'):
                run.error('replay error for "%s": %s' % (ob.name, r['error']))
            elif r.get('violated'):
                fid = findings.match(kf, spec, str(spec.get('check') or ''), r)
                if fid is not None:
                    run.known_finding(fid['id'], fid['what'])
                    continue
                key = str(r.get('detail'))
                if key in seen:
                    continue
                seen.add(key)
                spec = dict(spec)
                spec['observed'] = r.get('detail')
                path = common.write_replay(prop, spec)
                run.violation('%s; real code: %s' % (ob.name, r.get('detail')), path)
            else:
                self.unreproduced = getattr(self, 'unreproduced', 0) + 1
                if not hasattr(self, 'first_unreproduced'):
                    self.first_unreproduced = ob.name
                run.error('obligation "%s" fails symbolically (residual %.3g at %s) but the compiled code satisfies the numeric oracle - inconclusive' % (
                    ob.name, spec['residual_symbolic'], spec['point']))

    def guarded(self, prop, fn, fallback, label):
        """runs a section; if the code under test leaves what the symbolic run can follow (converts
        its input to a float array, calls an unmodelled library routine, ...), the numeric oracle(s)
        `fallback` are run on the COMPILED code of the tree being checked: a failure there is a
        concrete failing run and is reported as the violation, otherwise the run is inconclusive
        (exit 2) - never a pass. Returns fn()'s value or None."""
        try:
            return fn()
        except common.HarnessError:
            raise
        except (TypeError, NotImplementedError, RuntimeError, AttributeError, ValueError, KeyError, IndexError, ZeroDivisionError, ArithmeticError) as e:
            run = self.run
            specs = [dict(sp, property=prop, kind=sp.get('kind', 'numeric')) for sp in fallback]
            res = common.run_replays(specs) if specs else []
            hit = [(sp, r) for sp, r in zip(specs, res) if r.get('violated')]
            what = '%s: %s' % (type(e).__name__, str(e)[:140])
            if hit:
                sp, r = hit[0]
                sp = dict(sp)
                sp['observed'] = r.get('detail') or r.get('failed')
                run.violation('%s: symbolic execution left the model (%s); real code: %s' % (label, what, str(sp['observed'])[:400]), common.write_replay(prop, sp))
            else:
                run.error('%s: symbolic execution failed (%s) and the compiled code satisfies the numeric oracle - inconclusive' % (label, what))
            run.family(label, 1, 0, 0.0)
            return None

    def selfcheck(self, prop, specs):
        """translator validation of the formalisation: the numeric oracle (finite differences /
        independent reference on the COMPILED code) is run at seeded points on the tree being
        checked. It must agree with the symbolic verdict: a failure here while every obligation
        was discharged means the formalisation or the oracle misrepresents the code -> exit 2."""
        run = self.run
        full = []
        for sp in specs:
            sp = dict(sp)
            sp.setdefault('property', prop)
            sp.setdefault('kind', 'numeric')
            full.append(sp)
        if not full:
            return
        dump = os.environ.get('PVF_DUMP_SELFCHECK')
        if dump:
            old = json.load(open(dump)) if os.path.exists(dump) else []
            with open(dump, 'w') as f:
                json.dump(old + full, f, default=str)
        res = common.run_replays(full, timeout=900)
        bad = 0
        for sp, r in zip(full, res):
            if r.get('error'):
                run.error('oracle self-check failed to run (%s): %s' % (sp.get('check'), r['error']))
            elif r.get('violated'):
                bad += 1
                if not run.violations and getattr(self, 'unreproduced', 0):
                    # obligations failed symbolically, their own replays did not reproduce, but an
                    # oracle of the same property fails on the compiled code of this tree: that is a
                    # concrete failing run of the real code, reported as the violation
                    sp2 = dict(sp)
                    sp2['observed'] = r.get('detail') or r.get('failed')
                    path = common.write_replay(prop, sp2)
                    run.violation('%d obligation(s) fail symbolically (first: %s) and the numeric oracle "%s" fails on the compiled code: %s' % (
                        self.unreproduced, getattr(self, 'first_unreproduced', '?'), sp.get('check'), str(sp2['observed'])[:300]), path)
                elif not run.violations:
                    run.error('numeric oracle reports a failure on the tree being checked where the symbolic check holds (%s at %s): %s' % (
                        sp.get('check'), str(sp.get('point'))[:200], str(r.get('detail') or r.get('failed'))[:300]))
        run.cov['oracle_selfcheck_points'] = run.cov.get('oracle_selfcheck_points', 0) + len(full)
        run.cov['translator_validation_cases'] = run.cov.get('translator_validation_cases', 0) + len(full)

    def points(self, n, names=None):
        names = names if names is not None else [k for k in self.box if k != 'deg']
        # every other self-check point has coordinates on the rim of the claimed domain
        return [sample_point(names, self.box, self.rng, None, edge=(k % 2 == 1)) for k in range(n)]

    def canary(self, name, obls, timeout_s=8, ctx=None, families=None):
        """a mutant must be refuted: some obligation gets a confirmed counterexample"""
        if families:
            obls = [o for o in obls if o.family in families]
        bad = self.batch(obls, timeout_s=timeout_s, expect_sat=True, ctx=ctx)
        hit = None
        for ob, r in sorted(bad, key=lambda x: x[1]['result'] != 'sat'):
            if ob.expr is None and r['result'] == 'sat':
                hit = ob.name
                break
            if self.refute(ob, r, ctx):
                hit = ob.name
                break
        self.run.canary(name, hit is not None, hit)

    def triage(self, ob, r, ctx=None, tol=1e-9, tries=120, scale_fn=None):
        """a `sat` answer under the relaxation: look for a point of the domain where the residual,
        evaluated with the TRUE functions, is non-zero. Returns (point, value) or None."""
        ctx = ctx or S.C
        if ob.expr is None:
            return None
        names = S.base_vars([ob.expr] + list(ob.extra), ctx)
        box = dict(self.box)
        box.update((ob.meta or {}).get('box', {}))
        tol = (ob.meta or {}).get('tol', tol)
        pts = []
        if r.get('model'):
            pt = {}
            for n in names:
                if n in r['model']:
                    a, b = r['model'][n]
                    pt[n] = a / b
            if len(pt) == len(names):
                pts.append(pt)
            elif pt:
                # the query was sliced: inputs it does not mention are free - complete the model
                # with seeded values (several completions)
                for _ in range(8):
                    q = sample_point(names, box, self.rng, self.consts)
                    q.update(pt)
                    pts.append(q)
        for k_ in range(tries):
            pts.append(sample_point(names, box, self.rng, self.consts, edge=(k_ % 3 == 2)))
        found = []
        for pt in pts:
            pt = dict(pt)
            for k, v in self.consts.items():
                pt.setdefault(k, v)
            pt.pop('deg', None)
            try:
                ev = S.Evaluator(ctx, pt)
                if not all(ev.holds(c) for c in ob.extra):
                    continue
                v = ev.ev(ob.expr)
            except (KeyError, ZeroDivisionError, ValueError, OverflowError, NotImplementedError):
                continue
            sc = scale_fn(pt) if scale_fn else 1.0
            if abs(v) > tol * sc:
                found.append((abs(v) / sc, pt, v))
                if len(found) >= 40:
                    break
        if found:
            # the point where the symbolic residual is largest: solver models are often degenerate
            # (zeros) and make a real defect numerically invisible to the replay oracle
            _a, pt, v = max(found, key=lambda t: t[0])
            return pt, v
        return None
