"""Path executor: explores every feasible branch combination of real Python code that runs on
symbolic values, by re-execution with a decision prefix (depth-first), with the feasibility of
each symbolic condition decided by z3.  Shared by engine A (symreal) and engine B (symsched).

A symbolic boolean calls `decide(cond)` from its `__bool__`; the executor answers from the
prefix when replaying, otherwise asks the control solver whether `cond` and `Not(cond)` are
feasible under the path condition and forks when both are.
"""
import time as _time
import traceback
import z3


class Abort(BaseException):
    """Raised to end a path (infeasible, out of fuel ...). BaseException on purpose: the code
    under test must not be able to swallow it with `except Exception`."""


CUR = None          # the executor that is currently running a path (one per process)


def cur():
    return CUR


class PathResult:
    __slots__ = ('status', 'out', 'pc', 'decisions', 'model', 'extra')

    def __init__(self, status, out, pc, decisions, model, extra=None):
        self.status = status
        self.out = out
        self.pc = pc
        self.decisions = decisions
        self.model = model
        self.extra = extra


class Exec:
    """DFS path explorer by re-execution.

    pre : list of z3 constraints (preconditions). Only these and the decisions taken are in
          the control solver.
    """

    def __init__(self, pre, timeout_ms=20000, max_memory_mb=3000):
        self.pre = list(pre)
        self.timeout_ms = timeout_ms
        self.solver = z3.Solver()
        self.solver.set('timeout', timeout_ms)
        self.solver.set('max_memory', max_memory_mb)
        self.solver.add(self.pre)
        self._model_src = self.solver
        self.nq = 0
        self.n_unknown = 0
        self.query_s = 0.0
        self.fresh_counter = 0
        self.extra_cons = []          # constraints introduced during the path (e.g. rounding etas)
        self.active = False

    # -- solver helpers -----------------------------------------------------------------
    def _check(self, *assumptions):
        t0 = _time.time()
        self.nq += 1
        r = self.solver.check(*assumptions)
        self._model_src = self.solver
        if r == z3.unknown and assumptions:
            r = self._retry(assumptions)
        self.query_s += _time.time() - t0
        if r == z3.unknown:
            self.n_unknown += 1
        return r

    def _retry(self, assumptions):
        """the incremental solver gave up: (1) a fresh solver on the cone of influence of the
        question (dropping unrelated assertions is sound for `unsat`), (2) a fresh solver on
        everything. nlsat is far more reliable non-incrementally and on few constraints."""
        def names(t, acc):
            stack, seen = [t], set()
            while stack:
                u = stack.pop()
                if u.get_id() in seen:
                    continue
                seen.add(u.get_id())
                if z3.is_const(u) and u.decl().kind() == z3.Z3_OP_UNINTERPRETED:
                    acc.add(str(u))
                else:
                    stack += u.children()
            return acc
        asserts = list(self.solver.assertions())
        want = set()
        for a in assumptions:
            names(a, want)
        vs = [(a, names(a, set())) for a in asserts]
        changed = True
        used = [False] * len(vs)
        while changed:
            changed = False
            for i, (a, v) in enumerate(vs):
                if not used[i] and v & want and len(v) <= 6:
                    used[i] = True
                    if not v <= want:
                        want |= v
                        changed = True
        cone = [a for (a, _v), u in zip(vs, used) if u]
        for cs, tmo in ((cone, 8000), (asserts, min(self.timeout_ms, 20000))):
            sv = z3.Solver()
            sv.set('timeout', tmo)
            sv.add(cs)
            sv.add(list(assumptions))
            r = sv.check()
            if r == z3.unsat or (r == z3.sat and cs is asserts):
                if r == z3.sat:
                    self._model = None
                    self._model_src = sv
                return r
        return z3.unknown

    def add(self, c):
        """Add a side constraint for the rest of the current path (definitional constraints of
        fresh variables, e.g. rounding errors)."""
        self.extra_cons.append(c)
        self.solver.add(c)
        self._model = None

    def fresh(self, prefix, sort='Real'):
        self.fresh_counter += 1
        name = '%s!%d' % (prefix, self.fresh_counter)
        return z3.Real(name) if sort == 'Real' else z3.Int(name)

    def feasible(self, cond):
        """Is cond satisfiable together with the current path condition?  unknown -> raises."""
        r = self._check(cond)
        if r == z3.unknown:
            raise Abort('UNKNOWN')
        if r == z3.sat:
            self._model = None
        return r == z3.sat

    def valid(self, cond):
        """Does cond hold for all values on the current path?"""
        return not self.feasible(z3.Not(cond))

    def model_for(self, cond=None):
        r = self._check(*( [cond] if cond is not None else [] ))
        if r == z3.sat:
            return self._model_src.model()
        if r == z3.unknown:
            raise Abort('UNKNOWN')
        return None

    # -- decisions ----------------------------------------------------------------------
    def decide(self, cond):
        if isinstance(cond, bool):
            return cond
        cond = z3.simplify(cond)
        if z3.is_true(cond):
            return True
        if z3.is_false(cond):
            return False
        if self.pos < len(self.prefix):
            d = self.prefix[self.pos]
        else:
            # cheap pre-test with the last model, then at most two queries
            can_t = can_f = None
            m = self._model
            if m is not None:
                try:
                    v = m.eval(cond, model_completion=True)
                    if z3.is_true(v):
                        can_t = True
                    elif z3.is_false(v):
                        can_f = True
                except z3.Z3Exception:
                    pass
            if can_t is None:
                r = self._check(cond)
                if r == z3.unknown:
                    raise Abort('UNKNOWN')
                can_t = r == z3.sat
                if can_t:
                    self._model = self._model_src.model()
            if can_f is None:
                r = self._check(z3.Not(cond))
                if r == z3.unknown:
                    raise Abort('UNKNOWN')
                can_f = r == z3.sat
                if can_f and not can_t:
                    self._model = self._model_src.model()
            if can_t and can_f:
                d = True
                self.pending.append(self.decisions + [False])
            elif can_t:
                d = True
            elif can_f:
                d = False
            else:
                raise Abort('INFEASIBLE')
        self.pos += 1
        self.decisions.append(d)
        c = cond if d else z3.Not(cond)
        self.pc.append(c)
        self.solver.add(c)
        if self._model is not None:
            try:
                if not z3.is_true(self._model.eval(c, model_completion=True)):
                    self._model = None
            except z3.Z3Exception:
                self._model = None
        self.n_decisions += 1
        if self.max_decisions and self.n_decisions > self.max_decisions:
            raise Abort('DECISION_LIMIT')
        return d

    # -- exploration --------------------------------------------------------------------
    def run_path(self, fn, prefix, on_path=None):
        """Run one path under `prefix`. Returns (PathResult, pending prefixes)."""
        global CUR
        CUR = self
        self.prefix = list(prefix)
        self.pos = 0
        self.decisions = []
        self.pc = []
        self.pending = []
        self.extra_cons = []
        self.fresh_counter = 0
        self.n_decisions = 0
        self._model = None
        self.solver.push()
        self.active = True
        try:
            try:
                out = fn()
                status = 'ok'
            except Abort as e:
                out = str(e)
                status = 'abort'
            except Exception as e:      # noqa: BLE001 - exceptions of the code under test are results
                out = (type(e).__name__, str(e), traceback.format_exc(limit=6))
                status = 'exception'
            self.active = False
            extra = None
            model = None
            if on_path is not None:
                res = PathResult(status, out, list(self.pc), list(self.decisions), None)
                extra = on_path(self, res)
            pr = PathResult(status, out, list(self.pc), list(self.decisions), model, extra)
        finally:
            self.solver.pop()
        pend = self.pending
        self.pending = []
        return pr, pend

    def run(self, fn, root=(), on_path=None, max_paths=None, bfs=False, max_decisions=0,
            deadline=None):
        """Explore the subtree under decision prefix `root`.
        Returns (results, leftover_prefixes)."""
        self.max_decisions = max_decisions
        todo = [list(root)]
        results = []
        while todo:
            if max_paths is not None and len(results) >= max_paths:
                break
            if deadline is not None and _time.time() > deadline:
                break
            prefix = todo.pop(0) if bfs else todo.pop()
            pr, pend = self.run_path(fn, prefix, on_path)
            results.append(pr)
            todo.extend(pend)
        return results, todo


def explore_parallel(make, fn_name, pool_size, on_path_name=None, seed_paths=160,
                     max_decisions=0, time_budget=None):
    """Explore all paths of harness `make()` -> object with attributes pre, and methods named
    fn_name / on_path_name, using a fork pool.  The master explores breadth-first until it
    has produced `seed_paths` paths, the remaining subtrees are farmed out.

    Results returned by workers must be picklable: the harness's on_path must reduce each
    path to plain data; PathResult.pc/decisions are dropped (only extra is kept) for
    worker paths.
    """
    import multiprocessing as mp
    h = make()
    ex = Exec(h.pre)
    fn = getattr(h, fn_name)
    on_path = getattr(h, on_path_name) if on_path_name else None
    deadline = _time.time() + time_budget if time_budget else None
    results, todo = ex.run(fn, on_path=on_path, max_paths=seed_paths, bfs=True,
                           max_decisions=max_decisions, deadline=deadline)
    out = [(r.status, r.out if r.status != 'ok' else None, r.decisions, r.extra) for r in results]
    stats = {'queries': ex.nq, 'unknown': ex.n_unknown, 'query_s': ex.query_s}
    incomplete = False
    if todo:
        global _WORK
        _WORK = (h, fn_name, on_path_name, max_decisions, deadline)
        ctx = mp.get_context('fork')
        with ctx.Pool(pool_size) as pool:
            for res, st in pool.imap_unordered(_worker, todo, chunksize=1):
                out.extend(res)
                for k in stats:
                    stats[k] += st[k]
                if st.get('leftover'):
                    incomplete = True
    elif deadline is not None and _time.time() > deadline:
        incomplete = bool(todo)
    stats['incomplete'] = incomplete
    return h, out, stats


_WORK = None


def _worker(prefix):
    h, fn_name, on_path_name, max_decisions, deadline = _WORK
    ex = Exec(h.pre)
    fn = getattr(h, fn_name)
    on_path = getattr(h, on_path_name) if on_path_name else None
    results, todo = ex.run(fn, root=prefix, on_path=on_path, max_decisions=max_decisions,
                           deadline=deadline)
    out = [(r.status, r.out if r.status != 'ok' else None, r.decisions, r.extra) for r in results]
    return out, {'queries': ex.nq, 'unknown': ex.n_unknown, 'query_s': ex.query_s,
                 'leftover': len(todo)}
