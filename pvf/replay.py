"""Replay of solver-found counterexamples / witnesses against the *unpatched, compiled* pyins.
Runs in a clean subprocess: no shims, no NUMBA_DISABLE_JIT.  Each property module provides
`replay(spec) -> dict(violated=bool, detail=..., trace=...)`.

usage:  python -m pvf.replay <file.json>      (exit 1 + VIOLATION line if it reproduces)
        python -m pvf.replay --batch          (specs as a JSON list on stdin)
"""
import importlib
import json
import signal
import sys
import traceback


class ReplayTimeout(BaseException):
    pass


def _alarm(signum, frame):
    raise ReplayTimeout()


def run_one(spec):
    prop = spec['property']
    mod = importlib.import_module('pvf.props.%s' % prop.lower())
    limit = float(spec.get('time_limit', 60))
    signal.signal(signal.SIGALRM, _alarm)
    signal.setitimer(signal.ITIMER_REAL, limit)
    try:
        res = mod.replay(spec)
    except ReplayTimeout:
        res = {'violated': bool(spec.get('timeout_is_violation', False)),
               'detail': 'did not finish within %.0f s' % limit, 'timeout': True}
    except Exception as e:      # noqa: BLE001
        res = {'violated': False, 'error': '%s: %s' % (type(e).__name__, e),
               'traceback': traceback.format_exc(limit=8)}
    finally:
        signal.setitimer(signal.ITIMER_REAL, 0)
    return res


def main(argv):
    if argv and argv[0] == '--batch':
        specs = json.load(sys.stdin)
        out = [run_one(s) for s in specs]
        print('REPLAY-RESULT ' + json.dumps(out, default=str))
        return 0
    with open(argv[0]) as f:
        spec = json.load(f)
    res = run_one(spec)
    print(json.dumps(res, indent=1, default=str))
    if res.get('violated'):
        print('VIOLATION property=%s replay=%s' % (spec['property'], argv[0]))
        return 1
    if res.get('error'):
        return 2
    return 0


if __name__ == '__main__':
    sys.exit(main(sys.argv[1:]))
