"""Replay of solver-found counterexamples / witnesses against the *unpatched, compiled* pyins.
Runs in a clean subprocess: no shims, no NUMBA_DISABLE_JIT.  Each property module provides
`replay(spec) -> dict(violated=bool, detail=..., trace=...)`.

usage:  python -m pvf.replay <file.json>      (exit 1 + VIOLATION line if it reproduces)
        python -m pvf.replay --batch          (specs as a JSON list on stdin)
"""
import importlib
import json
import signal
import sys
import traceback


class ReplayTimeout(BaseException):
    pass


def _alarm(signum, frame):
    raise ReplayTimeout()


_WARM = False


def warm_up():
    """compile the numba kernel (and import everything) before any timed replay: the time limits
    below are about loops that do not terminate, not about JIT compilation"""
    global _WARM
    if _WARM:
        return
    _WARM = True
    try:
        import numpy as np
        import pandas as pd
        from pyins import strapdown, filters, measurements, inertial_sensor, error_model  # noqa: F401
        from pyins.util import TRAJECTORY_COLS
        pva = pd.Series([50.0, 30.0, 100.0, 1.0, -2.0, 0.0, 1.0, -2.0, 40.0], index=TRAJECTORY_COLS, name=0.0)
        inc = pd.DataFrame([[0.1, 0, 0, 0, 0, 0, -0.981]], index=[0.1], columns=['dt', 'theta_x', 'theta_y', 'theta_z', 'dv_x', 'dv_y', 'dv_z'])
        for wa in (True, False):
            strapdown.Integrator(pva, wa).integrate(inc)
    except Exception:      # noqa: BLE001
        pass


def run_one(spec):
    prop = spec['property']
    mod = importlib.import_module('pvf.props.%s' % prop.lower())
    limit = float(spec.get('time_limit', 60))
    warm_up()
    # CPU time of this process, not wall time: a loaded machine must not turn a slow replay into a
    # "does not terminate" verdict, while a loop that never ends burns CPU and is still caught
    signal.signal(signal.SIGPROF, _alarm)
    signal.setitimer(signal.ITIMER_PROF, limit)
    try:
        res = mod.replay(spec)
    except ReplayTimeout:
        res = {'violated': bool(spec.get('timeout_is_violation', False)),
               'detail': 'did not finish within %.0f s of CPU time' % limit, 'timeout': True}
    except Exception as e:      # noqa: BLE001
        res = {'violated': False, 'error': '%s: %s' % (type(e).__name__, e),
               'traceback': traceback.format_exc(limit=8)}
    finally:
        signal.setitimer(signal.ITIMER_PROF, 0)
    return res


def main(argv):
    if argv and argv[0] == '--batch':
        specs = json.load(sys.stdin)
        out = [run_one(s) for s in specs]
        print('REPLAY-RESULT ' + json.dumps(out, default=str))
        return 0
    with open(argv[0]) as f:
        spec = json.load(f)
    res = run_one(spec)
    print(json.dumps(res, indent=1, default=str))
    if res.get('violated'):
        print('VIOLATION property=%s replay=%s' % (spec['property'], argv[0]))
        return 1
    if res.get('error'):
        return 2
    return 0


if __name__ == '__main__':
    sys.exit(main(sys.argv[1:]))
