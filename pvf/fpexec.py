"""Bit-precise execution of real pyins numeric source on IEEE binary64 scalars.

The function's current source is re-executed in a namespace whose `np`, `cholesky`, `cho_solve`,
`solve_triangular` work on 1x1 / length-1 numpy object arrays of scalar wrappers.  Two wrappers
share one interface:

  N  - a z3 FloatingPoint(11, 53) term, every operation rounded to nearest even: the result is
       the exact formula of what the source computes, and claims about it go to a solver as QF_FP;
  F  - a Python float: the same harness evaluated concretely, used to validate the harness against
       the compiled code bit for bit and to re-evaluate solver models.

For 1x1 operands BLAS/LAPACK perform no summation, so each routine is a fixed scalar formula:
dot/gemm -> one product; potrf -> sqrt; trsv -> one division; potrs -> two solves, for which two
implementations are modelled: 'div' (reference LAPACK: (b / L) / L) and 'recip' (OpenBLAS trsm
kernels: inv = 1 / L; (b * inv) * inv).  Claims are decided under both.
"""
import inspect
import math
import os
import re
import subprocess
import tempfile
import textwrap
import time

import numpy as np

VARIANTS = ('recip', 'div')


class F:
    shape = ()
    ndim = 0

    def __init__(self, v):
        self.v = float(v.v if isinstance(v, F) else v)

    def _b(self, o, f, swap=False):
        if isinstance(o, np.ndarray):
            return NotImplemented
        o = o if isinstance(o, F) else F(o)
        a, b = (o.v, self.v) if swap else (self.v, o.v)
        try:
            return F(f(a, b))
        except ZeroDivisionError:
            return F(float('nan') if a == 0 or a != a else math.copysign(float('inf'), a) * math.copysign(1.0, b))
        except OverflowError:
            return F(float('inf'))

    def __add__(s, o): return s._b(o, lambda a, b: a + b)
    def __radd__(s, o): return s._b(o, lambda a, b: a + b, True)
    def __sub__(s, o): return s._b(o, lambda a, b: a - b)
    def __rsub__(s, o): return s._b(o, lambda a, b: a - b, True)
    def __mul__(s, o): return s._b(o, lambda a, b: a * b)
    def __rmul__(s, o): return s._b(o, lambda a, b: a * b, True)
    def __truediv__(s, o): return s._b(o, lambda a, b: a / b)
    def __rtruediv__(s, o): return s._b(o, lambda a, b: a / b, True)
    def __neg__(s): return F(-s.v)

    def sqrt(s):
        return F(math.sqrt(s.v) if s.v >= 0 else float('nan'))


def _n_class():
    import z3
    from . import fp
    RNE = fp.RNE

    class N:
        shape = ()
        ndim = 0

        def __init__(self, e):
            self.e = fp.fpval(float(e)) if isinstance(e, (int, float)) else (e.e if isinstance(e, N) else e)

        def _b(self, o, f, swap=False):
            if isinstance(o, np.ndarray):
                return NotImplemented
            o = o if isinstance(o, N) else N(o)
            a, b = (o.e, self.e) if swap else (self.e, o.e)
            return N(f(RNE, a, b))

        def __add__(s, o): return s._b(o, z3.fpAdd)
        def __radd__(s, o): return s._b(o, z3.fpAdd, True)
        def __sub__(s, o): return s._b(o, z3.fpSub)
        def __rsub__(s, o): return s._b(o, z3.fpSub, True)
        def __mul__(s, o): return s._b(o, z3.fpMul)
        def __rmul__(s, o): return s._b(o, z3.fpMul, True)
        def __truediv__(s, o): return s._b(o, z3.fpDiv)
        def __rtruediv__(s, o): return s._b(o, z3.fpDiv, True)
        def __neg__(s): return N(z3.fpNeg(s.e))

        def sqrt(s):
            return N(z3.fpSqrt(RNE, s.e))
    return N


def O(a):
    return np.array(a, dtype=object)


class _NP:
    def __init__(self, cls):
        self._cls = cls

    def __getattr__(self, name):
        return getattr(np, name)

    def eye(self, n, dtype=None):
        a = np.empty((n, n), dtype=object)
        for i in range(n):
            for j in range(n):
                a[i, j] = self._cls(1.0 if i == j else 0.0)
        return a
    identity = eye


def namespace(module, cls, variant):
    """module globals with the numeric names replaced by scalar models (1x1 operands only)"""
    def one(a, what):
        a = np.asarray(a, dtype=object)
        if a.size != 1:
            raise ValueError('%s: only 1x1 operands are modelled bit-precisely' % what)
        return a.reshape(-1)[0]

    def cholesky(S, lower=False, **kw):
        return O([[one(S, 'cholesky').sqrt()]])

    def cho_solve(c_and_lower, b, overwrite_b=False, **kw):
        L = one(c_and_lower[0], 'cho_solve')
        b = np.asarray(b, dtype=object)
        out = np.empty(b.shape, dtype=object)
        if variant == 'recip':
            inv = cls(1.0) / L
            for idx in np.ndindex(b.shape):
                out[idx] = (b[idx] * inv) * inv
        else:
            for idx in np.ndindex(b.shape):
                out[idx] = (b[idx] / L) / L
        return out

    def solve_triangular(L, e, lower=False, **kw):
        Ls = one(L, 'solve_triangular')
        e = np.asarray(e, dtype=object)
        out = np.empty(e.shape, dtype=object)
        for idx in np.ndindex(e.shape):
            out[idx] = e[idx] / Ls
        return out
    ns = dict(module.__dict__)
    ns.update(np=_NP(cls), cholesky=cholesky, cho_solve=cho_solve, solve_triangular=solve_triangular)
    return ns


def load(module, func_name, cls, variant, mutate=None):
    """the function re-defined from its current source (optionally with one token replaced) over
    the scalar models"""
    src = textwrap.dedent(inspect.getsource(getattr(module, func_name)))
    if mutate:
        old, new = mutate
        if old not in src:
            raise KeyError('stale canary: %r' % old)
        src = src.replace(old, new, 1)
    ns = namespace(module, cls, variant)
    exec(compile(src, '<fpexec:%s>' % func_name, 'exec'), ns)
    return ns[func_name]


# ---------------------------------------------------------------------------------------------
_VAL = re.compile(r'\(\s*(\w+)\s+\(fp\s+#b([01])\s+#b([01]+)\s+#[bx]([0-9a-fA-F]+)\)\)')
_SPECIAL = re.compile(r'\(\s*(\w+)\s+\(_\s+([+-]?)(zero|oo|NaN)\s+\d+\s+\d+\)\)')


def _bits_to_float(sign, exp, man_text, man_is_hex):
    import struct
    man = int(man_text, 16) if man_is_hex else int(man_text, 2)
    bits = (int(sign) << 63) | (int(exp, 2) << 52) | man
    return struct.unpack('>d', struct.pack('>Q', bits))[0]


def parse_values(text):
    out = {}
    for m in re.finditer(r'\(\s*(\w+)\s+\(fp\s+#b([01])\s+#b([01]+)\s+#(b|x)([0-9a-fA-F]+)\)\)', text):
        out[m.group(1)] = _bits_to_float(m.group(2), m.group(3), m.group(5), m.group(4) == 'x')
    for m in _SPECIAL.finditer(text):
        s = -1.0 if m.group(2) == '-' else 1.0
        out[m.group(1)] = {'zero': s * 0.0, 'oo': s * float('inf'), 'NaN': float('nan')}[m.group(3)]
    return out


def smt2(assumptions, negated_claim, names):
    import z3
    s = z3.Solver()
    s.add(list(assumptions))
    s.add(negated_claim)
    return '(set-logic QF_FP)\n(set-option :produce-models true)\n' + s.to_smt2() + '\n(get-value (%s))\n' % ' '.join(names)


def cvc5_run(text, timeout_s):
    """returns (verdict, values, seconds); verdict in unsat / sat / unknown"""
    fd, path = tempfile.mkstemp(suffix='.smt2', prefix='pvf_fp_')
    with os.fdopen(fd, 'w') as f:
        f.write(text)
    t0 = time.time()
    try:
        p = subprocess.run(['cvc5', path], capture_output=True, text=True, timeout=timeout_s)
        out = p.stdout
    except subprocess.TimeoutExpired:
        out = 'timeout'
    except FileNotFoundError:
        out = 'no-solver'
    finally:
        os.unlink(path)
    dt = time.time() - t0
    head = out.strip().split('\n')[0].strip() if out.strip() else ''
    if head == 'unsat':
        return 'unsat', {}, dt
    if head == 'sat':
        return 'sat', parse_values(out), dt
    return 'unknown', {'raw': out[:200]}, dt
