"""Driver for the engine-B filter checks: explore configurations, replay candidates and sampled
witnesses on the real code, run canaries, fill the Run/evidence."""
import random
import time as _time

from . import common, paths
from . import filtercheck as fc
from . import findings


def _mk_factory(prop, cfg, sample_mod, checker_cls=None):
    cls = checker_cls or fc.Checker
    cfgc = {k: v for k, v in cfg.items() if k != 'label'}
    return lambda: cls(prop, cfgc, sample_mod=sample_mod)


def canary_patch(func_name, old, new):
    def patch(F):
        orig = F._pvf_orig[func_name]
        setattr(F, func_name, common.mutate_source(orig, old, new, F.__dict__))
    return patch


def drive(run, prop, kind, func_name, configs, canaries, canary_cfg, checker_cls=None,
          extra_encode=(), max_replays_per_code=3, validate_cap=None):
    import pyins.filters as F
    from . import sched
    if not hasattr(F, '_pvf_orig'):
        F._pvf_orig = {'run_feedback_filter': F.run_feedback_filter,
                       'run_feedforward_filter': F.run_feedforward_filter,
                       '_correct_increments': F._correct_increments}
    run.encode(getattr(F, func_name), F._correct_increments, *extra_encode)
    run.assume(
        'time stamps and time_step are exact reals; the ONE arithmetic result that steers the loops, time + time_step, is additionally abstracted in dedicated configurations to an arbitrary value not below either operand (all that is assumed of the binary64 sum): every obligation except the step bound is re-established there, so no rounding of that addition can break them',
        'strapdown.Integrator replaced by its contract model (conformance decided by C02/C13)',
        'measurement classes replaced by the contract "(z,H,R) iff time is a stamp of the data, else None" (decided for the real classes by C06)',
        'kalman.correct, _compute_error_propagation_matrices, _interpolate_pva, _initialize_covariance, _compute_sd / _compute_feedforward_result, EstimationModel are recording tokens: numeric content (finiteness of P, sd) is outside',
        'preconditions: IMU/trajectory stamps strictly increasing, start < first increment stamp, stamps strictly increasing within a sensor, time_step > 0, dt column = stamp difference',
        'two sensors of the same class share one innovations key by design: sensors are of distinct classes')
    pool = 16
    sample_cap = validate_cap if validate_cap is not None else (60 if run.tier == 'quick' else 200)
    total_paths = 0
    total_dec = 0
    cand = {}          # (label, code) -> list of (witness, desc)
    distinct = set()
    samples_for_validation = []
    rng = random.Random(run.seed)
    cfg_stats = []
    for cfg in configs:
        cfg = dict(cfg)
        cfg['kind'] = kind
        label = cfg['label']
        # witness sampling rate: aim at ~sample_cap/len(configs) per configuration
        sample_mod = cfg.pop('sample_mod', 7 if run.tier == 'quick' else 29)
        t0 = _time.time()
        h, outs, agg = fc.explore(run, _mk_factory(prop, cfg, sample_mod, checker_cls), label, pool=pool)
        cfg_stats.append(agg)
        if __import__('os').environ.get('PVF_VERBOSE'):
            print('  explored', agg, flush=True)
        total_paths += agg['paths']
        total_dec += agg['decisions']
        run.queries += agg['queries']
        n_obl = 0
        n_ok = 0
        n_viol_paths = 0
        for o in outs:
            if o is None:
                run.error('%s: path without result' % label)
                continue
            if o.get('harness_error'):
                run.error('%s: %s' % (label, o['harness_error']))
                continue
            if o.get('unknown'):
                run.unknown.append('%s: path feasibility unknown' % label)
                continue
            if o.get('infeasible'):
                continue
            n_obl += o['nobl']
            if o.get('trace') is not None:
                distinct.add(label + '|' + repr(o['trace']))
            n_ok += o['nobl'] - min(o['nobl'], len(o['viol']))
            if o['viol']:
                n_viol_paths += 1
            for v in o['viol']:
                cand.setdefault((label, v['code']), []).append((v['witness'], v['desc'], cfg, o.get('trace')))
            if o.get('witness') is not None:
                samples_for_validation.append((cfg, o['witness'], o['trace']))
        if agg.get('incomplete'):
            run.error('%s: exploration incomplete (time budget)' % label)
        run.family(label, n_obl, n_ok, agg['query_s'])
        agg['violating_paths'] = n_viol_paths
        if agg['paths'] < 1:
            run.error('%s: no path explored' % label)
    # ---- reachability witness: the preconditions are satisfiable and at least one path
    # processes a measurement / reaches the result assembly
    run.witness('some explored path processes a measurement',
                any(t and t.get('meas') for (_c, _w, t) in samples_for_validation) or
                any(tr and tr.get('meas') for v in cand.values() for (_w, _d, _c, tr) in v))
    _tp = _time.time(); print('  phase explore done', round(_tp - run.t0, 1), flush=True) if __import__('os').environ.get('PVF_VERBOSE') else None
    # ---- replay violation candidates on the real code ----------------------------------
    kf = findings.for_property(prop)
    specs, meta = [], []
    for (label, code), lst in sorted(cand.items()):
        seen = set()
        picked = 0
        for w, desc, cfg, _tr in lst:
            if w is None:
                continue
            k = str(w)
            if k in seen:
                continue
            seen.add(k)
            specs.append(fc.witness_to_spec(kind, cfg, w, expect_code=code, config=label, property=prop))
            meta.append((label, code, desc))
            picked += 1
            if picked >= max_replays_per_code:
                break
        if picked == 0:
            run.error('%s: violation candidate %s has no witness' % (label, code))
    results = common.run_replays(specs, timeout=1200) if specs else []
    reproduced = {}
    for spec, (label, code, desc), res in zip(specs, meta, results):
        if res.get('error'):
            run.error('replay error for %s/%s: %s' % (label, code, res['error']))
            continue
        if res.get('violated'):
            reproduced.setdefault(code, []).append((spec, label, desc, res))
    for (label, code) in sorted(cand):
        if code not in reproduced:
            run.error('candidate %s in %s did not reproduce on the real code (model/stand-in imprecise) - inconclusive' % (code, label))
    for code, lst in sorted(reproduced.items()):
        unlisted = []
        for spec, label, desc, res in lst:
            fid = findings.match(kf, spec, code, res)
            if fid is not None:
                run.known_finding(fid['id'], fid['what'])
            else:
                unlisted.append((spec, label, desc, res))
        if unlisted:
            spec, label, desc, res = unlisted[0]
            spec = dict(spec)
            spec['observed'] = res.get('failed') or res.get('detail')
            path = common.write_replay(prop, spec)
            run.violation('%s [%s] %s; real code: %s' % (code, label, desc, spec['observed']), path)
    print('  phase candidates replayed', round(_time.time() - run.t0, 1), len(specs), flush=True) if __import__('os').environ.get('PVF_VERBOSE') else None
    # ---- validate symbolic traces against the implementation -----------------------------
    rng.shuffle(samples_for_validation)
    chosen = samples_for_validation[:sample_cap]
    vspecs = [fc.witness_to_spec(kind, cfg, w, config=cfg.get('label'), property=prop) for cfg, w, _t in chosen]
    vres = common.run_replays(vspecs, timeout=1800) if vspecs else []
    n_valid = 0
    for (cfg, w, tr), spec, res in zip(chosen, vspecs, vres):
        if res.get('error'):
            run.error('trace validation replay error: %s' % res['error'])
            continue
        real = res.get('trace', {})
        sym = tr or {}
        same = [list(x) for x in sym.get('meas', [])] == [list(x) for x in real.get('meas', [])]
        if kind == 'feedback':
            same = same and sym.get('batches') == real.get('batches') and sym.get('n_results') == real.get('n_results')
        else:
            same = same and sym.get('result_pos') == real.get('result_pos')
        if res.get('violated'):
            # the real code breaks the property on a schedule whose symbolic path was clean
            fid = findings.match(kf, spec, 'replay', res)
            if fid is not None:
                run.known_finding(fid['id'], fid['what'])
                continue
            spec = dict(spec)
            spec['observed'] = res.get('failed')
            path = common.write_replay(prop, spec)
            run.violation('witness replay: real code violates the property on an explored schedule: %s' % res.get('failed'), path)
            continue
        if not same and not spec.get('exact_in_binary64'):
            continue        # witness not exactly representable: comparison not meaningful
        if not same:
            run.error('trace mismatch between symbolic path and real run (stand-in invalid): sym=%s real=%s spec=%s' % (
                sym, real, {k: spec[k] for k in ('stamps', 'step', 'sensors')}))
            continue
        n_valid += 1
        run.sample({'config': cfg.get('label'), 'stamps': spec['stamps_exact'], 'time_step': spec['step_exact'],
                    'sensors': spec['sensors'], 'trace': real}, cap=8)
    print('  phase validation done', round(_time.time() - run.t0, 1), len(vspecs), flush=True) if __import__('os').environ.get('PVF_VERBOSE') else None
    # ---- canaries --------------------------------------------------------------------------
    for can in canaries:
        name, old, new = can[:3]
        ccfg = dict(can[3] if len(can) > 3 else canary_cfg)
        ccfg['kind'] = kind
        ccfg['patch'] = canary_patch(func_name, old, new)
        try:
            h, outs, agg = fc.explore(run, _mk_factory(prop, ccfg, 0, checker_cls), 'canary ' + name, pool=pool)
        except common.HarnessError as e:
            run.canary(name, False, str(e))
            continue
        codes = sorted({v['code'] for o in outs if o for v in o.get('viol', [])})
        run.canary(name, bool(codes), {'codes': codes, 'paths': agg['paths']})
    # restore the module for anything that follows
    for k, v in F._pvf_orig.items():
        setattr(F, k, v)
    run.bounds.update({'configurations': [c['label'] for c in configs],
                       'loop fuel': 'rows + measurement samples + 2 iterations',
                       'time domain': 'stamps in [0,1000], sensor stamps in [-1000,2000], time_step in (0,2000]'})
    run.cov.update({'states': total_paths, 'transitions': max(1, total_dec),
                    'traces_validated_against_impl': n_valid,
                    'evaluations': total_paths, 'distinct_nontrivial': len(distinct),
                    'rule': 'one evaluation = one feasible path (equivalence class of schedules with the same branch '
                            'decisions) of the real loop; distinct = distinct (configuration, observable trace: batches, '
                            'processed samples, result rows); every path is non-trivial in that its path condition is satisfiable',
                    'configurations': cfg_stats, 'exhaustive': False,
                    'candidates': {('%s|%s' % k): len(v) for k, v in cand.items()}})
