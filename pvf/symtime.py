"""Engine B ("symsched") value domain: symbolic time stamps / sizes, symbolic booleans that fork
through the path executor, comparison-based stand-ins for time-indexed arrays, and opaque
payload tokens that record the dataflow of numeric content.
"""
import fractions
import z3
from . import paths


def _ex():
    return paths.CUR


# every division whose denominator is a symbolic time quantity is reported to this sink (the
# harness's event log): "the denominator cannot be zero on this path" is an obligation of the
# filter checks (0/0 and x/0 are the schedule-level sources of NaN / inf)
DIV_SINK = [None]


def _on_div(den):
    s = DIV_SINK[0]
    if s is not None and isinstance(den, T) and not den.inf and not isinstance(den.v, (int, float)):
        s.append(('div', den))


# ------------------------------------------------------------------------------------------
# symbolic booleans
# ------------------------------------------------------------------------------------------
class B:
    """symbolic boolean; `bool()` asks the path executor"""
    __slots__ = ('c',)

    def __init__(self, c):
        self.c = c

    def __bool__(self):
        return _ex().decide(self.c)

    def __and__(self, o):
        return B(z3.And(self.c, _bz(o)))
    __rand__ = __and__

    def __or__(self, o):
        return B(z3.Or(self.c, _bz(o)))
    __ror__ = __or__

    def __invert__(self):
        return B(z3.Not(self.c))

    def __repr__(self):
        return 'B(%s)' % self.c


def _bz(o):
    if isinstance(o, B):
        return o.c
    return z3.BoolVal(bool(o))


# ------------------------------------------------------------------------------------------
# symbolic real scalars (time stamps, time steps, durations)
# ------------------------------------------------------------------------------------------
class T:
    """Symbolic real scalar. `inf` marks the +infinity sentinel the filters append."""
    __slots__ = ('v', 'inf')
    shape = ()
    ndim = 0

    def __init__(self, v, inf=False):
        self.v = v
        self.inf = inf

    # comparisons ----------------------------------------------------------------------
    def _cmp(self, o, op):
        o = asT(o)
        if o is NotImplemented:
            return NotImplemented
        if self.inf or o.inf:
            a = 1 if self.inf else 0
            b = 1 if o.inf else 0
            return {'lt': a < b, 'le': a <= b, 'gt': a > b, 'ge': a >= b, 'eq': a == b,
                    'ne': a != b}[op]
        a, b = self.v, o.v
        c = {'lt': a < b, 'le': a <= b, 'gt': a > b, 'ge': a >= b, 'eq': a == b,
             'ne': a != b}[op]
        return B(c)

    def __lt__(self, o): return self._cmp(o, 'lt')
    def __le__(self, o): return self._cmp(o, 'le')
    def __gt__(self, o): return self._cmp(o, 'gt')
    def __ge__(self, o): return self._cmp(o, 'ge')
    def __eq__(self, o): return self._cmp(o, 'eq')
    def __ne__(self, o): return self._cmp(o, 'ne')
    __hash__ = object.__hash__

    # arithmetic -----------------------------------------------------------------------
    def _arith(self, o, op, swap=False):
        if isinstance(o, Tok):
            return NotImplemented
        o = asT(o)
        if o is NotImplemented:
            return NotImplemented
        a, b = (o, self) if swap else (self, o)
        if a.inf or b.inf:
            if op in ('add', 'sub') and not (a.inf and b.inf):
                return T(None, inf=True) if (a.inf or op == 'add') else NotImplemented
            raise ArithmeticError('arithmetic on the infinite sentinel')
        if op == 'add':
            r = a.v + b.v
        elif op == 'sub':
            r = a.v - b.v
        elif op == 'mul':
            r = a.v * b.v
        elif op == 'div':
            # division by a symbolic quantity: the path must know it is non-zero, otherwise
            # the real code would produce inf/nan or raise -> recorded as an event
            _on_div(b)
            r = a.v / b.v
        ex = _ex()
        if ex is not None and getattr(ex, 'havoc_add', False) and op == 'add':
            # binary64 addition abstracted to ANY value not below either (non-negative) operand:
            # fl(a + b) >= max(a, b) for a, b >= 0 is all that is assumed of the rounded sum
            h = ex.fresh('fladd')
            ex.add(z3.And(h >= a.v, h >= b.v))
            return T(h)
        r = T(z3.simplify(r))
        if ex is not None and getattr(ex, 'rounded', False) and op in ('add', 'sub'):
            eta = ex.fresh('eta')
            ex.add(z3.And(eta <= ex.round_bound, eta >= -ex.round_bound))
            # exact when one operand is zero
            r = T(r.v + eta)
        return r

    def __add__(self, o): return self._arith(o, 'add')
    def __radd__(self, o): return self._arith(o, 'add', True)
    def __sub__(self, o): return self._arith(o, 'sub')
    def __rsub__(self, o): return self._arith(o, 'sub', True)
    def __mul__(self, o): return self._arith(o, 'mul')
    def __rmul__(self, o): return self._arith(o, 'mul', True)
    def __truediv__(self, o): return self._arith(o, 'div')
    def __rtruediv__(self, o): return self._arith(o, 'div', True)
    def __neg__(self): return T(-self.v)
    def __pos__(self): return self
    def __float__(self):
        raise TypeError('symbolic time has no concrete float value')

    def __repr__(self):
        return 'inf' if self.inf else 'T(%s)' % self.v

    def key(self):
        if self.inf:
            return 'inf'
        i = self.v.get_id()
        _KEEP[i] = self.v          # keep the AST alive so that its id stays unique
        return mk('T', i)


_KEEP = {}
INF = T(None, inf=True)


def asT(x):
    if isinstance(x, T):
        return x
    if isinstance(x, bool):
        return NotImplemented
    if isinstance(x, int):
        return T(z3.RealVal(x))
    if isinstance(x, float):
        if x == float('inf'):
            return INF
        if x != x or x == float('-inf'):
            return NotImplemented
        fr = fractions.Fraction(x)
        return T(z3.Q(fr.numerator, fr.denominator))
    if isinstance(x, fractions.Fraction):
        return T(z3.Q(x.numerator, x.denominator))
    try:
        import numpy as _np
        if isinstance(x, _np.integer):
            return T(z3.RealVal(int(x)))
        if isinstance(x, _np.floating):
            return asT(float(x))
    except ImportError:
        pass
    return NotImplemented


# ------------------------------------------------------------------------------------------
# arrays of symbolic times / booleans
# ------------------------------------------------------------------------------------------
class BArr:
    def __init__(self, items):
        self.items = list(items)

    def __and__(self, o):
        return BArr([a & b if isinstance(a, B) or isinstance(b, B) else (a and b)
                     for a, b in zip(self.items, o.items)])

    def __or__(self, o):
        return BArr([a | b if isinstance(a, B) or isinstance(b, B) else (a or b)
                     for a, b in zip(self.items, o.items)])

    def __invert__(self):
        return BArr([~a if isinstance(a, B) else (not a) for a in self.items])

    def any(self):
        for a in self.items:
            if bool(a):
                return True
        return False

    def all(self):
        for a in self.items:
            if not bool(a):
                return False
        return True

    def __len__(self):
        return len(self.items)

    def __iter__(self):
        return iter(self.items)


class TArr:
    """1-D array (or pandas Index) of symbolic times, implemented by comparison"""
    ndim = 1

    def __init__(self, items, name=None):
        self.items = [x if isinstance(x, T) else asT(x) for x in items]
        self.name = name

    def __len__(self):
        return len(self.items)

    @property
    def shape(self):
        return (len(self.items),)

    @property
    def size(self):
        return len(self.items)

    @property
    def values(self):
        return self

    def __iter__(self):
        return iter(self.items)

    def __getitem__(self, k):
        if isinstance(k, BArr):
            if len(k) != len(self.items):
                raise IndexError('boolean index did not match indexed array')
            return TArr([x for x, b in zip(self.items, k.items) if bool(b)])
        if isinstance(k, slice):
            return TArr(self.items[k])
        if isinstance(k, (list, tuple)):
            return TArr([self.items[i] for i in k])
        k = _index(k)
        return self.items[k]

    def _cmp(self, o, name):
        if isinstance(o, TArr):
            if len(o) != len(self):
                raise ValueError('Lengths must match to compare')
            return BArr([getattr(a, name)(b) for a, b in zip(self.items, o.items)])
        return BArr([getattr(a, name)(o) for a in self.items])

    def __ge__(self, o): return self._cmp(o, '__ge__')
    def __le__(self, o): return self._cmp(o, '__le__')
    def __gt__(self, o): return self._cmp(o, '__gt__')
    def __lt__(self, o): return self._cmp(o, '__lt__')
    def __ne__(self, o): return self._cmp(o, '__ne__')
    def __eq__(self, o): return self._cmp(o, '__eq__')
    __hash__ = object.__hash__

    def __contains__(self, t):
        for x in self.items:
            if bool(x == t):
                return True
        return False

    def copy(self):
        return TArr(self.items, self.name)

    def __repr__(self):
        return 'TArr(%s)' % self.items


def _index(k):
    if isinstance(k, bool) or not hasattr(k, '__index__'):
        raise IndexError('only integers, slices and boolean arrays are valid indices (%r)' % (k,))
    return k.__index__()


# ------------------------------------------------------------------------------------------
# opaque payload tokens
# ------------------------------------------------------------------------------------------
class Tok:
    """Uninterpreted numeric payload. Records which operation produced it from which
    operands; `key()` is a structural, hashable term. `n` is its concrete length where the
    code asks for it."""

    def __init__(self, op, *args, n=None):
        self.op = op
        self.args = args
        self.n = n

    def key(self):
        k = self.__dict__.get('_k')
        if k is None or self.__dict__.get('_kv') != (self.op, id(self.args)):
            k = mk(self.op, *[_key(a) for a in self.args])
            self._k = k
            self._kv = (self.op, id(self.args))
        return k

    # numeric-looking protocol ----------------------------------------------------------
    def _bin(self, name, o, swap=False):
        if name == 'div' and not swap:
            _on_div(o)
        return Tok(name, *((o, self) if swap else (self, o)), n=self.n)

    def __add__(self, o): return self._bin('add', o)
    def __radd__(self, o): return self._bin('add', o, True)
    def __sub__(self, o): return self._bin('sub', o)
    def __rsub__(self, o): return self._bin('sub', o, True)
    def __mul__(self, o): return self._bin('mul', o)
    def __rmul__(self, o): return self._bin('mul', o, True)
    def __truediv__(self, o): return self._bin('div', o)
    def __rtruediv__(self, o): return self._bin('div', o, True)
    def __matmul__(self, o): return Tok('mm', self, o, n=self.n)
    def __rmatmul__(self, o): return Tok('mm', o, self, n=getattr(o, 'n', None))
    def __neg__(self): return Tok('neg', self, n=self.n)
    def __pow__(self, p): return Tok('pow', self, p, n=self.n)
    def dot(self, o): return Tok('mm', self, o, n=self.n)
    def transpose(self, *a): return Tok('T', self, n=self.n)
    T = property(lambda self: Tok('T', self, n=self.n))
    values = property(lambda self: self)
    def copy(self): return self
    def sum(self, axis=None): return Tok('sum', self, axis)
    def to_numpy(self): return self

    def __len__(self):
        if self.n is None:
            raise TypeError('len() of payload token %s is not modelled' % self.op)
        return self.n

    def __getitem__(self, k):
        return Tok('get', self, _slicekey(k), n=_sublen(self.n, k))

    def __setitem__(self, k, v):
        # functional update, in place for the holder
        old = Tok(self.op, *self.args, n=self.n)
        self.op = 'set'
        self.args = (old, _slicekey(k), v)

    def __repr__(self):
        return 'Tok(%s)' % (self.op,)

    def __bool__(self):
        raise TypeError('truth value of payload token %s' % self.op)

    # a comparison of a payload VALUE with a number (`increment['dt'] == 0`) is a test on the data:
    # one symbolic boolean per distinct (operand, number), both outcomes explored by the path
    # executor. Comparisons with anything else keep identity semantics.
    def _data_test(self, what, o):
        ex = paths.CUR
        if ex is None or not getattr(ex, 'active', False):
            raise TypeError('comparison of payload token %s with a number outside a path executor' % self.op)
        k = mk(what, self.key(), repr(o))
        return ex.decide(z3.Bool('data_%s_%d' % (what, abs(hash(repr(k))) % (10 ** 12))))

    def __eq__(self, o):
        if isinstance(o, (int, float)) and not isinstance(o, bool):
            return self._data_test('eq', float(o))
        return self is o

    def __ne__(self, o):
        if isinstance(o, (int, float)) and not isinstance(o, bool):
            return not self._data_test('eq', float(o))
        return self is not o
    __hash__ = object.__hash__


def _sublen(n, k):
    if n is None:
        return None
    if isinstance(k, slice):
        try:
            return len(range(*k.indices(n)))
        except TypeError:
            return None
    if isinstance(k, tuple) and k and isinstance(k[0], slice):
        return _sublen(n, k[0])
    return None


def _slicekey(k):
    if isinstance(k, slice):
        return ('slice', k.start, k.stop, k.step)
    if isinstance(k, tuple):
        return tuple(_slicekey(x) for x in k)
    if isinstance(k, list):
        return tuple(k)
    return k


class K:
    """hash-consed structural key (a term): children are atoms or other K's; equal terms are
    the same object, so comparison and hashing are O(1) and sharing keeps terms linear-size"""
    __slots__ = ('t', 'id')
    _table = {}

    def __getitem__(self, i):
        return self.t[i]

    def __len__(self):
        return len(self.t)

    def __iter__(self):
        return iter(self.t)

    def __repr__(self):
        return 'K%d%r' % (self.id, tuple(x if not isinstance(x, K) else 'K%d' % x.id for x in self.t))

    def expand(self, depth=6):
        if depth == 0:
            return '...'
        return tuple(x.expand(depth - 1) if isinstance(x, K) else x for x in self.t)


def mk(*items):
    sig = tuple(('K', x.id) if isinstance(x, K) else ('a', x) for x in items)
    k = K._table.get(sig)
    if k is None:
        k = K()
        k.t = tuple(items)
        k.id = len(K._table)
        K._table[sig] = k
    return k


def _key(a):
    if isinstance(a, K):
        return a
    if isinstance(a, (int, float, str, bool, type(None), fractions.Fraction)):
        return a
    if isinstance(a, T):
        return a.key()
    if isinstance(a, Tok):
        return a.key()
    if hasattr(a, 'key') and callable(a.key):
        return a.key()
    if isinstance(a, (list, tuple)):
        return mk('tuple', *[_key(x) for x in a])
    if isinstance(a, slice):
        return _key(_slicekey(a))
    if isinstance(a, dict):
        return mk('dict', *[mk(k, _key(v)) for k, v in sorted(a.items())])
    return repr(a)


# ------------------------------------------------------------------------------------------
# numpy stand-in for the scheduling code
# ------------------------------------------------------------------------------------------
class NPShim:
    """The numpy operations the filters' scheduling code applies to time stamps, implemented
    by comparison (forking); payload operations yield tokens."""
    inf = float('inf')
    nan = float('nan')

    def __init__(self, log=None):
        self.log = log

    def hstack(self, arrs):
        arrs = list(arrs)
        if not arrs:
            raise ValueError("need at least one array to concatenate")
        if all(isinstance(a, (TArr, list, tuple)) or _is_empty_concrete(a) for a in arrs):
            out = []
            for a in arrs:
                out += list(a)
            return TArr(out)
        return Tok('hstack', *arrs)
    concatenate = hstack

    def asarray(self, a, dtype=None):
        if isinstance(a, (TArr, Tok)):
            return a
        if isinstance(a, (list, tuple)):
            if all(isinstance(x, T) or asT(x) is not NotImplemented for x in a):
                return TArr(a)
            return Tok('asarray', list(a), n=len(a))
        return a
    array = asarray

    def empty(self, shape, dtype=None):
        if shape in (0, (0,)):
            return TArr([])
        return Tok('empty', shape, n=shape if isinstance(shape, int) else shape[0])

    def unique(self, a):
        items = self._sort(list(a))
        out = []
        for x in items:
            if out and bool(out[-1] == x):
                continue
            out.append(x)
        return TArr(out)

    def _sort(self, items):
        out = []
        for x in items:          # insertion sort, forking on comparisons
            i = len(out)
            while i > 0 and bool(x < out[i - 1]):
                i -= 1
            out.insert(i, x)
        return out

    def sort(self, a):
        return TArr(self._sort(list(a)))

    def append(self, a, v):
        return TArr(list(a) + [asT(v)])

    def searchsorted(self, a, v, side='left'):
        a = list(a)
        if isinstance(v, T):
            i = 0
            if side == 'right':
                while i < len(a) and bool(a[i] <= v):
                    i += 1
            elif side == 'left':
                while i < len(a) and bool(a[i] < v):
                    i += 1
            else:
                raise ValueError("side must be 'left' or 'right'")
            return i
        raise TypeError('searchsorted on %r' % (v,))

    def zeros(self, shape, dtype=None):
        n = shape if isinstance(shape, int) else shape[0]
        return Tok('zeros', shape, n=n)

    def eye(self, n):
        return Tok('eye', n, n=n)
    identity = eye

    def nextafter(self, a, b):
        return After(a, b)

    def diff(self, a):
        a = list(a)
        return TArr([a[i + 1] - a[i] for i in range(len(a) - 1)])

    def isfinite(self, a):
        return True

    def minimum(self, a, b):
        return b if bool(b < a) else a

    def maximum(self, a, b):
        return b if bool(b > a) else a

    def __getattr__(self, name):
        raise AttributeError('numpy.%s is not modelled by the scheduling stand-in' % name)


def _is_empty_concrete(a):
    try:
        return len(a) == 0
    except TypeError:
        return False


class After:
    """np.nextafter(a, b): the float adjacent to a in the direction of b (used as an open
    interval bound)."""

    def __init__(self, a, b):
        self.a = a
        self.b = b

    def key(self):
        return mk('nextafter', _key(self.a), _key(self.b))
