"""Exact multivariate polynomials over Q (dict monomial -> Fraction) and elimination of the
auxiliary reciprocal / square-root variables of engine A from an obligation `E = 0`:
multiplying by the (non-zero) denominators and reducing r*d -> 1, y*y -> c turns a rational
identity that nlsat cannot decide into a polynomial identity in the base variables only.
The transformation is an equivalence under the defining constraints (r*d = 1 implies d != 0).
"""
import fractions

import z3

Fr = fractions.Fraction


class TooBig(Exception):
    pass


LIMIT = 60000
DEFAULT_LIMIT = LIMIT


class Poly:
    __slots__ = ('t',)

    def __init__(self, t=None):
        self.t = t or {}

    @staticmethod
    def const(c):
        c = Fr(c)
        return Poly({(): c} if c else {})

    @staticmethod
    def var(name):
        return Poly({((name, 1),): Fr(1)})

    def is_zero(self):
        return not self.t

    def __add__(self, o):
        r = dict(self.t)
        for m, c in o.t.items():
            v = r.get(m, 0) + c
            if v:
                r[m] = v
            else:
                r.pop(m, None)
        return Poly(r)

    def __neg__(self):
        return Poly({m: -c for m, c in self.t.items()})

    def __sub__(self, o):
        return self + (-o)

    def __mul__(self, o):
        if len(self.t) * len(o.t) > LIMIT * 20:
            raise TooBig()
        r = {}
        for m1, c1 in self.t.items():
            d1 = dict(m1)
            for m2, c2 in o.t.items():
                if not m2:
                    m = m1
                elif not m1:
                    m = m2
                else:
                    d = dict(d1)
                    for v, e in m2:
                        d[v] = d.get(v, 0) + e
                    m = tuple(sorted(d.items()))
                v = r.get(m, 0) + c1 * c2
                if v:
                    r[m] = v
                else:
                    r.pop(m, None)
            if len(r) > LIMIT:
                raise TooBig()
        return Poly(r)

    def __pow__(self, k):
        r = Poly.const(1)
        for _ in range(k):
            r = r * self
        return r

    def vars(self):
        s = set()
        for m in self.t:
            for v, _e in m:
                s.add(v)
        return s

    def maxdeg(self, v):
        d = 0
        for m in self.t:
            for w, e in m:
                if w == v and e > d:
                    d = e
        return d

    def to_z3(self):
        tot = z3.RealVal(0)
        for m, c in self.t.items():
            term = z3.Q(c.numerator, c.denominator)
            for v, e in m:
                for _ in range(e):
                    term = term * z3.Real(v)
            tot = tot + term
        return tot


def from_z3(t, memo=None):
    memo = {} if memo is None else memo
    i = t.get_id()
    if i in memo:
        return memo[i]
    if z3.is_rational_value(t):
        r = Poly.const(Fr(t.numerator_as_long(), t.denominator_as_long()))
    elif z3.is_const(t) and t.decl().kind() == z3.Z3_OP_UNINTERPRETED:
        r = Poly.var(str(t))
    else:
        k = t.decl().kind()
        ch = t.children()
        if k == z3.Z3_OP_ADD:
            r = Poly()
            for c in ch:
                r = r + from_z3(c, memo)
        elif k == z3.Z3_OP_MUL:
            r = Poly.const(1)
            for c in ch:
                r = r * from_z3(c, memo)
        elif k == z3.Z3_OP_SUB:
            r = from_z3(ch[0], memo)
            for c in ch[1:]:
                r = r - from_z3(c, memo)
        elif k == z3.Z3_OP_UMINUS:
            r = -from_z3(ch[0], memo)
        elif k == z3.Z3_OP_POWER and z3.is_rational_value(ch[1]) and ch[1].denominator_as_long() == 1 and ch[1].numerator_as_long() >= 0:
            r = from_z3(ch[0], memo) ** ch[1].numerator_as_long()
        elif k == z3.Z3_OP_TO_REAL:
            r = from_z3(ch[0], memo)
        else:
            raise NotImplementedError('poly: %s' % t.decl().name())
    memo[i] = r
    return r


def _subst_power(p, v, fn):
    """replace v^e in every monomial by fn(e) (a Poly); returns new Poly"""
    out = Poly()
    groups = {}
    for m, c in p.t.items():
        e = 0
        rest = []
        for w, k in m:
            if w == v:
                e = k
            else:
                rest.append((w, k))
        groups.setdefault(e, {})[tuple(rest)] = c
    for e, t in groups.items():
        q = Poly(t)
        out = out + (q * fn(e) if e else q)
    return out


def _elim_inv(p, v, den):
    E = p.maxdeg(v)
    out = Poly()
    groups = {}
    for m, c in p.t.items():
        e = 0
        rest = []
        for w, k in m:
            if w == v:
                e = k
            else:
                rest.append((w, k))
        groups.setdefault(e, {})[tuple(rest)] = c
    pw = {0: Poly.const(1)}
    for k in range(1, E + 1):
        pw[k] = pw[k - 1] * den
    for e, t in groups.items():
        out = out + Poly(t) * pw[E - e]
    return out


_ROOT_CACHE = {}


def _reduce_trig(p, ctx):
    """normal form modulo s^2 + c^2 = 1 for every pair"""
    for (a_, b_, _arg) in ctx.trig.values():
        v = str(a_)
        if p.maxdeg(v) >= 2:
            q = Poly.const(1) - Poly.var(str(b_)) * Poly.var(str(b_))
            p = _subst_power(p, v, lambda e, q=q, v=v: (q ** (e // 2)) * (Poly.var(v) if e % 2 else Poly.const(1)))
    return p


def _sqrt_as_variable(arg, ctx, memo):
    key = (id(ctx), arg.get_id())
    if key in _ROOT_CACHE:
        return _ROOT_CACHE[key]
    res = None
    try:
        a = _reduce_trig(from_z3(arg, memo), ctx)
        if len(a.t) == 1:
            (mono, coef), = a.t.items()
            if coef == 1 and len(mono) == 1 and mono[0][1] == 2:
                q = mono[0][0]
                s = z3.Solver()
                s.set('timeout', 2000)
                s.add([c for c in ctx.cons if q in {str(x) for x in _consts(c)}])
                s.add(z3.Real(q) < 0)
                if s.check() == z3.unsat:
                    res = q
    except (NotImplementedError, TooBig):
        res = None
    _ROOT_CACHE[key] = res
    return res


def _consts(t, acc=None):
    acc = [] if acc is None else acc
    stack = [t]
    seen = set()
    while stack:
        u = stack.pop()
        if u.get_id() in seen:
            continue
        seen.add(u.get_id())
        if z3.is_const(u) and u.decl().kind() == z3.Z3_OP_UNINTERPRETED:
            acc.append(u)
        else:
            stack += u.children()
    return acc


def eliminate(expr, ctx):
    """Returns a Poly P in base variables (and possibly odd powers of sqrt variables) such that,
    under the defining constraints, expr = 0 <=> P = 0."""
    memo = {}
    p = from_z3(z3.simplify(expr), memo)
    for _round in range(500):
        aux = [v for v in p.vars() if '!' in v]
        if not aux:
            return p
        aux.sort(key=lambda n: -int(n.split('!')[1]))
        progressed = False
        for v in aux:
            d = ctx.defs.get(v)
            if d is None:
                raise NotImplementedError('free auxiliary variable %s' % v)
            if d[0] == 'inv':
                p = _elim_inv(p, v, from_z3(d[1], memo))
                progressed = True
                break
            if d[0] == 'sqrt':
                root = _sqrt_as_variable(d[1], ctx, memo)
                if root is not None:
                    # sqrt(q^2) = q for a variable q known to be non-negative (e.g. cos(lat))
                    p = _subst_power(p, v, lambda e, q=root: Poly.var(q) ** e)
                    progressed = True
                    break
                if p.maxdeg(v) >= 2:
                    c0 = from_z3(d[1], memo)
                    p = _subst_power(p, v, lambda e, c0=c0, v=v: (c0 ** (e // 2)) * (Poly.var(v) if e % 2 else Poly.const(1)))
                    progressed = True
                    break
                continue
            if d[0] == 'sin':
                # reduce modulo s^2 + c^2 = 1 (the relations of independent pairs are a Groebner
                # basis, so the normal form decides identities modulo them)
                if p.maxdeg(v) >= 2:
                    cos_name = None
                    for (a_, b_, _arg) in ctx.trig.values():
                        if str(a_) == v:
                            cos_name = str(b_)
                            break
                    if cos_name is None:
                        raise NotImplementedError('sin without a partner')
                    one_minus_c2 = Poly.const(1) - Poly.var(cos_name) * Poly.var(cos_name)
                    p = _subst_power(p, v, lambda e, q=one_minus_c2, v=v: (q ** (e // 2)) * (Poly.var(v) if e % 2 else Poly.const(1)))
                    progressed = True
                    break
                continue
            if d[0] == 'cos':
                continue
            if d[0] == 'value' and len(d) > 2:
                c0 = from_z3(d[2], memo)
                p = _subst_power(p, v, lambda e, c0=c0: c0 ** e)
                progressed = True
                break
            raise NotImplementedError('auxiliary kind %s' % d[0])
        if not progressed:
            return p
    raise TooBig()


# ---------------------------------------------------------------------------------------------
def poly_sqrt(P, cap=400):
    """Q with Q*Q == P for a polynomial that is a perfect square in Q[vars], else None
    (long-hand square root under the lexicographic order of the sorted variable names)."""
    if P.is_zero():
        return Poly()
    names = sorted(P.vars())
    key = lambda m: tuple(dict(m).get(v, 0) for v in names)
    import math

    def lead(p):
        m = max(p.t, key=key)
        return m, p.t[m]
    m0, c0 = lead(P)
    if any(e % 2 for _v, e in m0) or c0 <= 0:
        return None
    rn, rd = math.isqrt(c0.numerator), math.isqrt(c0.denominator)
    if rn * rn != c0.numerator or rd * rd != c0.denominator:
        return None
    q0m = tuple((v, e // 2) for v, e in m0)
    q0c = Fr(rn, rd)
    Q = Poly({q0m: q0c})
    R = P - Q * Q
    d0 = dict(q0m)
    for _ in range(cap):
        if R.is_zero():
            return Q
        m, c = lead(R)
        d = dict(m)
        out = {}
        for v, e in d.items():
            e2 = e - d0.get(v, 0)
            if e2 < 0:
                return None
            if e2:
                out[v] = e2
        if any(v not in d for v in d0 if d0[v] > 0 and d.get(v, 0) < d0[v]):
            return None
        t = Poly({tuple(sorted(out.items())): c / (2 * q0c)})
        Q = Q + t
        R = P - Q * Q
    return None


def _exact_div(p, d):
    """p / d when d divides p exactly (lexicographic long division), else None"""
    if d.is_zero():
        return None
    names = sorted(p.vars() | d.vars())
    key = lambda m: tuple(dict(m).get(v, 0) for v in names)
    dm = max(d.t, key=key)
    dc = d.t[dm]
    dd = dict(dm)
    q = Poly()
    r = p
    for _ in range(2000):
        if r.is_zero():
            return q
        m = max(r.t, key=key)
        c = r.t[m]
        md = dict(m)
        out = {}
        for v in set(md) | set(dd):
            e = md.get(v, 0) - dd.get(v, 0)
            if e < 0:
                return None
            if e:
                out[v] = e
        t = Poly({tuple(sorted(out.items())): c / dc})
        q = q + t
        r = r - t * d
    return None


def _mul_clear(p, v, den, k):
    out = Poly()
    groups = {}
    for m, c in p.t.items():
        e = 0
        rest = []
        for w, kk in m:
            if w == v:
                e = kk
            else:
                rest.append((w, kk))
        groups.setdefault(e, {})[tuple(rest)] = c
    for e, t in groups.items():
        out = out + Poly(t) * (den ** (k - e))
    return out


def exact_sqrt(arg, ctx, extra=()):
    """a z3 term equal to sqrt(arg) built from existing symbols only, when arg is - modulo the
    sin/cos relations and after clearing (even powers of) reciprocal variables - a perfect square
    with a sign the constraints decide; else None. Sound: the returned term t satisfies t*t = arg
    under the defining constraints and t >= 0 is proved."""
    memo = {}
    try:
        p = _reduce_trig(from_z3(z3.simplify(arg), memo), ctx)
        mult = []           # (reciprocal variable, power of its denominator multiplied in)
        for v in sorted(x for x in p.vars() if '!' in x):
            d = ctx.defs.get(v)
            if d is None:
                return None
            if d[0] == 'inv':
                k = p.maxdeg(v)
                k += k % 2
                den = _reduce_trig(from_z3(d[1], memo), ctx)
                if any('!' in x and ctx.defs.get(x, ('?',))[0] == 'inv' for x in den.vars()):
                    return None
                # P * den^k, with v^j den^j -> 1 (the e = 0 group is multiplied as well)
                p = _subst_power(p * Poly.var('__k__'), v, lambda e: Poly.const(1)) if False else _mul_clear(p, v, den, k)
                p = _reduce_trig(p, ctx)
                mult.append((v, k // 2))
        q = poly_sqrt(p)
        if q is None:
            # the same polynomial written in sines instead of cosines (c^2 -> 1 - s^2)
            p2 = p
            for (a_, b_, _arg) in ctx.trig.values():
                v = str(b_)
                if p2.maxdeg(v) >= 2:
                    qq_ = Poly.const(1) - Poly.var(str(a_)) * Poly.var(str(a_))
                    p2 = _subst_power(p2, v, lambda e, qq_=qq_, v=v: (qq_ ** (e // 2)) * (Poly.var(v) if e % 2 else Poly.const(1)))
            q = poly_sqrt(p2)
        if q is None:
            return None
        for v, half in list(mult):
            # sqrt = q * v^half with v = 1/den: cancel den out of q where it divides exactly
            den = _reduce_trig(from_z3(ctx.defs[v][1], memo), ctx)
            while half:
                qq = _exact_div(q, den)
                if qq is None:
                    break
                q = qq
                half -= 1
            mult[mult.index((v, [h_ for vv, h_ in mult if vv == v][0]))] = (v, half)
        t = q.to_z3()
        for v, half in mult:
            for _ in range(half):
                t = t * z3.Real(v)
        t = z3.simplify(t)
        for cand in (t, -t):
            s = z3.Solver()
            s.set('timeout', 3000)
            s.add(ctx.dom)
            s.add(ctx.cons)
            s.add(list(extra))
            s.add(cand < 0)
            if s.check() == z3.unsat:
                return z3.simplify(cand)
        return None
    except (NotImplementedError, TooBig, KeyError, RecursionError):
        return None
