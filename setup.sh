#!/bin/bash
# Build the checker's interpreter: an overlay venv of /venv (which has pyins' own
# dependencies) plus z3-solver / cvc5 from the offline wheelhouse.  Idempotent, offline.
set -e
cd "$(dirname "$0")"
V=.venv
if [ ! -x $V/bin/python ] || ! $V/bin/python -c 'import z3, numpy, pandas, scipy' 2>/dev/null; then
    rm -rf $V
    /venv/bin/python -m venv $V
    SP=$($V/bin/python -c 'import sysconfig; print(sysconfig.get_paths()["purelib"])')
    echo "import site; site.addsitedir('/venv/lib/python3.12/site-packages')" > $SP/_overlay.pth
    PIP_NO_INDEX=1 $V/bin/pip install -q --no-index --find-links /opt/veriftools/wheels z3-solver >/dev/null
    PIP_NO_INDEX=1 $V/bin/pip install -q --no-index --find-links /opt/veriftools/wheels cvc5 >/dev/null 2>&1 || true
fi
$V/bin/python -c 'import z3, numpy, pandas, scipy, numba; print("verif venv ok: z3", z3.get_version_string())'
