#!/usr/bin/env python3
"""Parallel variant of run_seeds.py: every seeded change is checked against its own scratch copy of /repo's committed HEAD
(tools/with_patch.sh, PYINS_REPO), so /repo is never touched and several changes run at once.
usage: run_seeds_par.py [--jobs N] [names or property ids ...]; merges into seeded/RESULTS.json."""
import json, os, subprocess, sys
from concurrent.futures import ThreadPoolExecutor
HERE = os.path.dirname(os.path.dirname(os.path.abspath(__file__)))
SEEDED = os.path.join(HERE, 'seeded')
args = sys.argv[1:]
jobs = 3
if '--jobs' in args:
    i = args.index('--jobs'); jobs = int(args[i + 1]); del args[i:i + 2]
todo = []
for name in sorted(os.listdir(SEEDED)):
    d = os.path.join(SEEDED, name)
    if not os.path.isdir(d) or (args and name not in args and name.split('-')[0] not in args):
        continue
    meta = json.load(open(os.path.join(d, 'meta.json'))) if os.path.exists(os.path.join(d, 'meta.json')) else {}
    todo.append((name, meta.get('checks', [name.split('-')[0]]), meta.get('tier', 'quick')))


def one(item):
    name, checks, tier = item
    res = {'property': name.split('-')[0], 'by_check': {}, 'detected': False}
    for chk in checks:
        p = subprocess.run([os.path.join(HERE, 'tools', 'with_patch.sh'), os.path.join(SEEDED, name, 'patch.diff'), chk, tier], capture_output=True, text=True)
        viol = [l for l in p.stdout.splitlines() if l.startswith('VIOLATION')]
        what = [l.strip()[:300] for l in p.stdout.splitlines() if l.startswith('  what:')]
        det = p.returncode == 1 and bool(viol)
        res['by_check'][chk] = {'exit': p.returncode, 'detected': det, 'first_violation': (what or [''])[0]}
        res['detected'] = res['detected'] or det
    res['exit'] = 1 if any(v['exit'] == 1 for v in res['by_check'].values()) else max(v['exit'] for v in res['by_check'].values())
    print(name, res['exit'], res['detected'], flush=True)
    return name, res


with ThreadPoolExecutor(jobs) as tp:
    out = dict(tp.map(one, todo))
rp = os.path.join(SEEDED, 'RESULTS.json')
old = json.load(open(rp)) if os.path.exists(rp) else {}
old.update(out)
json.dump(old, open(rp, 'w'), indent=1)
bad = [n for n, r in out.items() if not r['detected']]
print('not detected:', bad)
sys.exit(1 if bad else 0)
