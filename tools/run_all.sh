#!/bin/bash
# runs every registered quick (or $1=thorough) command in turn, prints the summary lines and exit codes
cd "$(dirname "$0")/.."
TIER=${1:-quick}
python3 - "$TIER" <<'PY'
import json, subprocess, sys, time
tier = sys.argv[1]
m = json.load(open('MANIFEST.json'))
bad = 0
for c in m['checks']:
    cmd = c['quick_cmd'] if tier == 'quick' else c.get('thorough_cmd', c['quick_cmd'])
    t = time.time()
    p = subprocess.run(cmd, shell=True, capture_output=True, text=True)
    last = [l for l in p.stdout.splitlines() if l.startswith(c['property_id'] + ' ')][-1:] or ['(no summary line)']
    print('%s exit=%d %.0fs  %s' % (c['property_id'], p.returncode, time.time() - t, last[0]), flush=True)
    for l in p.stdout.splitlines():
        if l.startswith(('VIOLATION', 'HARNESS-ERROR', 'INCONCLUSIVE', 'KNOWN-FINDING')):
            print('    ' + l[:220])
    bad += p.returncode != 0
sys.exit(1 if bad else 0)
PY
