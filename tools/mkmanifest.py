#!/usr/bin/env python3
"""Regenerates /verif/MANIFEST.json from the table below (kept in one place so that the
not_applicable list stays current)."""
import json
import os

HERE = os.path.dirname(os.path.dirname(os.path.abspath(__file__)))
B_NOTE = ("Trusted: z3 5.1.0; exact-real time arithmetic; collaborators replaced by contract stand-ins and recording tokens "
          "(their own behaviour is decided by C02, C06, C07, C08, C14); bounds on rows/epochs as listed in the evidence file; "
          "witness schedules are replayed on the unpatched compiled code.")
B_TECH = "symbolic execution of the real control code over symbolic time stamps/sizes (z3 path feasibility + per-path obligations), replay of solver models"
A_NOTE = ("Trusted: z3 5.1.0 (nlsat) over exact reals - floating-point rounding is outside; scipy/numpy library calls replaced by explicit "
          "stubs of their documented contracts (listed in the evidence file, each differentially tested against the real library on every run); "
          "sin/cos/sqrt relaxed to algebraic constraints (sound for unsat); bounds (series order, dimensions, domain box) in the evidence file.")
A_TECH = "symbolic execution of the real numeric source on z3-Real-backed truncated power series; negated identities discharged as QF_NRA queries; sat models replayed on the compiled code"

CHECKS = {
 'C02': ('model_checking', "Inductive step of every Integrator operation from an arbitrary valid state (symbolic row count and capacity, symbolic latest state) executed on the real Integrator methods and the real kernel source; every buffer access is bounds-checked by the solver under the path condition; results compared as hash-consed terms with the single-call fold of the kernel step; bounded histories from the constructor with symbolic INITIAL_SIZE; solver models replayed on the compiled Integrator with NUMBA_BOUNDSCHECK=1.",
         "Trusted: z3 5.1.0; term identity => bit identity (same deterministic float operations on the same operands, numba compiles the source faithfully); mat_from_rotvec/gravity/mat_from_rph/mat_to_rph uninterpreted here (C16/C17); chunk lengths concrete <= 3 (quick) / 5 (thorough).",
         "symbolic execution of the real Integrator and kernel source over symbolic sizes (z3 LIA bounds obligations, term identity), replay of solver models", "DESIGN.md 2.2, 5/C02"),
 'C09': ('model_checking', "Bounded symbolic exploration of the real run_feedback_filter body: IMU stamps, measurement stamps of up to 3 sensors and time_step are solver variables, every feasible branch combination is explored with z3 deciding feasibility, and per path the exactly-once / ordering / index / termination obligations are discharged by the solver under the path condition. Witness schedules from solver models are replayed on the unpatched compiled filter and their traces compared.",
         B_NOTE, B_TECH, "DESIGN.md 2.2, 5/C09"),
 'C10': ('model_checking', "Same engine on the real run_feedforward_filter body: termination within fuel, strictly increasing result index starting at the first input time, step bound max(time_step, local gap), every in-span sample used exactly once in time order, positive propagation interval when it is a divisor, documented defaults.",
         B_NOTE, B_TECH, "DESIGN.md 2.2, 5/C10"),
}
MIX_NOTE = ("Trusted: z3 5.1.0 (LRA/LIA path feasibility, QF_FP lemmas, nlsat / exact normal forms for the engine-A part); collaborators replaced by contract stand-ins "
            "whose own behaviour is decided by the properties named in the evidence file; bounds on rows/epochs/chunk lengths as listed there; solver models replayed on the compiled code.")


def A(text, ref):
    return ('other', text + " Obligations are the negated identities/inequalities over one symbolic execution of the real functions (all inputs at once); `sat` answers are triaged with the true functions and replayed on the compiled code; canary mutants of the real source must be refuted.", A_NOTE, A_TECH, ref)


CHECKS.update({
 'C17': A("Euler convention of mat_from_rph against the textbook body->NED matrix and the images of the body axes, proper rotation, round trip through mat_to_rph, both branches of the kernel's mat_from_rotvec (path fork on the norm threshold; trig branch characterised as exp([v x]); Taylor branch within 1e-18 by alternating-series enclosures), _phi_to_delta_rph as the eps^1 coefficient of the Euler angles under a platform rotation, stacked = single.", "DESIGN.md 5/C17"),
 'C16': A("Closed-form ellipsoid and normal offset, NED frame orthonormal with columns = partial derivatives of ECEF position divided by the principal radii (eps-jets through the real lla_to_ecef / principal_radii / mat_en_from_ll), first-order agreement of perturb_lla / compute_lla_difference / lla_to_ned with that geometry, curvature matrix = rotation of the NED frame under displacement, gravity = compiled copy = gravity_n = gravitation_ecef minus centrifugal term, rate_n, parity in latitude, stacked = scalar; proved with symbolic ellipsoid and gravity constants; structure of the Olson inverse (longitude exact, z-mirror, stacked = single) by path exploration of its masked assignments. Accuracy of the Olson inverse as a series claim: with the squared eccentricity a formal parameter, ecef_to_lla(lla_to_ecef(lat, 0, h)) reproduces latitude through e2^2 (thorough e2^3) and altitude through e2^3 on both branches (exact square roots of perfect squares, exact normal form); a numeric bound on the remainder is outside.", "DESIGN.md 5/C16"),
 'C07': A("The real kalman.correct on fully symbolic x, P=P^T, z, H, R=R^T (R positive definite, P positive semidefinite as preconditions): posterior mean and covariance equal x + P H^T S^-1 (z - Hx) and P - P H^T S^-1 H P, symmetric, information form, P - P+ and P+ positive semidefinite (n <= 2), innovation = residual whitened by the LOWER Cholesky factor, two independent blocks in either order = joint update, inputs not written. Rational identities that nlsat cannot decide are reduced exactly to polynomial identities by multiplying out the reciprocals. Dimensions <= 3x2 / 5x1 over the reals. Binary64 family: the same source executed on 1x1 operands of FloatingPoint(11,53) terms, returned variance >= 0 and not NaN over P in [1e-10,1e10], R in [1e-8,1e8], H in [-1e3,1e3], decided as QF_FP by cvc5 under both scalar models of LAPACK potrs, harness compared bit for bit with the compiled code each run; other conditioning claims are outside.", "DESIGN.md 5/C07"),
 'C08': A("The real kalman.compute_process_matrices on symbolic F, symmetric Q and a formal time step, expm replaced by its defining series (exact in the truncated algebra): coefficientwise through dt^K the transition matrix is exp(F dt), the noise matrix is the series of the integral of the propagated noise density, symmetric, zero for a zero step; with two formal steps the composition law Phi(s+t) = Phi(t)Phi(s), Qd(s+t) = Phi(t)Qd(s)Phi(t)^T + Qd(t). n <= 3 (quick) / 4 (thorough), K <= 6. Finite steps: strictly upper triangular symbolic F (terminating series, exact stub), real dt in (0, 200], every data-dependent branch explored by the path executor: Phi and Qd equal the exact polynomials.", "DESIGN.md 5/C08"),
 'C05': A("eps-jets through the real correct_pva, compute_state_difference (Series branch, including to_180_range), transform_to_output / transform_to_internal, sim.perturb_pva, perturb_lla in both altitude modes: the output-to-internal transform is a left inverse, the eps^1 coefficient of state_difference(pva, correct_pva(pva, eps x)) equals T_out x, perturb-then-correct restores the state to first order, the residual is exactly second order (non-zero eps^2 coefficient witnessed), 2D rows down/VD of T_out identically zero and correct_pva returns alt and VD unchanged through eps^2.", "DESIGN.md 5/C05"),
 'C06': A("The real Position / NedVelocity / BodyVelocity.compute_matrices and their Jacobian helpers on symbolic state, lever arm (none or symbolic), body rates (present/absent), both altitude modes: H x equals the eps^1 coefficient of z(pva) - z(correct_pva(pva, eps x)), z equals predicted minus measured against an independent oracle, R = sd^2 I of matching dimension, absent time returns None, simulated measurements with a symbolic error give residual -e.", "DESIGN.md 5/C06"),
 'C15': A("The real compute_increments_from_imu (both sensor types) on formal-interval samples of polynomial signals with symbolic vector coefficients against the Peano-Baker series of the exact attitude and body-frame velocity integral: for linear signals the rotation is exact through T^4, the velocity increment through T^2 and its only T^3 discrepancy is (1/6) a x (a x d); generic quadratic signals agree below the algorithm order; the same for three samples with a symbolic ratio mu in [0.2, 5] of the preceding interval to the examined one (irregular stamps); table shape for irregular symbolic stamps.", "DESIGN.md 5/C15"),
 'C14': A("The real EstimationModel / Parameters code with symbolic standard deviations whose signs decide the enable bits (bias, walk, noise fork on every path; scale-misalignment masks enumerated): dimensions of states/P/F/G/H/J/q/v mutually consistent, P = diag(sd^2), q and G map enabled walks to their bias states, state names = the simulator's parameter-table columns, output_matrix(r) x = (T-I) r + b, estimates accumulate, correct_increments undoes the noise-free simulated error for irregular stamps (both DataFrame and Series forms), coefficients of the random draws = noise/sqrt(dt), noise sqrt(dt), walk sqrt(dt); walk without bias raises.", "DESIGN.md 5/C14"),
 'C04': A("Bivariate jets (error scale eps, time step t) through two runs of the real kernel step, the real system_matrices and propagate_errors: for every unit direction of the 9 (7) error states and 6 sensor errors and each of 15 state components, the eps^1 t^1 coefficient of correct_pva(INS(t), eps x(t)) - truth(t) is identically zero for the velocity/gyro/accel columns and the position/attitude rows of the attitude columns, equals exactly (Omega_n x phi) x V in the velocity rows of the attitude columns, and vanishes at V = 0 for the position columns except d(gravity)/d(latitude) in [DV3, DR1] which is bounded; no-altitude mode under vertical equilibrium of the specific force; propagate_errors = one trapezoidal step of that model. Velocity-proportional residuals of the position columns are reported, not decided.", "DESIGN.md 5/C04"),
 'C01': A("Claimed as local consistency: the real compute_increments_from_imu (rate and increment sensors, samples of linear-in-time signals) followed by one step of the real kernel from a fully symbolic state, with the sampling interval a formal parameter: order 0 reproduces the state, and the t^1 coefficients satisfy Newton's law in the Earth-fixed frame - position kinematics, velocity dynamics with specific force, gravity and the Coriolis term, attitude kinematics with Earth rate - written with the library's geodesy functions and symbolic ellipsoid constants. Consistency + stability => convergence is cited (Dahlquist/Lax); finite-interval error ratios are outside.", "DESIGN.md 5/C01"),
 'C03': A("generate_imu with scipy's splines idealised as exact interpolants of an arbitrary smooth motion (time-jets per row), decomposed at the scipy boundary: position nodes = inertial position R_z(W t) lla_to_ecef(lla), gravitation array, attitude nodes = R_z(W t) C_en C_nb, readings = C_ib^T (inertial acceleration - gravitation) and vee(C_ib^T C_ib'), returned velocity, Hermite node derivatives, a rotating-frame kinematics glue lemma over a free curve, a body at rest senses Earth rate and the reaction to gravity, the closed-form increment integrals of _compute_increment_readings (gyro through dt^4, accel through dt^3), and the wiring of the increment-type branch (spline polynomial coefficients as free symbols of the local model, start-of-interval body frame, first sample duplicated). Position-only and position+velocity forms; the initial-position form is stated as not covered.", "DESIGN.md 5/C03"),
 'C11': ('other', "Claimed as wiring + dataflow. Wiring (engine A): the real _compute_error_propagation_matrices, _initialize_covariance and _compute_feedforward_result with real EstimationModel objects on several enable-mask pairs and symbolic values: the joint F and Q handed to compute_process_matrices equal [[F_ii, F_ig H_g, F_ia H_a],[0,F_g,0],[0,0,F_a]] and the sum over physical noise sources (independent of stacking order), P0 = blockdiag(T_int diag(sd^2) T_int^T, P_gyro, P_accel), output compensation = -T_out x to first order, sd^2 = diag(T_out P T_out^T), sensor tables = state sub-vectors. Dataflow (engine B): on every explored schedule of the real feedforward loop the stored x and P terms equal the textbook recursion rebuilt from the schedule (x <- Phi x, P <- Phi P Phi^T + Qd, correct with [H|0|0] in order, dynamics at the averaged nominal state, measurement model at the interpolated computed state). The recursion-equals-batch theorem is cited.", MIX_NOTE, "engine A (symbolic execution on z3 reals, negated identities) + engine B (symbolic execution of the real loop over symbolic time stamps, term comparison)", "DESIGN.md 5/C11"),
 'C12': ('model_checking', "Three of the four sentences: (a) transparency - on every explored path of the real feedback loop with all measurement stamps outside the span (or None / []) there is no predict/correct/set_pva/update, integrate calls partition the increments and the rows handed to the integrator are the original ones; bit-exactness of the identity correction by QF_FP lemmas; with C02 bit-identical to one integrate call; replayed bit for bit on the compiled filter. (c) repeatability - model objects enter with symbolic garbage in their estimate state and no logged token depends on it. Dataflow of the feedback form on schedules with several epochs per IMU interval: the first correction of every epoch starts from the zero error state, x and P chain, the written-back state is correct_pva(latest state, x[ins block]), P is propagated as Phi P Phi^T + Qd. (b') one-step feedback consistency of correct_increments after update_estimates(eps x) on real EstimationModel objects (engine A). The whole-run first-order equivalence with the feedforward filter is outside.", MIX_NOTE, B_TECH + " + QF_FP lemmas + engine A for the sensor feedback", "DESIGN.md 5/C12"),
 'C13': ('model_checking', "Integrator: invariant 'stored vertical velocity of the latest state is the literal 0.0' over an arbitrary valid state of the real 2D Integrator and kernel source (symbolic sizes), established by the constructor and by set_pva for arbitrary supplied VD; every produced row has VD = 0.0 and its altitude term is FP-equal to the latest supplied altitude (QF_FP query on the kernel's own term); explicit histories. Feedback loop (engine B): one 2D integrator, every written-back state is the 2D correction of the latest state. FP lemmas for exactly-zero sd and the 2D correction; engine A: T_out 2D rows identically zero, 2D correct_pva returns alt/VD unchanged, Position / NedVelocity return two rows.", MIX_NOTE, "symbolic execution of the real Integrator/kernel/loop over symbolic sizes and stamps + z3 QF_FP queries on kernel terms + engine A identities", "DESIGN.md 5/C13"),
 'C18': A("to_180_range for every real angle (remainder as a real in [0,360), path fork on the wrap) in scalar / array / Series / DataFrame forms; Series differences in the regimes no-wrap / heading wraps up / down / roll wraps: antisymmetry, zero self-difference, range and congruence of the angle columns, down and velocity differences; recovery of a perturbation to first order and, for a finite pure east / pure down displacement, exactly for every longitude including across the antimeridian; DataFrame branch on five enumerated concrete time layouts with symbolic values: common index, antisymmetry across the operand swap, zero difference against itself and against a sub-sampling, resampling reproduces original rows, drops outside times, keeps column order, linear midpoint. Layout dimension sampled, not decided. One known finding (equal-rate offset tables).", "DESIGN.md 5/C18"),
})

NA = {
 'C19': "purity/aliasing/determinism/schema are value-independent facts about numpy/pandas/scipy C internals; a symbolic run must replace exactly those internals by models, so there is nothing for a solver to quantify over (DESIGN.md section 6)",
}
ALL = ['C%02d' % i for i in range(1, 20)]
DEF = " Every divisor met during the symbolic run is additionally shown to be non-zero on the claimed domain (a reciprocal would otherwise silently exclude the inputs where it vanishes)."
EXTRA = {
 'C01': DEF + " A branch of the code on a symbolic value (none in the unmodified tree) is explored by the path executor, each path under its own condition.",
 'C02': " Call-position independence: the rows of a chunk are also run as rows w, w+1, ... of a longer kernel call with a symbolic w >= 0 (the chunk-split law for a prefix of any length).",
 'C03': DEF, 'C04': DEF + " propagate_errors on three rows with a symbolic ratio of the two intervals (irregular stamps).", 'C05': DEF, 'C06': DEF, 'C11': DEF,
 'C07': " Thorough tier: up to 4 states x 2 observations. A branch of the function on a symbolic value (none in the unmodified tree) is explored by the path executor.",
 'C08': " Further families: F given as an integer-typed array (the dtype of an argument must not leak: a store of a real-valued quantity into an integer array is a failed obligation) and an exactly diagonal F with the divisors of any closed-form path shown non-zero for all rates.",
 'C09': " Every division by a symbolic time quantity must have a divisor that cannot be zero on the path.",
 'C10': " Every division by a symbolic time quantity must have a divisor that cannot be zero on the path.",
 'C13': " The no-altitude flag is also passed as a falsy numpy boolean and as 0; measurement objects are queried in the 2D mode after a 3D query on the same object.",
 'C14': " Parameters.from_EstimationModel is executed with symbolic standard draws: mean and variance of every simulated element equal the model's (asymmetric patterns).",
 'C15': " Near-uniform interval ratios and non-canonical column layouts of the Imu frame are part of the oracle and of the symbolic frames; if the code leaves what the symbolic run can follow, the numeric oracle decides on the compiled code (reported as such).",
 'C17': " Every divisor inside mat_from_rotvec is shown non-zero on its branch (all rotation vectors up to a half turn).",
 'C18': " A layout with permuted columns checks that tables are identified by column names.",
}


def main():
    checks = []
    for pid in ALL:
        if pid not in CHECKS:
            continue
        cat, text, note, tech, ref = CHECKS[pid]
        text = text + EXTRA.get(pid, '')
        checks.append({"property_id": pid, "quick_cmd": "./check %s --tier quick" % pid,
                       "thorough_cmd": "./check %s --tier thorough" % pid,
                       "evidence_file": "evidence/%s.json" % pid,
                       "replay_cmd_template": "./check --replay {path}", "engine": "pvf",
                       "level_claimed": {"category": cat, "text": text, "design_ref": ref},
                       "level_note": note, "technique": tech})
    na = []
    for pid in ALL:
        if pid in CHECKS:
            continue
        na.append({"property_id": pid, "reason": NA.get(pid, "check not built yet in this revision (DESIGN.md section 5 describes the intended encoding)")})
    m = {"version": 1, "setup_cmd": "./setup.sh",
         "hooks": {"guard": "PYINS_VERIF",
                   "enable": "none needed: all instrumentation is in-process substitution of module globals inside the checker's interpreter; /repo is never built with hooks",
                   "baseline_off_cmd": "cd /repo && /venv/bin/python -m pytest -ra -q -p no:cacheprovider --timeout=900 --continue-on-collection-errors",
                   "source_commits": [], "add_only": True},
         "engines": [{"name": "pvf", "path": "pvf/", "serves_properties": [c["property_id"] for c in checks],
                      "kind_free_text": "symbolic execution of the real pyins source on z3-backed values (engine A: reals + truncated series; engine B: symbolic time stamps/sizes with path forking; engine C: FloatingPoint lemmas), obligations discharged by z3, models replayed on the compiled code"}],
         "checks": checks, "not_applicable": na,
         "notes": "exit 0 held / 1 VIOLATION (replayed on the real code) / 2 harness error or inconclusive. Fixed defects: known_findings.json. See DESIGN.md."}
    with open(os.path.join(HERE, 'MANIFEST.json'), 'w') as f:
        json.dump(m, f, indent=1)


if __name__ == '__main__':
    main()
