#!/bin/bash
# usage: confirm_seed.sh <patch.diff> <demo.py> <seed-name> <property-id> [notes.md]
# Confirms a seeded change on clean `git archive` copies of /repo's HEAD (no git stash: it is shared between worktrees):
# the suite passes with it, the demo fails with it and passes without it; stores everything under /verif/seeded/<seed-name>/.
PATCH=$(readlink -f $1); DEMO=$(readlink -f $2); NAME=$3; PID=$4; NOTES=$5
OUT=/verif/seeded/$NAME
mkdir -p $OUT
cp $PATCH $OUT/patch.diff; cp $DEMO $OUT/; [ -n "$NOTES" ] && cp $NOTES $OUT/SEED_NOTES.md
W=$(mktemp -d /tmp/confirm_XXXXXX)
mkdir -p $W/with $W/without
git -C /repo archive HEAD | tar -x -C $W/with
git -C /repo archive HEAD | tar -x -C $W/without
(cd $W/with && patch -p1 -s < $PATCH) || { echo "patch failed"; rm -rf $W; exit 2; }
D=$(basename $DEMO)
cp $DEMO $W/with/; cp $DEMO $W/without/
(cd $W/with && PYTHONPATH=$W/with timeout 1500 /venv/bin/python -m pytest -q -p no:cacheprovider pyins/tests -k "not Turntable" --timeout=900 > $OUT/suite_with_change.log 2>&1); S=$?
(cd $W/with && PYTHONPATH=$W/with timeout 900 /venv/bin/python $D > $OUT/demo_with_change.log 2>&1); D1=$?
(cd $W/without && PYTHONPATH=$W/without timeout 900 /venv/bin/python $D > $OUT/demo_without_change.log 2>&1); D0=$?
rm -rf $W
python3 - <<PY
import json
json.dump({"property": "$PID", "seed": "$NAME", "suite_exit_with_change": $S, "demo_exit_with_change": $D1, "demo_exit_without_change": $D0,
           "confirmed": ($S == 0 and $D1 == 1 and $D0 == 0),
           "what_ran": ["pytest pyins/tests -k 'not Turntable' on a clean copy of /repo HEAD with patch.diff applied", "$D on that copy", "$D on a clean copy without the patch"]},
          open("$OUT/confirm.json", "w"), indent=1)
PY
tail -1 $OUT/suite_with_change.log; echo "$NAME suite=$S demo_with=$D1 demo_without=$D0"
