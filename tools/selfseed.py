#!/verif/.venv/bin/python
"""End-to-end power test of the checks: every canary mutant that the property modules apply in
memory is applied ON DISK to a scratch copy of /repo's pyins, and the whole quick check of that
property is run against the copy (PYINS_REPO). Expected: exit 1 with a VIOLATION line, i.e. the
symbolic side refutes AND the numeric replay oracle reproduces on the compiled mutant. exit 2 means
the oracle (or the harness) is too weak for that mutant, exit 0 means the check misses it.

usage: tools/selfseed.py [C04 C07 ...] [--jobs 4]      writes /verif/selfseed/RESULTS.json
Nothing in /repo or /verif/evidence is touched; scratch copies live under /tmp and are removed."""
import importlib
import json
import os
import re
import shutil
import subprocess
import sys
import tempfile
import time
from concurrent.futures import ThreadPoolExecutor

HERE = os.path.dirname(os.path.dirname(os.path.abspath(__file__)))
sys.path.insert(0, HERE)
REPO = '/repo'
MODFILES = {'K': '_numba_integrate.py', 'T': 'transform.py', 'E': 'earth.py', 'U': 'util.py', 'EM': 'error_model.py', 'M': 'measurements.py',
            'KF': 'kalman.py', 'SD': 'strapdown.py', 'IS': 'inertial_sensor.py', 'SIM': 'sim.py', 'F': 'filters.py'}


def sources():
    out = {}
    for fn in subprocess.run(['git', '-C', REPO, 'ls-tree', '--name-only', 'HEAD', 'pyins/'], capture_output=True, text=True).stdout.split():
        if fn.endswith('.py'):
            out[os.path.basename(fn)] = subprocess.run(['git', '-C', REPO, 'show', 'HEAD:' + fn], capture_output=True, text=True).stdout
    return out


def flatten(x):
    if isinstance(x, str):
        yield x
    elif isinstance(x, (tuple, list)):
        for y in x:
            yield from flatten(y)


def func_span(text, fname):
    """(start, end) of `def name(` ... up to the next def/class at the same or lower indent"""
    name = fname.split('.')[-1]
    start = 0
    if '.' in fname:
        m = re.search(r'^class %s\b' % re.escape(fname.split('.')[0]), text, re.M)
        if not m:
            return None
        start = m.start()
    m = re.compile(r'^([ \t]*)def %s\(' % re.escape(name), re.M).search(text, start)
    if not m:
        return None
    indent = len(m.group(1))
    nxt = re.compile(r'^[ \t]{0,%d}(def|class|@)\b' % indent, re.M).search(text, m.end())
    return m.start(), (nxt.start() if nxt else len(text))


FILTER_FUNC = {'C09': 'run_feedback_filter', 'C10': 'run_feedforward_filter', 'C11': 'run_feedforward_filter', 'C12': 'run_feedback_filter', 'C13': 'run_feedback_filter'}
INTEG_FUNC = {'_integrate': ('strapdown.py', 'Integrator._integrate'), 'set_pva': ('strapdown.py', 'Integrator.set_pva'), '__init__': ('strapdown.py', 'Integrator.__init__'),
              'kernel': ('_numba_integrate.py', 'integrate')}


def locate(entry, src, prop=None):
    """-> (file, start, end, new) for the mutation an entry describes, or None"""
    strs = list(flatten(entry))
    # engine-A form: (modkey, func, old, new) somewhere in the entry
    def rec(x):
        if isinstance(x, (tuple, list)):
            if len(x) == 4 and all(isinstance(y, str) for y in x) and x[0] in MODFILES:
                return x
            for y in x:
                r = rec(y)
                if r:
                    return r
        return None
    spec = rec(entry)
    cands = []
    if spec:
        cands.append((MODFILES[spec[0]], spec[1], spec[2], spec[3]))
    if len(strs) >= 4 and strs[1] in INTEG_FUNC:
        cands.append(INTEG_FUNC[strs[1]] + (strs[2], strs[3]))
    if prop in FILTER_FUNC and len(strs) >= 3:
        cands.append(('filters.py', FILTER_FUNC[prop], strs[1], strs[2]))
        other = 'run_feedforward_filter' if FILTER_FUNC[prop] == 'run_feedback_filter' else 'run_feedback_filter'
        cands.append(('filters.py', other, strs[1], strs[2]))
    for i in range(1, len(strs) - 1):
        cands.append((None, strs[i - 1] if i >= 2 else None, strs[i], strs[i + 1]))
    for fn_hint, func, old, new in cands:
        if old in ('pass',) or not old.strip():
            continue
        if '\n' in old:
            # multi-line token (taken from dedented source): match modulo indentation
            rx = re.compile(r'[ \t]*\n[ \t]*'.join(re.escape(l.strip()) for l in old.split('\n') if l.strip()))
            hits = []
            for fn in ([fn_hint] if fn_hint else sorted(src)):
                ms = list(rx.finditer(src[fn]))
                if ms:
                    hits.append((fn, ms))
            if len(hits) == 1 and len(hits[0][1]) == 1:
                fn, (m_,) = hits[0]
                text = src[fn]
                ls = text.rfind('\n', 0, m_.start()) + 1
                indent = re.match(r'[ \t]*', text[ls:]).group(0)
                new2 = ('\n' + indent).join(l.strip() if i else l for i, l in enumerate(new.split('\n'))) if '\n' in new else new
                return fn, m_.start(), m_.end(), new2
            continue
        files = [fn_hint] if fn_hint else sorted(src)
        hits = []
        for fn in files:
            text = src[fn]
            span = func_span(text, func) if (func and fn_hint) else None
            lo, hi = span if span else (0, len(text))
            k = text.find(old, lo, hi)
            if k >= 0:
                n_in = text.count(old, lo, hi)
                hits.append((fn, k, n_in))
        if fn_hint and hits and (func is None or func_span(src[fn_hint], func)):
            fn, k, _n = hits[0]
            return fn, k, k + len(old), new
        if len(hits) == 1 and hits[0][2] == 1:
            fn, k, _n = hits[0]
            return fn, k, k + len(old), new
    return None


def canaries_of(prop):
    mod = importlib.import_module('pvf.props.%s' % prop.lower())
    out = []
    for attr in dir(mod):
        if 'CANARIES' in attr and isinstance(getattr(mod, attr), (list, tuple)):
            for e in getattr(mod, attr):
                if isinstance(e, (tuple, list)) and e and isinstance(e[0], str):
                    out.append((attr, e))
    return out


def run_one(job):
    prop, table, entry, loc = job
    fn, a, b, new = loc
    d = tempfile.mkdtemp(prefix='selfseed_', dir='/tmp')
    try:
        subprocess.run('git -C %s archive HEAD pyins | tar -x -C %s' % (REPO, d), shell=True, check=True)     # committed HEAD (run_seeds.py may be patching the working tree)
        path = os.path.join(d, 'pyins', fn)
        text = open(path).read()
        old = text[a:b]
        if new.strip() == 'pass' or new == 'XX':
            pass
        open(path, 'w').write(text[:a] + new + text[b:])
        try:
            compile(open(path).read(), path, 'exec')
        except SyntaxError as e:
            return {'property': prop, 'canary': entry[0], 'skipped': 'mutant does not compile: %s' % e}
        env = dict(os.environ)
        env.update(PYINS_REPO=d, PYTHONPATH=d + os.pathsep + HERE, PVF_EVIDENCE_DIR=os.path.join(d, 'evidence'), PVF_REPLAY_DIR=os.path.join(d, 'replays'),
                   PYTHONWARNINGS='ignore', PYTHONDONTWRITEBYTECODE='1')
        os.makedirs(env['PVF_EVIDENCE_DIR'])
        t0 = time.time()
        try:
            p = subprocess.run([os.path.join(HERE, '.venv', 'bin', 'python'), '-m', 'pvf.main', prop, '--tier', 'quick'], capture_output=True, text=True, env=env, cwd=HERE, timeout=1500)
            rc, outp = p.returncode, p.stdout
        except subprocess.TimeoutExpired:
            rc, outp = 124, ''
        viol = [l for l in outp.splitlines() if l.startswith('VIOLATION')]
        what = [l.strip()[:260] for l in outp.splitlines() if l.startswith('  what:')]
        errs = [l.strip()[:260] for l in outp.splitlines() if l.startswith('HARNESS-ERROR') and 'canary not detected' not in l and 'stale canary' not in l]
        return {'property': prop, 'table': table, 'canary': entry[0], 'file': fn, 'old': old, 'new': new, 'exit': rc, 'violations': len(viol),
                'first_violation': (what or [''])[0], 'first_error': (errs or [''])[0], 'wall_s': round(time.time() - t0, 1)}
    finally:
        shutil.rmtree(d, ignore_errors=True)


def main(argv):
    jobs_n = 4
    if '--jobs' in argv:
        i = argv.index('--jobs')
        jobs_n = int(argv[i + 1])
        argv = argv[:i] + argv[i + 2:]
    only = None
    if '--only' in argv:
        i = argv.index('--only')
        only = argv[i + 1]
        argv = argv[:i] + argv[i + 2:]
    props = argv or ['C%02d' % i for i in range(1, 19)]
    src = sources()
    jobs, skipped = [], []
    for prop in props:
        seen = set()
        for table, e in canaries_of(prop):
            if only and only not in e[0]:
                continue
            loc = locate(e, src, prop)
            if loc is None:
                skipped.append({'property': prop, 'canary': e[0], 'skipped': 'token not uniquely locatable on disk (multi-line or repeated)'})
                continue
            key = (loc[0], loc[1], loc[3])
            if key in seen:
                continue
            seen.add(key)
            jobs.append((prop, table, e, loc))
    print('%d mutants to run, %d skipped' % (len(jobs), len(skipped)), flush=True)
    results = []
    with ThreadPoolExecutor(jobs_n) as ex:
        for r in ex.map(run_one, jobs):
            results.append(r)
            print('%s exit=%s viol=%s %-60s %s' % (r['property'], r.get('exit'), r.get('violations'), r['canary'][:60], (r.get('first_error') or '')[:120]), flush=True)
    out = os.path.join(HERE, 'selfseed')
    os.makedirs(out, exist_ok=True)
    rp = os.path.join(out, 'RESULTS.json')
    old = json.load(open(rp)) if os.path.exists(rp) else {}
    for r in results + skipped:
        old['%s: %s' % (r['property'], r['canary'])] = r
    json.dump(old, open(rp, 'w'), indent=1, sort_keys=True)
    n1 = sum(1 for r in results if r.get('exit') == 1 and r.get('violations'))
    print('detected end to end (exit 1): %d of %d; exit 2: %d; exit 0: %d' % (n1, len(results), sum(1 for r in results if r.get('exit') == 2), sum(1 for r in results if r.get('exit') == 0)))


if __name__ == '__main__':
    main(sys.argv[1:])
