#!/bin/bash
# usage: with_patch.sh <patch.diff> <property> [tier]   - runs the check of <property> against a scratch copy of /repo's
# committed HEAD with the patch applied (PYINS_REPO); /repo, evidence/ and replays/ are not touched; the copy is removed.
PATCH=$(readlink -f $1); PROP=$2; TIER=${3:-quick}
HERE=$(cd "$(dirname "$0")/.." && pwd)
D=$(mktemp -d /tmp/withpatch_XXXXXX)
mkdir -p $D/evidence $D/replays
git -C /repo archive HEAD pyins | tar -x -C $D      # committed HEAD, so that a concurrent run_seeds.py (which patches the working tree) cannot leak in
(cd $D && patch -p1 -s < $PATCH) || { echo "patch failed"; rm -rf $D; exit 3; }
cd $HERE
PYINS_REPO=$D PYTHONPATH=$D:$HERE PVF_EVIDENCE_DIR=$D/evidence PVF_REPLAY_DIR=$D/replays PYTHONWARNINGS=ignore PYTHONDONTWRITEBYTECODE=1 \
  .venv/bin/python -m pvf.main $PROP --tier $TIER "${@:4}"
RC=$?
rm -rf $D
exit $RC
