#!/usr/bin/env python3
"""Applies every seeded change under /verif/seeded/<name>/patch.diff to /repo in turn, runs the quick check of the
property it breaks, records the outcome, and always reverts /repo (git checkout -- .). Writes /verif/seeded/RESULTS.json."""
import json, os, shutil, subprocess, sys, tempfile
HERE = os.path.dirname(os.path.dirname(os.path.abspath(__file__)))
SEEDED = os.path.join(HERE, 'seeded')
only = sys.argv[1:]
out = {}
if subprocess.run(['git', '-C', '/repo', 'status', '--porcelain', '--untracked-files=no'], capture_output=True, text=True).stdout.strip():
    sys.exit('/repo has uncommitted changes; refusing to run')
for name in sorted(os.listdir(SEEDED)):
    d = os.path.join(SEEDED, name)
    if not os.path.isdir(d) or (only and name not in only and name.split('-')[0] not in only):
        continue
    prop = name.split('-')[0]
    meta = json.load(open(os.path.join(d, 'meta.json'))) if os.path.exists(os.path.join(d, 'meta.json')) else {}
    checks = meta.get('checks', [prop])
    try:
        subprocess.run(['git', '-C', '/repo', 'apply', os.path.join(d, 'patch.diff')], check=True)
        out[name] = {'property': prop, 'by_check': {}, 'detected': False}
        for chk in checks:
            env = dict(os.environ)
            tmp = tempfile.mkdtemp(prefix='runseeds_', dir='/tmp')
            env.update(PVF_EVIDENCE_DIR=os.path.join(tmp, 'evidence'), PVF_REPLAY_DIR=os.path.join(tmp, 'replays'))      # the evidence of a seeded tree is not evidence
            os.makedirs(env['PVF_EVIDENCE_DIR'])
            p = subprocess.run([os.path.join(HERE, 'check'), chk, '--tier', meta.get('tier', 'quick')], capture_output=True, text=True, cwd=HERE, env=env)
            shutil.rmtree(tmp, ignore_errors=True)
            viol = [l for l in p.stdout.splitlines() if l.startswith('VIOLATION')]
            what = [l.strip()[:300] for l in p.stdout.splitlines() if l.startswith('  what:')]
            det = p.returncode == 1 and bool(viol)
            out[name]['by_check'][chk] = {'exit': p.returncode, 'detected': det, 'first_violation': (what or [''])[0]}
            out[name]['detected'] = out[name]['detected'] or det
        out[name]['exit'] = max(v['exit'] == 1 for v in out[name]['by_check'].values()) and 1 or max(v['exit'] for v in out[name]['by_check'].values())
    finally:
        subprocess.run(['git', '-C', '/repo', 'checkout', '--', '.'])
    print(name, out[name]['exit'], out[name]['detected'], flush=True)
old = {}
rp = os.path.join(SEEDED, 'RESULTS.json')
if os.path.exists(rp):
    old = json.load(open(rp))
old.update(out)
json.dump(old, open(rp, 'w'), indent=1)
